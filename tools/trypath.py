#!/usr/bin/env python3
"""tools/trypath.py <ID> <tier> <job> 'op1 ; op2 ; ...'  -- replays a hand-written path and prints the violations met."""
import json,sys,subprocess,tempfile,os
pid,tier,job,path=sys.argv[1],sys.argv[2],int(sys.argv[3]),[x.strip() for x in sys.argv[4].split(';') if x.strip()]
f=tempfile.NamedTemporaryFile('w',suffix='.json',delete=False,dir='/verif/.cache')
json.dump(dict(property=pid,tier=tier,job=job,job_name='',violation=dict(property=pid,oracle='',signature='?',detail='',path=path,scenario='')),f); f.close()
r=subprocess.run(['/verif/.cache/bin/fxmc','replay',f.name],capture_output=True,text=True)
print(r.stdout[-6000:],r.stderr[-2000:]); os.unlink(f.name)
