#!/bin/bash
# tools/seedtest_wt.sh <patch.diff> <ID> [tier]  -- runs a check against a seeded change WITHOUT touching /repo:
# a private worktree of /repo gets the patch, a private copy of /verif/mc is pointed at it (go.mod replace), the binary
# is built and run there with its evidence / replays redirected. Several of these can run side by side.
# Output of the check on stdout, then "exit=<code>". Everything it created is removed afterwards.
set -u
patch="$(readlink -f "$1")"; id="$2"; tier="${3:-quick}"
export GOFLAGS=-mod=mod GOPROXY=off GOSUMDB=off GOTOOLCHAIN=local GOCACHE=/verif/.cache/go-build CGO_ENABLED=1
# a small pool of fixed paths (slots): the Go build cache keys fx-core's packages by directory, so fresh temporary
# directories would recompile and re-cache the whole repository for every run
mkdir -p /tmp/fxmc-slots
W=""
for n in 1 2 3 4 5 6; do
  exec {lockfd}>/tmp/fxmc-slots/$n.lock
  if flock -n $lockfd; then W=/tmp/fxmc-slots/$n; break; fi
  exec {lockfd}>&-
done
if [ -z "$W" ]; then exec {lockfd}>/tmp/fxmc-slots/1.lock; flock $lockfd; W=/tmp/fxmc-slots/1; fi
cleanup() { git -C /repo worktree remove --force "$W/repo" >/dev/null 2>&1; rm -rf "$W"; git -C /repo worktree prune; }
trap cleanup EXIT
git -C /repo worktree remove --force "$W/repo" >/dev/null 2>&1; rm -rf "$W"; git -C /repo worktree prune; mkdir -p "$W"
git -C /repo worktree add -q --detach "$W/repo" HEAD || { echo "cannot create worktree"; exit 3; }
if [ "$patch" != "/dev/null" ]; then
  git -C "$W/repo" apply "$patch" || { echo "patch does not apply"; echo "exit=3"; exit 3; }
fi
cp -r "${MC_SRC:-/verif/mc}" "$W/mc"   # MC_SRC: a frozen copy of the harness (the matrix takes one at its start)
sed -i "s|^replace github.com/functionx/fx-core/v8 => /repo$|replace github.com/functionx/fx-core/v8 => $W/repo|" "$W/mc/go.mod"
cp "$W/repo/go.sum" "$W/mc/go.sum"
mkdir -p "$W/out/.cache" && cp /verif/known_findings.json "$W/out/"
if [ "$id" = C17 ]; then
  (cd /verif/seamgen && go build -o "$W/seamgen" .) || { echo "HARNESS-ERROR seamgen build failed"; echo "exit=2"; exit 2; }
  "$W/seamgen" -repo "$W/repo" -out "$W/seam" >/dev/null || { echo "HARNESS-ERROR seamgen failed"; echo "exit=2"; exit 2; }
  (cd "$W/mc" && go build -tags "verif seam" -overlay "$W/seam/overlay.json" -o "$W/fxseam" ./cmd/fxseam) 2>"$W/build.err" || { cat "$W/build.err"; echo "HARNESS-ERROR build failed"; echo "exit=2"; exit 2; }
  VERIF_DIR="$W/out" "$W/fxseam" --tier "$tier" --sites "$W/seam/sites.json"
  rc=$?
else
  (cd "$W/mc" && go build -tags verif -o "$W/fxmc" ./cmd/fxmc) 2>"$W/build.err" || { cat "$W/build.err"; echo "HARNESS-ERROR build failed"; echo "exit=2"; exit 2; }
  VERIF_DIR="$W/out" "$W/fxmc" check "$id" --tier "$tier"
  rc=$?
fi
echo "exit=$rc"
exit $rc
