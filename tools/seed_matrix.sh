#!/bin/bash
# tools/seed_matrix.sh ID... -- runs each kept seeded change against the check of its property; output kept next to the seed
cd /verif
for id in "$@"; do
  d=/verif/seeded/$id
  [ -f $d/patch.diff ] || continue
  tools/seedtest.sh $d/patch.diff ${id:0:3} quick > $d/check_output.txt 2>&1
  grep -E "^(VIOLATION|exit=)" $d/check_output.txt | head -5
done
