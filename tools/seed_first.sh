#!/bin/bash
# tools/seed_first.sh <SEED-ID> [check-ID]  -- a freshly delivered seeded change in /tmp/seedwork/<SEED-ID>/out:
# confirm it (build, demonstration with / without, touched-package tests) and run the property's quick check against it
# in a private worktree. Results: .cache/confirm/<SEED-ID>.txt and /tmp/seedwork/<SEED-ID>/check_first.txt
id=$1; prop=${2:-${id:0:3}}
cd /verif
CONFIRM_WT=/tmp/confirm-wt-$id tools/confirm_seeds2.sh fast $id > /dev/null 2>&1
tools/seedtest_wt.sh /tmp/seedwork/$id/out/patch.diff $prop quick > /tmp/seedwork/$id/check_first.txt 2>&1
echo "$id: $(grep RESULT .cache/confirm/$id.txt) ; check: $(grep -c '^VIOLATION' /tmp/seedwork/$id/check_first.txt) violation lines $(grep '^exit=' /tmp/seedwork/$id/check_first.txt | tail -1)"
