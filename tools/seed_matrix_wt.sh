#!/bin/bash
# tools/seed_matrix_wt.sh [-P n] ID...  -- runs every kept seeded change against the check of its property in private
# worktrees (tools/seedtest_wt.sh), n at a time; output kept next to the seed as check_output.txt.
# A seed may name the check that decides it in seeded/<ID>/check_by.txt (default: its own property).
cd /verif
P=3
if [ "$1" = "-P" ]; then P=$2; shift 2; fi
# a frozen copy of the harness sources: editing /verif/mc while the matrix runs must not reach it
export MC_SRC=/tmp/fxmc-mc-snapshot
rm -rf $MC_SRC && cp -r /verif/mc $MC_SRC
one() {
  id=$1; d=/verif/seeded/$id
  [ -f $d/patch.diff ] || exit 0
  prop=${id:0:3}; [ -f $d/check_by.txt ] && prop=$(cat $d/check_by.txt)
  timeout 3000 tools/seedtest_wt.sh $d/patch.diff $prop quick > $d/check_output.txt 2>&1
  echo "$id by $prop: $(grep -c '^VIOLATION' $d/check_output.txt) violation lines, $(grep '^exit=' $d/check_output.txt | tail -1)"
}
export -f one
printf '%s\n' "$@" | xargs -P $P -I{} bash -c 'one {}'
