#!/bin/bash
# tools/covreport.sh <out.txt> <ID>...  -- merges the coverage data of the given checks' runs (.cache/cov/data/<ID>) into a text profile
cd /verif/mc
export GOFLAGS=-mod=mod GOPROXY=off GOSUMDB=off GOTOOLCHAIN=local GOCACHE=/verif/.cache/go-build
out=$1; shift
dirs=""; for i in "$@"; do dirs="$dirs,/verif/.cache/cov/data/$i"; done
go tool covdata textfmt -i=${dirs#,} -o $out
