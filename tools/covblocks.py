#!/usr/bin/env python3
"""tools/covblocks.py <profile.txt> <path-substring>... : prints the source of every block no run of the checks executed"""
import sys,re,collections
prof=sys.argv[1]; pats=sys.argv[2:]
blocks=collections.defaultdict(dict)
for l in open(prof):
    m=re.match(r'(.+):(\d+)\.(\d+),(\d+)\.(\d+) (\d+) (\d+)$',l.strip())
    if not m: continue
    f,sl,sc,el,ec,n,c=m.groups()
    if not any(p in f for p in pats): continue
    k=(int(sl),int(sc),int(el),int(ec))
    blocks[f][k]=max(blocks[f].get(k,0),int(c))
for f in sorted(blocks):
    path=f.replace('github.com/functionx/fx-core/v8','/repo')
    try: src=open(path).read().split('\n')
    except Exception: continue
    unc=sorted(k for k,c in blocks[f].items() if c==0)
    if not unc: continue
    print('=====',path,f'{len(unc)}/{len(blocks[f])} blocks uncovered')
    for sl,sc,el,ec in unc:
        print(f'  --- {sl}-{el}')
        for i in range(sl,min(el,sl+6)+1):
            print('   ',i,src[i-1][:150])
