#!/usr/bin/env python3
"""Regenerates /verif/MANIFEST.json. Edit BUILT (ids whose check exists) and the per-property texts."""
import json, sys
BUILT = sys.argv[1].split(',') if len(sys.argv) > 1 else []
MC = 'explicit-state model checking of the implementation: depth-bounded exhaustive DFS over real handlers on store branches, exact whole-store SHA-256 state matching, reference-model / invariant oracles in every state'
T = {
 'C01': ('model_checking', 'Every interleaving (to the depth bound) of right/duplicate/skipping votes with competing claim variants by 3+1 oracles, executeClaim calls, membership changes and slashing blocks is executed against the real keeper; a monitor checks nonce order, exactly-once observation and execution in every state.', MC, '§4 C01'),
 'C02': ('model_checking', 'Every vote order x stake-change interleaving for several stake vectors (incl. truncation witnesses) is executed; each observation is re-tallied from raw records in exact arithmetic; the signer/bridger binding is checked end-to-end through real FinalizeBlock for every claim type; a restart of the module from its exported genesis (real ExportGenesis / InitGenesis) is one of the operations.', MC + ' + exhaustive (claim type x wrapper signer) enumeration through real FinalizeBlock', '§4 C02'),
 'C03': ('model_checking', 'All claims within a per-field value product are bucketed by ClaimHash and every bucket must agree on all execution-relevant fields; for each claim type every single-field-different pair is voted by two oracles of a 2-of-2 quorum in the real keeper and must not be tallied together; every order of votes by four oracles for two competing claims per nonce is explored with a monitor that ties each recorded vote to the claim it named.', 'bounded-exhaustive enumeration of claim pairs (injectivity of ClaimHash over a field-value product) + explicit-state model checking (exhaustive DFS with exact state matching) of the competing-claims vote schedules in the real keeper', '§4 C03'),
 'C04': ('model_checking', 'All bridge operation sequences to the bound over FX / module-owned / externally-owned tokens on two chains run against the real app in lock-step with a reference ledger; conservation, per-account deltas and withdrawability are checked on every transition; further jobs: a pool larger than one batch, an inbound bridge call to a re-entrant receiver, deposits forwarded over a loop-back IBC channel.', MC, '§4 C04'),
 'C05': ('model_checking', 'All pool/batch/bridge-call life-cycle sequences to the bound, record-by-record comparison of pool, batches and outgoing calls with a reference book after every step; further jobs: a pool larger than one batch, bridge-call results that stay parked and are executed late.', MC, '§4 C05'),
 'C06': ('model_checking', 'Joint exploration of fxcore and a Go model of the external bridge contract admission rules; no record may be both executed externally and refunded on fxcore; timeouts only in event handling at observed height >= timeout; focused jobs for non-monotonic batch timeouts, two tokens, parked results executed late and two calls settled out of nonce order.', MC + ' with a co-simulated external-chain model', '§4 C06'),
 'C07': ('model_checking', 'Every sequence of obligation-creating operations up to the bound through real handlers and real End/BeginBlockers; from every distinct state a look-ahead probe ages the state past the signed window and the governance periods; jobs for obligations, governance (every tally shape, per-type rules in every stored shape, expedited / cancelled proposals) and zero-power oracles.', MC + ', look-ahead probes', '§4 C07'),
 'C08': ('model_checking', 'All conversion / registration / toggle sequences and all <=3-action contract programs mixing token calls with converting precompile calls; pair-book invariants in every state (a holder of bridge-denomination coins and bank metadata that precedes a registration are part of the scenario).', MC + ' + exhaustive program enumeration', '§4 C08'),
 'C09': ('fault_enumeration', 'For every state-changing precompile method and call-tree shape, the transaction is re-run at every distinct gas threshold of its successful trace and with every failure placement (including targets that fail or abort after their native action has written, inside frames that catch the failure); full store dump compared with the designated outcome; all ordered pairs (a, b) of methods with a in a reverted frame followed by b.', 'exhaustive fault-point enumeration (every gas threshold of the traced execution x call-tree shapes, all ordered method pairs) with full-store differential oracle', '§4 C09'),
 'C10': ('model_checking', 'All (caller x call kind x method x governance switch) combinations are executed against a victim portfolio; third-party state must be unchanged; every governance switch entry (address, address/method) must stop the method.', 'exhaustive enumeration of caller/call-kind/method/switch configurations on the real EVM + precompiles', '§4 C10'),
 'C11': ('model_checking', 'All sequences of precompile staking operations (incl. self-transfer) among 3 accounts and 2 validators with reward blocks and slashing; share conservation and SDK invariants in every state, exit look-ahead.', MC + ', crisis-invariant and exit probes', '§4 C11'),
 'C12': ('model_checking', 'Checkpoints of all objects in a shape x boundary-value product are compared byte-for-byte with an independent ABI encoder written from the Solidity source; all candidate confirmations (key x digest x encoding x bridger x repeat) are submitted to the real keeper.', 'bounded-exhaustive enumeration against an independent reference encoder + exhaustive candidate-confirmation enumeration in the real keeper', '§4 C12'),
 'C13': ('model_checking', 'All oracle life-cycle sequences to the bound (approve, bond, add-delegate, redelegate, edit-bridger, confirm, blocks incl. unbonding time, removal, unbond, restart from the exported genesis) with registry/stake/slashing oracles in every state.', MC, '§4 C13'),
 'C14': ('model_checking', 'All source portfolios in the shape product x governance involvement x target kinds are migrated in the real app; differential and twin-run oracles; signatures by another key, over the swapped pair, and valid for another source.', 'exhaustive enumeration of portfolio/gov/target configurations with differential (twin-run) oracle', '§4 C14'),
 'C15': ('model_checking', 'All submit/deposit/vote/time/custom-param sequences to the bound against a reference proposal book; deposit conservation in every state; quorum boundaries (a turnout that equals the quorum exactly).', MC, '§4 C15'),
 'C16': ('exploration', 'Every authority-carrying message type found on the message router x payload variants x non-governance authorities; rejected and full-store digest unchanged.', 'exhaustive enumeration over the message router (reflection) with whole-store digest oracle', '§4 C16'),
 'C17': ('model_checking', 'Histories are re-executed under every map-iteration order at each map-range site (overlay seam) and two clocks, in separate processes, and once more with every transaction simulated before its block; app hash, results and events must agree.', 'exhaustive enumeration of environment answers (map orders, clock) via build-overlay seams + cross-process replay', '§4 C17'),
 'C18': ('fault_enumeration', 'Every tolerated-failure boundary x failure point (k-th token/message, revert before/after writes, every gas threshold); full dump must equal the designated outcome.', 'exhaustive fault-point enumeration with full-store differential oracle', '§4 C18'),
 'C19': ('model_checking', 'All packet/ack/timeout/duplicate sequences over loop-back IBC channels through the real core handlers and middleware; credit/refund exactly-once oracles; governance pausing the pair while a transfer is in flight; deposits forwarded over IBC.', MC + ' over 09-localhost loop-back channels', '§4 C19'),
 'C20': ('exploration', 'Every <=2-field deviation and every truncation of every registered message / precompile calldata through ValidateBasic, ante and precompile Run (no panic); fee rule enumerated over message lists x gas x fee x exemptions through real CheckTx against an independent specification.', 'bounded-exhaustive input enumeration (deviation-bounded) + exhaustive fee-rule table through real CheckTx', '§4 C20'),
}
EXTRA = {
 'C01': ' A further job starts after 100 executed events (attestation pruning active); an accepted vote must stay in its attestation until the event is observed.',
 'C03': ' The buckets are repeated over the chain name written into the claim x both address formats of every address value.',
 'C04': ' Further jobs: inbound bridge calls with the send-call-to memo flag; a bridge token whose symbol reads like the native coin\'s in another letter case.',
 'C07': ' The alphabet includes the external chain\'s oracle-set-updated event (oracle-set pruning, timeouts at a far external height) and passed proposals that make the governance account a depositor of another open proposal.',
 'C08': ' An externally-owned token that destroys itself exercises pair removal; every index entry must point to a stored pair.',
 'C10': ' The switch setting is also reached through a clearing update on a discarded branch and through a raw store update.',
 'C11': ' A second job works on the second validator (delegations that arrived by redelegation) with a slash for an older infraction.',
 'C14': ' Governance involvement is tried under four period regimes (at once, 13 days in, periods shortened after opening, a longer per-type voting period); source portfolios include fully undelegated sources.',
 'C15': ' Deposits for ended proposals and a split yes/veto vote are part of the alphabet.',
 'C17': ' Half of the independent processes run with telemetry enabled; a history of objects that tie on every sort key times out at one event.',
 'C18': ' Inbound bridge calls are also delivered to plain accounts (k-th token failing) and with the send-call-to memo flag.',
 'C19': ' The derived memo-call senders exist as accounts, so successful memo calls are part of the explored space.',
}
props = [json.loads(l) for l in open('/verif/properties.jsonl')]
checks, na = [], []
for p in props:
    i = p['id']
    if i in BUILT:
        lvl, text, tech, ref = T[i]
        checks.append(dict(property_id=i, quick_cmd=f'./run {i} quick', thorough_cmd=f'./run {i} thorough', evidence_file=f'/verif/evidence/{i}.json',
            replay_cmd_template='./run replay {path}', engine='fxseam' if i == 'C17' else 'fxmc',
            level_claimed=dict(category=lvl, text=text + EXTRA.get(i, ''), design_ref=ref),
            level_note='Bounds and alphabet per job are written into the evidence file (coverage.jobs, assumptions); harness shortcuts (handler on store branch, emulated block boundary) are validated by replaying traces through real FinalizeBlock+Commit where the evidence reports traces_validated_against_impl > 0.',
            technique=tech))
    else:
        na.append(dict(property_id=i, reason='check not built yet in this session (work in progress; the design in DESIGN.md §4 applies)'))
base = json.load(open('/root/.vp/BASELINE.json'))['cmd']
m = dict(version=1, setup_cmd='./run setup',
    hooks=dict(guard='verif', enable='go build -tags verif (./build.sh); one add-only hook file x/crosschain/types/unpack_verif.go. The C17 seams (map iteration order, clock) are NOT in /repo: tools/build_seam.sh generates them as a go build -overlay from the current tree at check time', baseline_off_cmd=base,
               source_commits=json.load(open('/verif/tools/hook_commits.json')), add_only=True),
    engines=[dict(name='fxmc', path='/verif/mc', serves_properties=[b for b in BUILT if b != 'C17'], kind_free_text='hand-written explicit-state explorer / fault-point and input enumerators over the real fx-core application (store branches as states, real handlers as transitions)'),
             dict(name='fxseam', path='/verif/mc/cmd/fxseam', serves_properties=[b for b in BUILT if b == 'C17'], kind_free_text='environment-answer enumerator: /verif/seamgen type-checks the current tree and generates a go build -overlay in which every map range and time.Now() of fx-core asks the explorer; histories run through real FinalizeBlock+Commit under every iteration order (deviation-bounded), two clocks, 16 OS processes')],
    checks=checks, not_applicable=na,
    notes='known_findings.json lists fixed/known defects; replays/ holds violation artefacts; seeded/ holds confirmed property-breaking changes.')
json.dump(m, open('/verif/MANIFEST.json', 'w'), indent=1)
print('claimed', [c['property_id'] for c in checks])
