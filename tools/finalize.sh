#!/bin/bash
# tools/finalize.sh -- last step of a session: clean build caches, rebuild, run every quick check on the unchanged tree
# (evidence), run every kept seeded change against its check (seeded/*/check_output.txt, meta.json), validate schemas.
cd /verif
if ! git -C /repo diff --quiet; then echo "/repo has uncommitted changes"; exit 3; fi
export GOFLAGS=-mod=mod GOPROXY=off GOSUMDB=off GOTOOLCHAIN=local
if [ "$1" = "--clean" ]; then
  GOCACHE=/verif/.cache/go-build go clean -cache
  go clean -cache
  rm -rf .cache/run-* .cache/dev .cache/seedrun .cache/bin/fxmc-* .cache/bin/fxseam-*
fi
./run setup || exit 2
for i in $(seq -w 1 20); do
  echo "=== C$i"; ./run C$i quick 2>&1 | grep -v "^  outcomes\|^  counters\|^  site" | tail -6 | cut -c1-300; echo "exit=${PIPESTATUS[0]}"
done > .cache/final_quick.log 2>&1
grep -c "exit=0" .cache/final_quick.log
tools/seed_matrix.sh $(ls seeded) > .cache/final_matrix.log 2>&1
python3 tools/seed_meta.py > .cache/final_meta.log 2>&1
grep -L VIOLATION seeded/*/check_output.txt
python3-vt - <<'PY'
import json,jsonschema,glob
jsonschema.validate(json.load(open('/verif/MANIFEST.json')), json.load(open('/root/.vp/MANIFEST.schema.json')))
for f in glob.glob('/verif/evidence/C*.json'):
    jsonschema.validate(json.load(open(f)), json.load(open('/root/.vp/EVIDENCE.schema.json')))
print('schemas ok')
PY
