#!/bin/bash
# builds seamgen, generates the overlay from /repo's current tree, builds fxseam with it
set -e
export GOFLAGS=-mod=mod GOPROXY=off GOSUMDB=off GOTOOLCHAIN=local GOCACHE=/verif/.cache/go-build CGO_ENABLED=1
mkdir -p /verif/.cache/bin
(cd /verif/seamgen && go build -o /verif/.cache/bin/seamgen .)
/verif/.cache/bin/seamgen -repo /repo -out /verif/.cache/seam
cd /verif/mc && cp /repo/go.sum go.sum
go build -tags "verif seam" -overlay /verif/.cache/seam/overlay.json -o /verif/.cache/bin/fxseam ./cmd/fxseam
