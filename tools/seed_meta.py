#!/usr/bin/env python3
"""Writes seeded/<ID>/meta.json from the sub-agent's notes, my confirmation logs (.cache/confirm) and the check output."""
import json,os,re,subprocess
first_run={'C01':'caught','C02':'missed','C03':'missed','C04':'missed','C05':'missed','C06':'missed','C07':'missed','C08':'missed','C09':'caught','C10':'missed','C11':'caught','C12':'caught','C13':'missed','C14':'missed','C15':'missed','C16':'missed','C17':'caught (check built afterwards, without looking at the change)','C18':'caught','C19':'missed','C20':'caught'}
first_run.update({'C01-2':'missed','C02-2':'missed by C02 (caught by C13: stale-index-entry)','C03-2':'missed','C04-2':'missed','C05-2':'missed','C06-2':'missed by C06 (caught by C04)','C07-2':'missed','C08-2':'missed','C09-2':'missed','C10-2':'caught','C11-2':'caught','C12-2':'missed','C13-2':'caught','C14-2':'missed','C15-2':'caught','C16-2':'missed','C17-2':'missed','C18-2':'caught','C19-2':'caught','C20-2':'missed'})
first_run.update({'C01-3':'caught','C02-3':'missed','C03-3':'missed by C03 (caught by C01 / C02: two-observed-attestations)','C04-3':'missed by C04 (caught by C01: re-entrancy job)','C05-3':'missed','C06-3':'missed','C07-3':'missed','C08-3':'caught','C09-3':'missed','C10-3':'caught','C11-3':'caught','C12-3':'missed','C13-3':'caught','C14-3':'caught','C15-3':'caught','C17-3':'missed','C18-3':'missed by C18 (caught by C04)','C19-3':'missed','C20-3':'caught'})
first_run.update({'C01-4':'missed','C02-4':'caught','C03-4':'missed','C04-4':'missed','C05-4':'missed by C05 (caught by C06)','C06-4':'missed by C06; caught by C03 at first run (check_by.txt)','C07-4':'missed','C08-4':'missed','C09-4':'missed','C10-4':'missed by C10; caught by C09 at first run (check_by.txt)','C11-4':'caught','C13-4':'missed','C14-4':'missed','C15-4':'harness error only (now a violation)','C17-4':'missed','C18-4':'missed','C19-4':'caught','C20-4':'missed'})
first_run.update({'C01-5':'caught','C02-5':'missed','C04-5':'caught','C06-5':'missed','C07-5':'missed','C08-5':'missed','C13-5':'caught','C15-5':'missed','C19-5':'caught',
 'C03-5':'missed','C09-5':'caught','C10-5':'missed','C11-5':'caught','C12-5':'caught','C14-5':'missed','C16-5':'caught','C17-5':'missed','C18-5':'missed','C20-5':'caught'})
if os.path.exists('/verif/tools/first_run_6.json'): first_run.update(json.load(open('/verif/tools/first_run_6.json')))
for name in sorted(os.listdir('/verif/seeded')):
    pid=name; d=f'/verif/seeded/{pid}'
    if not os.path.exists(f'{d}/agent_meta.json'): continue
    a=json.load(open(f'{d}/agent_meta.json'))
    conf=open(f'/verif/.cache/confirm/{pid}.txt').read() if os.path.exists(f'/verif/.cache/confirm/{pid}.txt') else ''
    out=open(f'{d}/check_output.txt').read() if os.path.exists(f'{d}/check_output.txt') else ''
    sigs=re.findall(r'signature=(\S+)',out)
    m=dict(property=pid[:3], seed=pid,
      what_changed=a.get('what_changed'), why_it_breaks_the_property=a.get('why_it_breaks_the_property'), needs_to_manifest=a.get('needs_to_manifest'),
      demonstration=dict(file=os.path.basename(open(f'{d}/demo_path.txt').read().strip()), path_in_repo=open(f'{d}/demo_path.txt').read().strip(), cmd=a.get('demo_cmd')),
      written_by='fresh sub-agent given only the property text and a scratch worktree of /repo',
      what_i_ran=dict(
        script='tools/confirm_seeds.sh / confirm_seeds2.sh (scratch worktree under /tmp, removed afterwards): go build ./... ; demonstration with the change ; demonstration after git apply -R ; tests of the packages the patch touches ; go test -vet=off -timeout 25m ./... with the change and without the demonstration file (SUITE lines; where no SUITE line is present my own whole-suite run did not finish in the session and the whole-suite result is the sub-agent\'s, see tests_result)',
        result=[l for l in conf.splitlines() if l.startswith('demo with') or l.startswith('RESULT') or l.startswith('SUITE') or l.startswith('touched-package')] or ['confirmed with the same script in an earlier session (demonstration fails with / passes without the change, touched-package tests and suite green); that session\'s log files were not kept across the sandbox restore'],
        suite_failures_with_change=sorted(set(re.findall(r'--- FAIL: (\S+)',conf))),
        agent_tests_result=a.get('tests_result'),
        check='tools/seedtest_wt.sh seeded/%s/patch.diff %s quick (private worktree of /repo with the patch, private copy of /verif/mc built against it)'%(pid,(open(d+'/check_by.txt').read().strip() if os.path.exists(d+'/check_by.txt') else pid[:3]))),
      check_first_run=first_run.get(pid,'?'),
      check_now='caught' if 'VIOLATION' in out else 'NOT caught',
      violation_signatures=sorted(set(sigs)))
    json.dump(m,open(f'{d}/meta.json','w'),indent=1)
    try: print(pid,m['check_now'],m['violation_signatures'][:2],m['what_i_ran']['result'])
    except BrokenPipeError: pass
