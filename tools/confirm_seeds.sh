#!/bin/bash
# tools/confirm_seeds.sh ID...  -- confirms seeded changes in a scratch worktree: demo fails with / passes without the change,
# full suite green with the change (apart from the known root-only failure). Results: /verif/.cache/confirm/<ID>.txt
export GOFLAGS=-mod=mod GOPROXY=off GOSUMDB=off GOTOOLCHAIN=local
WT=/tmp/confirm-wt
mkdir -p /verif/.cache/confirm
[ -d $WT ] || git -C /repo worktree add -q --detach $WT HEAD
for id in "$@"; do
  out=/tmp/seedwork/$id/out; log=/verif/.cache/confirm/$id.txt; : > $log
  git -C $WT checkout -q --detach $(git -C /repo rev-parse HEAD) 2>>$log; git -C $WT checkout -- . ; git -C $WT clean -fdq
  demo=$(cat $out/demo_path.txt | head -1 | tr -d '[:space:]'); cmd=$(python3 -c "import json;print(json.load(open('$out/meta.json'))['demo_cmd'])")
  echo "demo=$demo cmd=$cmd" >> $log
  git -C $WT apply $out/patch.diff || { echo "RESULT patch-does-not-apply" >> $log; continue; }
  (cd $WT && go build ./... ) >> $log 2>&1 || { echo "RESULT build-fails" >> $log; continue; }
  cp $out/$(basename $demo) $WT/$demo
  (cd $WT && eval "$cmd") > $log.with 2>&1; w=$?
  git -C $WT apply -R $out/patch.diff
  (cd $WT && eval "$cmd") > $log.without 2>&1; wo=$?
  echo "demo with change exit=$w ; without change exit=$wo" >> $log
  rm -f $WT/$demo
  git -C $WT apply $out/patch.diff
  (cd $WT && go test -vet=off -timeout 25m ./... 2>&1 | grep -v "no test files" | grep -v "^ok " ) > $log.suite 2>&1
  echo "suite non-ok lines:" >> $log; grep -E "^(FAIL|--- FAIL|panic)" $log.suite | head -20 >> $log
  git -C $WT checkout -- . ; git -C $WT clean -fdq
  if [ $w -ne 0 ] && [ $wo -eq 0 ]; then echo "RESULT demo-ok" >> $log; else echo "RESULT demo-bad" >> $log; fi
done
