#!/bin/bash
# tools/confirm_seeds2.sh <phase> ID...   phase = fast | suite
# fast : in a scratch worktree - go build ./..., the demonstration with the change and after git apply -R, and the tests of
#        the packages the patch touches. Result: /verif/.cache/confirm/<ID>.txt (RESULT demo-ok / demo-bad)
# suite: the whole test suite with the change applied and the demonstration file absent
#        (/verif/.cache/confirm/<ID>.txt.suite, summary appended to <ID>.txt as "SUITE ...")
export GOFLAGS=-mod=mod GOPROXY=off GOSUMDB=off GOTOOLCHAIN=local
phase="$1"; shift
WT=${CONFIRM_WT:-/tmp/confirm-wt-$phase}
mkdir -p /verif/.cache/confirm
[ -d $WT ] || git -C /repo worktree add -q --detach $WT HEAD
for id in "$@"; do
  out=/tmp/seedwork/$id/out; [ -d $out ] || out=/verif/seeded/$id
  log=/verif/.cache/confirm/$id.txt
  git -C $WT checkout -q --detach $(git -C /repo rev-parse HEAD) 2>/dev/null; git -C $WT checkout -- . ; git -C $WT clean -fdq
  git -C $WT apply $out/patch.diff || { echo "RESULT patch-does-not-apply" >> $log; continue; }
  if [ "$phase" = fast ]; then
    : > $log
    demo=$(head -1 $out/demo_path.txt | tr -d '[:space:]')
    mf=$out/meta.json; [ -f $out/agent_meta.json ] && mf=$out/agent_meta.json
    cmd=$(python3 -c "import json;print(json.load(open('$mf'))['demo_cmd'])")
    echo "demo=$demo cmd=$cmd" >> $log
    (cd $WT && go build ./... ) >> $log 2>&1 || { echo "RESULT build-fails" >> $log; continue; }
    cp $out/$(basename $demo) $WT/$demo
    (cd $WT && eval "$cmd") > $log.with 2>&1; w=$?
    git -C $WT apply -R $out/patch.diff
    (cd $WT && eval "$cmd") > $log.without 2>&1; wo=$?
    echo "demo with change exit=$w ; without change exit=$wo" >> $log
    rm -f $WT/$demo
    git -C $WT apply $out/patch.diff
    pk=$(grep '^+++ b/' $out/patch.diff | sed 's|^+++ b/||' | xargs -n1 dirname | sort -u | sed 's|^|./|' | tr '\n' ' ')
    echo "packages touched: $pk" >> $log
    (cd $WT && go test -vet=off -count=1 -timeout 25m $pk 2>&1 | grep -v "no test files") > $log.pkgs 2>&1
    echo "touched-package tests: $(grep -c '^ok ' $log.pkgs) ok, $(grep -c '^FAIL' $log.pkgs) FAIL lines" >> $log
    grep -E "^(FAIL|--- FAIL|panic)" $log.pkgs | head -10 >> $log
    if [ $w -ne 0 ] && [ $wo -eq 0 ]; then echo "RESULT demo-ok" >> $log; else echo "RESULT demo-bad" >> $log; fi
  else
    (cd $WT && go test -vet=off -count=1 -timeout 25m ./... 2>&1 | grep -v "no test files" | grep -v "^ok " ) > $log.suite 2>&1
    echo "SUITE failing tests with the change: $(grep -E '^--- FAIL' $log.suite | awk '{print $3}' | sort -u | tr '\n' ' ')" >> $log
    echo "SUITE failing packages: $(grep -E '^FAIL\s' $log.suite | awk '{print $2}' | sort -u | tr '\n' ' ')" >> $log
  fi
  git -C $WT checkout -- . ; git -C $WT clean -fdq
done
git -C /repo worktree remove --force $WT; git -C /repo worktree prune
