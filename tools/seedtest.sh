#!/bin/bash
# tools/seedtest.sh <patch.diff> <ID> [tier]   -- applies a seeded change to /repo, runs the check, always reverts.
set -u
patch="$1"; id="$2"; tier="${3:-quick}"
cd /verif
if ! git -C /repo diff --quiet; then echo "/repo has uncommitted changes; refusing"; exit 3; fi
git -C /repo apply "$patch" || { echo "patch does not apply"; exit 3; }
# always revert, and rebuild so that .cache/bin holds binaries of the unchanged tree again
trap 'git -C /repo checkout -- . ; git -C /repo clean -fdq -- . 2>/dev/null; ./build.sh >/dev/null 2>&1; [ "$id" = C17 ] && tools/build_seam.sh >/dev/null 2>&1' EXIT
mkdir -p /verif/.cache/seedrun && cp known_findings.json /verif/.cache/seedrun/
VERIF_DIR=/verif/.cache/seedrun ./run "$id" "$tier"
echo "exit=$?"
