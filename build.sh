#!/bin/bash
# builds fxmc from /repo's current working tree (go.sum refreshed from /repo)
set -e
cd /verif/mc
export GOFLAGS=-mod=mod GOPROXY=off GOSUMDB=off GOTOOLCHAIN=local GOCACHE=/verif/.cache/go-build CGO_ENABLED=1
mkdir -p /verif/.cache/bin
cp /repo/go.sum go.sum
go build -tags verif -o /verif/.cache/bin/fxmc ./cmd/fxmc
