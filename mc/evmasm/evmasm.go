// Package evmasm assembles straight-line EVM programs (call trees) without a Solidity compiler.
// A program is a list of actions executed in order; each call action copies its calldata from code
// to memory and performs CALL / STATICCALL / DELEGATECALL / CALLCODE, then either requires success
// (revert otherwise), ignores the result (try/catch) or records it in storage.
package evmasm

import (
	"encoding/binary"
	"math/big"

	"github.com/ethereum/go-ethereum/common"
)

type Kind byte

const (
	CALL         Kind = 0xf1
	CALLCODE     Kind = 0xf2
	DELEGATECALL Kind = 0xf4
	STATICCALL   Kind = 0xfa
)

func (k Kind) String() string {
	switch k {
	case CALL:
		return "CALL"
	case CALLCODE:
		return "CALLCODE"
	case DELEGATECALL:
		return "DELEGATECALL"
	case STATICCALL:
		return "STATICCALL"
	}
	return "?"
}

// After says what the program does with a call's success flag.
type After int

const (
	Require After = iota // revert the frame if the call failed
	Ignore               // drop the flag (caught failure, execution continues)
	Record               // SSTORE the flag into slot RecordSlot
)

type Action struct {
	// exactly one of the following groups is used
	Call *CallAction
	Mark *MarkAction // SSTORE(slot, value)
	// StopIfBalanceAbove: STOP (successfully) if token.balanceOf(address(this)) > Amount. Lets a re-entrant program
	// terminate: the balance is what earlier (nested) executions have already credited to the program.
	StopIfBalanceAbove *BalanceGuard
}

type BalanceGuard struct {
	Token  common.Address
	Amount byte
}

type CallAction struct {
	Kind       Kind
	To         common.Address
	Data       []byte
	Value      *big.Int // CALL / CALLCODE only
	After      After
	RecordSlot byte
	Gas        uint64 // 0 = all remaining gas
	// GasFromCalldata: the gas handed to the call is the first 32-byte word of the transaction's calldata
	// (lets one deployed program be run with every inner gas cap)
	GasFromCalldata bool
}

type MarkAction struct {
	Slot  byte
	Value byte
}

type Program struct {
	Actions []Action
	Revert  bool // end with REVERT instead of STOP
}

func CallOf(kind Kind, to common.Address, data []byte, after After) Action {
	return Action{Call: &CallAction{Kind: kind, To: to, Data: data, After: after}}
}

func Mark(slot, v byte) Action { return Action{Mark: &MarkAction{Slot: slot, Value: v}} }

func push1(b byte) []byte   { return []byte{0x60, b} }
func push2(v uint16) []byte { return []byte{0x61, byte(v >> 8), byte(v)} }

// Runtime assembles the runtime bytecode.
func (p Program) Runtime() []byte {
	// pass 1: code size (every offset uses PUSH2, so sizes are fixed)
	type blob struct{ data []byte }
	build := func(dataStart int, revertLabel int) ([]byte, []blob) {
		var code []byte
		var blobs []blob
		off := dataStart
		for _, a := range p.Actions {
			if g := a.StopIfBalanceAbove; g != nil {
				code = append(code, 0x63, 0x70, 0xa0, 0x82, 0x31) // PUSH4 balanceOf(address)
				code = append(code, push1(0xe0)...)
				code = append(code, 0x1b) // SHL
				code = append(code, push1(0)...)
				code = append(code, 0x52) // MSTORE
				code = append(code, 0x30) // ADDRESS
				code = append(code, push1(4)...)
				code = append(code, 0x52)
				code = append(code, push1(32)...)   // retLength
				code = append(code, push1(0x40)...) // retOffset
				code = append(code, push1(36)...)   // argsLength
				code = append(code, push1(0)...)    // argsOffset
				code = append(code, 0x73)
				code = append(code, g.Token.Bytes()...)
				code = append(code, 0x5a, 0xfa, 0x50) // GAS STATICCALL POP
				code = append(code, push1(g.Amount)...)
				code = append(code, push1(0x40)...)
				code = append(code, 0x51, 0x11) // MLOAD GT  (balance > amount)
				code = append(code, push2(uint16(revertLabel+6))...)
				code = append(code, 0x57) // JUMPI to the stop label
				continue
			}
			if a.Mark != nil {
				code = append(code, push1(a.Mark.Value)...)
				code = append(code, push1(a.Mark.Slot)...)
				code = append(code, 0x55) // SSTORE
				continue
			}
			c := a.Call
			n := len(c.Data)
			// CODECOPY(destOffset=0, offset=off, size=n)
			code = append(code, push2(uint16(n))...)
			code = append(code, push2(uint16(off))...)
			code = append(code, push1(0)...)
			code = append(code, 0x39)
			blobs = append(blobs, blob{c.Data})
			off += n
			// call arguments, pushed in reverse
			code = append(code, push1(0)...)          // retLength
			code = append(code, push1(0)...)          // retOffset
			code = append(code, push2(uint16(n))...) // argsLength
			code = append(code, push1(0)...)          // argsOffset
			if c.Kind == CALL || c.Kind == CALLCODE {
				v := c.Value
				if v == nil {
					v = big.NewInt(0)
				}
				code = append(code, 0x7f) // PUSH32
				code = append(code, common.LeftPadBytes(v.Bytes(), 32)...)
			}
			code = append(code, 0x73) // PUSH20
			code = append(code, c.To.Bytes()...)
			if c.GasFromCalldata {
				code = append(code, push1(0)...)
				code = append(code, 0x35) // CALLDATALOAD
			} else if c.Gas == 0 {
				code = append(code, 0x5a) // GAS
			} else {
				var g [8]byte
				binary.BigEndian.PutUint64(g[:], c.Gas)
				code = append(code, 0x67) // PUSH8
				code = append(code, g[:]...)
			}
			code = append(code, byte(c.Kind))
			switch c.After {
			case Require:
				code = append(code, 0x15) // ISZERO
				code = append(code, push2(uint16(revertLabel))...)
				code = append(code, 0x57) // JUMPI
			case Ignore:
				code = append(code, 0x50) // POP
			case Record:
				code = append(code, push1(c.RecordSlot)...)
				code = append(code, 0x55)
			}
		}
		if p.Revert {
			code = append(code, push1(0)...)
			code = append(code, push1(0)...)
			code = append(code, 0xfd)
		} else {
			code = append(code, 0x00) // STOP
		}
		// revert label
		code = append(code, 0x5b) // JUMPDEST
		code = append(code, push1(0)...)
		code = append(code, push1(0)...)
		code = append(code, 0xfd)
		// stop label (revert label + 6)
		code = append(code, 0x5b, 0x00)
		return code, blobs
	}
	c0, _ := build(0, 0)
	size := len(c0)
	revertLabel := size - 8
	code, blobs := build(size, revertLabel)
	for _, b := range blobs {
		code = append(code, b.data...)
	}
	return code
}

// InitCode wraps the runtime in a constructor that returns it.
func (p Program) InitCode() []byte {
	rt := p.Runtime()
	// PUSH2 size PUSH2 offset PUSH1 0 CODECOPY PUSH2 size PUSH1 0 RETURN
	hdr := 3 + 3 + 2 + 1 + 3 + 2 + 1
	var code []byte
	code = append(code, push2(uint16(len(rt)))...)
	code = append(code, push2(uint16(hdr))...)
	code = append(code, push1(0)...)
	code = append(code, 0x39)
	code = append(code, push2(uint16(len(rt)))...)
	code = append(code, push1(0)...)
	code = append(code, 0xf3)
	return append(code, rt...)
}

// WrapRuntime wraps hand-written runtime bytecode in a constructor that returns it.
func WrapRuntime(rt []byte) []byte {
	hdr := 3 + 3 + 2 + 1 + 3 + 2 + 1
	var code []byte
	code = append(code, push2(uint16(len(rt)))...)
	code = append(code, push2(uint16(hdr))...)
	code = append(code, push1(0)...)
	code = append(code, 0x39)
	code = append(code, push2(uint16(len(rt)))...)
	code = append(code, push1(0)...)
	code = append(code, 0xf3)
	return append(code, rt...)
}
