package evmasm

import "encoding/binary"

// Asm is a tiny label-based assembler for hand-written contracts that need branches.
type Asm struct {
	code   []byte
	labels map[string]int
	refs   map[int]string
}

func NewAsm() *Asm { return &Asm{labels: map[string]int{}, refs: map[int]string{}} }

// Op appends raw opcodes.
func (a *Asm) Op(ops ...byte) *Asm { a.code = append(a.code, ops...); return a }

// Push appends PUSHn data.
func (a *Asm) Push(data ...byte) *Asm {
	a.code = append(a.code, 0x5f+byte(len(data)))
	a.code = append(a.code, data...)
	return a
}

// Label places a JUMPDEST.
func (a *Asm) Label(name string) *Asm {
	a.labels[name] = len(a.code)
	return a.Op(0x5b)
}

// PushLabel pushes the (2-byte) offset of a label.
func (a *Asm) PushLabel(name string) *Asm {
	a.code = append(a.code, 0x61)
	a.refs[len(a.code)] = name
	a.code = append(a.code, 0, 0)
	return a
}

// ReturnWord returns the word on top of the stack.
func (a *Asm) ReturnWord() *Asm { return a.Push(0).Op(0x52).Push(32).Push(0).Op(0xf3) }

// ReturnString returns abi.encode(string(s)), len(s) <= 32.
func (a *Asm) ReturnString(s string) *Asm {
	w := make([]byte, 32)
	copy(w, s)
	a.Push(0x20).Push(0).Op(0x52)
	a.Push(byte(len(s))).Push(0x20).Op(0x52)
	a.Push(w...).Push(0x40).Op(0x52)
	return a.Push(0x60).Push(0).Op(0xf3)
}

func (a *Asm) Bytes() []byte {
	for pos, name := range a.refs {
		t, ok := a.labels[name]
		if !ok {
			panic("evmasm: unknown label " + name)
		}
		binary.BigEndian.PutUint16(a.code[pos:], uint16(t))
	}
	return a.code
}

// LegacyTokenInit is the creation code of a minimal ERC-20 of the pre-standard kind: transfer(to, amount) answers
// false instead of reverting when the sender's balance does not cover the amount. balances[a] lives in storage slot a,
// the deployer receives the whole (constant) supply of 1000 units.
func LegacyTokenInit(name, symbol string) []byte { return legacyTokenInit(name, symbol, false) }

// MortalTokenInit is LegacyTokenInit plus kill(): the contract destroys itself (anyone may call it).
func MortalTokenInit(name, symbol string) []byte { return legacyTokenInit(name, symbol, true) }

func legacyTokenInit(name, symbol string, mortal bool) []byte {
	a := NewAsm()
	a.Push(0).Op(0x35).Push(0xe0).Op(0x1c) // CALLDATALOAD(0) >> 224
	for _, m := range []struct {
		sel   [4]byte
		label string
	}{
		{[4]byte{0xa9, 0x05, 0x9c, 0xbb}, "transfer"}, {[4]byte{0x70, 0xa0, 0x82, 0x31}, "balanceOf"}, {[4]byte{0x18, 0x16, 0x0d, 0xdd}, "totalSupply"},
		{[4]byte{0x31, 0x3c, 0xe5, 0x67}, "decimals"}, {[4]byte{0x06, 0xfd, 0xde, 0x03}, "name"}, {[4]byte{0x95, 0xd8, 0x9b, 0x41}, "symbol"},
	} {
		a.Op(0x80).Push(m.sel[:]...).Op(0x14).PushLabel(m.label).Op(0x57) // DUP1 PUSH4 EQ PUSH2 JUMPI
	}
	if mortal {
		a.Op(0x80).Push(0x41, 0xc0, 0xe1, 0xb5).Op(0x14).PushLabel("kill").Op(0x57)
	}
	a.Push(0).Op(0x80, 0xfd) // unknown selector: revert

	if mortal {
		a.Label("kill").Op(0x33, 0xff) // CALLER SELFDESTRUCT
	}
	a.Label("transfer")
	a.Push(0x24).Op(0x35)          // [amt]
	a.Op(0x33, 0x54)               // CALLER SLOAD      [bal, amt]
	a.Op(0x81, 0x81, 0x10)         // DUP2 DUP2 LT      [bal<amt, bal, amt]
	a.PushLabel("refuse").Op(0x57) // JUMPI             [bal, amt]
	a.Op(0x81, 0x90, 0x03)         // DUP2 SWAP1 SUB    [bal-amt, amt]
	a.Op(0x33, 0x55)               // CALLER SSTORE     [amt]
	a.Push(0x04).Op(0x35)          // [to, amt]
	a.Op(0x80, 0x54)               // DUP1 SLOAD        [balTo, to, amt]
	a.Op(0x82, 0x01)               // DUP3 ADD          [balTo+amt, to, amt]
	a.Op(0x90, 0x55)               // SWAP1 SSTORE      [amt]
	a.Op(0x50).Push(1).ReturnWord()
	a.Label("refuse").Push(0).ReturnWord() // false, nothing moved

	a.Label("balanceOf").Push(0x04).Op(0x35, 0x54).ReturnWord()
	a.Label("totalSupply").Push(0x03, 0xe8).ReturnWord()
	a.Label("decimals").Push(18).ReturnWord()
	a.Label("name").ReturnString(name)
	a.Label("symbol").ReturnString(symbol)
	rt := a.Bytes()

	c := NewAsm()
	c.Push(0x03, 0xe8).Op(0x33, 0x55) // balances[deployer] = 1000
	size := []byte{byte(len(rt) >> 8), byte(len(rt))}
	c.Push(size...).PushLabel("runtime").Push(0).Op(0x39)
	c.Push(size...).Push(0).Op(0xf3)
	c.labels["runtime"] = len(c.code)
	return append(c.Bytes(), rt...)
}
