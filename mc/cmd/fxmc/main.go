// fxmc: driver, worker and replayer of the fx-core model-checking harness.
package main

import (
	"bufio"
	"encoding/binary"
	"encoding/hex"
	"encoding/json"
	"flag"
	"fmt"
	"os"
	"os/exec"
	"path/filepath"
	"runtime/pprof"
	"sort"
	"strconv"
	"strings"
	"sync"
	"time"

	"fxmc/explore"
	_ "fxmc/props/all"
	"fxmc/props/registry"
)

func main() {
	if len(os.Args) < 2 {
		fmt.Println("usage: fxmc check <ID> [--tier quick|thorough] | worker ... | replay <file> | list")
		os.Exit(2)
	}
	switch os.Args[1] {
	case "check":
		os.Exit(cmdCheck(os.Args[2:]))
	case "worker":
		os.Exit(cmdWorker(os.Args[2:]))
	case "replay":
		os.Exit(cmdReplay(os.Args[2:]))
	case "conform": // fxmc conform <ID> <tier> <job> <depth> <max>: development aid, prints the divergences
		c := registry.Get(os.Args[2])
		j, _ := strconv.Atoi(os.Args[4])
		d, _ := strconv.Atoi(os.Args[5])
		m, _ := strconv.Atoi(os.Args[6])
		explore.Verbose = os.Getenv("FXMC_VERBOSE") != ""
		explore.NoExclusions = os.Getenv("FXMC_NOEXCL") != ""
		v, st, div := explore.Conformance(c.Jobs(os.Args[3])[j].Spec, d, m, 0, 1)
		fmt.Printf("validated=%d steps=%d divergences=%d\n", v, st, len(div))
		for _, x := range div {
			fmt.Println(" ", x)
		}
	case "list":
		ids := registry.IDs()
		sort.Strings(ids)
		fmt.Println(strings.Join(ids, " "))
	default:
		fmt.Println("unknown command", os.Args[1])
		os.Exit(2)
	}
}

func verifDir() string {
	if d := os.Getenv("VERIF_DIR"); d != "" {
		return d
	}
	return "/verif"
}

// ---------------------------------------------------------------- worker

func cmdWorker(args []string) int {
	fs := flag.NewFlagSet("worker", flag.ExitOnError)
	prop := fs.String("prop", "", "")
	tier := fs.String("tier", "quick", "")
	job := fs.Int("job", 0, "")
	shard := fs.Int("shard", 0, "")
	shards := fs.Int("shards", 1, "")
	out := fs.String("out", "", "")
	deadline := fs.Int("deadline", 0, "seconds")
	prof := fs.String("cpuprofile", "", "")
	_ = fs.Parse(args)
	if *prof != "" {
		pf, _ := os.Create(*prof)
		_ = pprof.StartCPUProfile(pf)
		defer pprof.StopCPUProfile()
	}
	c := registry.Get(*prop)
	if c == nil {
		fmt.Println("unknown property", *prop)
		return 2
	}
	jobs := c.Jobs(*tier)
	j := jobs[*job]
	var dl time.Time
	if *deadline > 0 {
		dl = time.Now().Add(time.Duration(*deadline) * time.Second)
	}
	// watchdog: a single transition that runs for minutes (unbounded recursion in the code under test, a lock that is
	// never released) must not hang the check
	// The watchdog does not trust the wall clock (the machine may be suspended, or starved by other jobs): it counts
	// its own wake-ups, 5 s apart, during which one and the same transition was running; 60 of them in a row
	// (five minutes of the watchdog's own observed time) end the worker.
	go func() {
		var lastSeq uint64
		ticks := 0
		for {
			time.Sleep(5 * time.Second)
			d, path, seq := explore.StalledSeq()
			if seq == 0 || seq != lastSeq {
				lastSeq, ticks = seq, 0
				continue
			}
			if ticks++; ticks >= 60 {
				fmt.Printf("STALLED transition running for %s (%d watchdog wake-ups): %s\n", d.Round(time.Second), ticks, strings.Join(path, " ; "))
				os.Exit(7)
			}
		}
	}()
	var res *explore.Result
	if j.Custom != nil {
		res = j.Custom(*shard, *shards, dl)
		res.Shard = *shard
	} else {
		res = explore.Run(j.Spec, explore.Options{Depth: j.Depth, Shard: *shard, Shards: *shards, ShardDepth: j.ShardDepth, Deadline: dl})
		if !j.NoConform && os.Getenv("FXMC_NOCONFORM") == "" {
			// bind the harness shortcuts to the real ABCI path: op sequences of this job replayed inside real blocks
			cd, per := 3, 4
			if *tier == "thorough" {
				cd, per = 4, 12
			}
			if cd > j.Depth {
				cd = j.Depth
			}
			v, steps, div := explore.Conformance(j.Spec, cd, per, *shard, *shards)
			if res.Extra == nil {
				res.Extra = map[string]float64{}
			}
			res.Extra["traces_validated"] += float64(v)
			res.Extra["conformance_steps"] += float64(steps)
			res.Conformance = div
		}
	}
	// digests go to a side file (8 bytes each)
	f, err := os.Create(*out + ".dig")
	if err != nil {
		fmt.Println(err)
		return 2
	}
	bw := bufio.NewWriter(f)
	for _, d := range res.Digests {
		b, _ := hex.DecodeString(d)
		bw.Write(b)
	}
	bw.Flush()
	f.Close()
	res.Digests = nil
	bz, _ := json.Marshal(res)
	if err := os.WriteFile(*out, bz, 0o644); err != nil {
		fmt.Println(err)
		return 2
	}
	return 0
}

// ---------------------------------------------------------------- driver

type finding struct {
	Property  string `json:"property"`
	Signature string `json:"signature"`
	Status    string `json:"status"` // known | fixed
	Commit    string `json:"commit,omitempty"`
	What      string `json:"what"`
}

func loadFindings() []finding {
	bz, err := os.ReadFile(filepath.Join(verifDir(), "known_findings.json"))
	if err != nil {
		return nil
	}
	var fs []finding
	if err := json.Unmarshal(bz, &fs); err != nil {
		fmt.Println("known_findings.json unreadable:", err)
		os.Exit(2)
	}
	return fs
}

type replayFile struct {
	Property  string            `json:"property"`
	Tier      string            `json:"tier"`
	Job       int               `json:"job"`
	JobName   string            `json:"job_name"`
	Violation explore.Violation `json:"violation"`
}

func cmdCheck(args []string) int {
	if len(args) < 1 {
		fmt.Println("usage: fxmc check <ID> [--tier t]")
		return 2
	}
	id := args[0]
	fs := flag.NewFlagSet("check", flag.ExitOnError)
	tier := fs.String("tier", envOr("VERIF_TIER", "quick"), "")
	procs := fs.Int("procs", 16, "")
	_ = fs.Parse(args[1:])
	seed, _ := strconv.Atoi(envOr("VERIF_SEED", "0"))
	c := registry.Get(id)
	if c == nil {
		fmt.Println("unknown property", id)
		return 2
	}
	start := time.Now()
	jobs := c.Jobs(*tier)
	self, _ := os.Executable()
	tmp, err := os.MkdirTemp(filepath.Join(verifDir(), ".cache"), "run-"+id+"-")
	if err != nil {
		_ = os.MkdirAll(filepath.Join(verifDir(), ".cache"), 0o755)
		tmp, err = os.MkdirTemp(filepath.Join(verifDir(), ".cache"), "run-"+id+"-")
		if err != nil {
			fmt.Println(err)
			return 2
		}
	}
	defer os.RemoveAll(tmp)

	perJobDeadline := 240
	if *tier == "thorough" {
		perJobDeadline = 1500
	}
	if v := os.Getenv("FXMC_DEADLINE"); v != "" {
		perJobDeadline, _ = strconv.Atoi(v)
	}

	total := &explore.Result{Outcomes: map[string]int{}, Counters: map[string]int{}, ViolationCounts: map[string]int{}, Exhaustive: true, DeterminismOK: true}
	states := 0
	var viols []replayFile
	var jobSummaries []map[string]interface{}
	broken := false
	var confDiv []string
	detDiff := ""
	// every (job, shard) worker goes through one pool of *procs slots, so a job whose shards are uneven does not leave
	// cores idle while the next job waits
	type jobRun struct {
		results []*explore.Result
		errs    []error
		shards  int
		start   time.Time
		end     time.Time
		skip    bool
	}
	runs := make([]*jobRun, len(jobs))
	slots := make(chan struct{}, *procs)
	var wgAll sync.WaitGroup
	var muEnd sync.Mutex
	for ji, j := range jobs {
		jr := &jobRun{start: time.Now()}
		runs[ji] = jr
		if only := os.Getenv("FXMC_ONLY_JOB"); only != "" && only != j.Name && only != strconv.Itoa(ji) { // development aid
			jr.skip = true
			continue
		}
		shards := *procs
		if j.Shards > 0 {
			shards = j.Shards
		}
		jr.shards = shards
		jr.results = make([]*explore.Result, shards)
		jr.errs = make([]error, shards)
		for s := 0; s < shards; s++ {
			wgAll.Add(1)
			go func(ji, s, shards int, jr *jobRun) {
				defer wgAll.Done()
				slots <- struct{}{}
				defer func() {
					<-slots
					muEnd.Lock()
					jr.end = time.Now()
					muEnd.Unlock()
				}()
				results, errs := jr.results, jr.errs
				// rotate shard numbering by seed: permutes which process explores which subtree, nothing else
				out := filepath.Join(tmp, fmt.Sprintf("j%d-s%d.json", ji, s))
				cmd := exec.Command(self, "worker", "--prop", id, "--tier", *tier, "--job", strconv.Itoa(ji),
					"--shard", strconv.Itoa((s+seed)%shards), "--shards", strconv.Itoa(shards), "--out", out, "--deadline", strconv.Itoa(perJobDeadline))
				cmd.Env = append(os.Environ(), "GOMAXPROCS=2")
				ob, err := cmd.CombinedOutput()
				if err != nil {
					errs[s] = fmt.Errorf("worker %d: %v\n%s", s, err, tailStr(string(ob), 4000))
					return
				}
				bz, err := os.ReadFile(out)
				if err != nil {
					errs[s] = err
					return
				}
				var r explore.Result
				if err := json.Unmarshal(bz, &r); err != nil {
					errs[s] = err
					return
				}
				results[s] = &r
			}(ji, s, shards, jr)
		}
	}
	wgAll.Wait()
	for ji, j := range jobs {
		jr := runs[ji]
		if jr.skip {
			continue
		}
		shards, results, errs := jr.shards, jr.results, jr.errs
		jobStart := jr.start
		_ = jobStart
		digs := map[uint64]struct{}{}
		js := map[string]interface{}{"job": j.Name, "depth": j.Depth, "shards": shards}
		jt, jexh := 0, true
		for s := 0; s < shards; s++ {
			if errs[s] != nil {
				fmt.Println("HARNESS-ERROR", errs[s])
				broken = true
				continue
			}
			r := results[s]
			total.Transitions += r.Transitions
			jt += r.Transitions
			total.Accepted += r.Accepted
			total.Rejected += r.Rejected
			if r.MaxDepth > total.MaxDepth {
				total.MaxDepth = r.MaxDepth
			}
			if !r.Exhaustive {
				total.Exhaustive = false
				jexh = false
			}
			if !r.DeterminismOK {
				total.DeterminismOK = false
				if r.DeterminismDiff != "" && detDiff == "" {
					detDiff = j.Name + ": " + r.DeterminismDiff
				}
			}
			for k, v := range r.Outcomes {
				total.Outcomes[k] += v
			}
			for k, v := range r.Counters {
				total.Counters[k] += v
			}
			for k, v := range r.ViolationCounts {
				total.ViolationCounts[k] += v
			}
			if len(total.Samples) < 6 {
				total.Samples = append(total.Samples, r.Samples...)
			}
			for k, v := range r.Extra {
				if total.Extra == nil {
					total.Extra = map[string]float64{}
				}
				total.Extra[k] += v
			}
			for _, v := range r.Violations {
				viols = append(viols, replayFile{Property: id, Tier: *tier, Job: ji, JobName: j.Name, Violation: v})
			}
			for _, d := range r.Conformance {
				confDiv = append(confDiv, d)
			}
			db, _ := os.ReadFile(filepath.Join(tmp, fmt.Sprintf("j%d-s%d.json.dig", ji, s)))
			for i := 0; i+8 <= len(db); i += 8 {
				digs[binary.BigEndian.Uint64(db[i:i+8])] = struct{}{}
			}
		}
		nstates := len(digs)
		if nstates == 0 { // custom enumerators count their own distinct cases
			for s := 0; s < shards; s++ {
				if results[s] != nil {
					nstates += results[s].States
				}
			}
		}
		states += nstates
		js["states"] = nstates
		js["transitions"] = jt
		js["exhaustive"] = jexh
		js["finished_after_s"] = float64(int(jr.end.Sub(start).Seconds()*10)) / 10
		jobSummaries = append(jobSummaries, js)
	}
	total.States = states

	// classify violations: shortest per signature
	bySig := map[string]replayFile{}
	for _, v := range viols {
		old, ok := bySig[v.Violation.Signature]
		if !ok || len(v.Violation.Path) < len(old.Violation.Path) {
			bySig[v.Violation.Signature] = v
		}
	}
	var sigs []string
	for s := range bySig {
		sigs = append(sigs, s)
	}
	sort.Strings(sigs)
	known := map[string]finding{}
	for _, f := range loadFindings() {
		if f.Property == id && f.Status == "known" {
			known[f.Signature] = f
		}
	}
	exit := 0
	nViol := 0
	nKnown := 0
	var lines []string
	for _, sig := range sigs {
		v := bySig[sig]
		if f, ok := known[sig]; ok {
			nKnown++
			lines = append(lines, fmt.Sprintf("KNOWN-FINDING: property=%s %s — %s", id, sig, f.What))
			continue
		}
		// confirm by replaying five times without the explorer
		if jobs[v.Job].Spec != nil && sig == explore.IsolationSignature {
			for i := 0; i < 2; i++ {
				if _, again := explore.IsolationCheck(jobs[v.Job].Spec); !again {
					fmt.Printf("HARNESS-ERROR violation %s did not reproduce\n", sig)
					broken = true
				}
			}
			if broken {
				continue
			}
		} else if jobs[v.Job].Spec != nil {
			confirmed := 0
			for i := 0; i < 5; i++ {
				vs, err := explore.Replay(jobs[v.Job].Spec, v.Violation.Path)
				if err != nil {
					break
				}
				for _, x := range vs {
					if x.Signature == sig {
						confirmed++
						break
					}
				}
			}
			if confirmed != 5 {
				fmt.Printf("HARNESS-ERROR violation %s did not reproduce 5/5 (%d)\n", sig, confirmed)
				broken = true
				continue
			}
		}
		nViol++
		dir := filepath.Join(verifDir(), "replays", id)
		_ = os.MkdirAll(dir, 0o755)
		p := filepath.Join(dir, sanitize(sig)+".json")
		bz, _ := json.MarshalIndent(v, "", " ")
		_ = os.WriteFile(p, bz, 0o644)
		lines = append(lines, fmt.Sprintf("VIOLATION property=%s replay=%s", id, p))
		lines = append(lines, "  oracle="+v.Violation.Oracle+" signature="+sig)
		lines = append(lines, "  path="+strings.Join(v.Violation.Path, " ; "))
		lines = append(lines, "  detail="+firstLines(v.Violation.Detail, 6))
		exit = 1
	}

	// vacuity guards
	nontrivial := 0
	for _, v := range total.Counters {
		nontrivial += v
	}
	if !total.DeterminismOK {
		fmt.Println("HARNESS-ERROR determinism self-check failed: the same operation on the same state gave different results depending on what ran before it on discarded branches (state outside the store?)", detDiff)
		broken = true
	}
	if c.Level == "model_checking" && (total.States < 2 || total.Transitions < 2) {
		fmt.Println("HARNESS-ERROR vacuous exploration")
		broken = true
	}

	wall := time.Since(start).Seconds()
	cov := map[string]interface{}{
		"states":                        total.States,
		"transitions":                   total.Transitions,
		"traces_validated_against_impl": int(total.Extra["traces_validated"]),
		"samples":                       samplesOrDefault(total.Samples),
		"accepted_transitions":          total.Accepted,
		"rejected_transitions":          total.Rejected,
		"max_depth":                     total.MaxDepth,
		"exhaustive":                    total.Exhaustive,
		"outcomes":                      total.Outcomes,
		"nontriviality_counters":        total.Counters,
		"rule":                          c.Rule,
		"jobs":                          jobSummaries,
		"known_findings_reproduced":     nKnown,
		"violation_counts":              total.ViolationCounts,
	}
	if c.Level != "model_checking" || int(total.Extra["evaluations"]) > 0 {
		cov["evaluations"] = int(total.Extra["evaluations"])
		cov["distinct_nontrivial"] = int(total.Extra["distinct_nontrivial"])
	}
	for k, v := range total.Extra {
		if _, ok := cov[k]; !ok {
			cov[k] = v
		}
	}
	ev := map[string]interface{}{
		"property_id": id,
		"tier":        *tier,
		"seed":        seed,
		"level":       c.Level,
		"coverage":    cov,
		"assumptions": c.Assumptions,
		"wall_s":      wall,
		"violations":  nViol,
	}
	_ = os.MkdirAll(filepath.Join(verifDir(), "evidence"), 0o755)
	bz, _ := json.MarshalIndent(ev, "", " ")
	if err := os.WriteFile(filepath.Join(verifDir(), "evidence", id+".json"), bz, 0o644); err != nil {
		fmt.Println("HARNESS-ERROR cannot write evidence:", err)
		broken = true
	}
	fmt.Printf("%s tier=%s states=%d transitions=%d accepted=%d rejected=%d max_depth=%d exhaustive=%v wall=%.1fs\n",
		id, *tier, total.States, total.Transitions, total.Accepted, total.Rejected, total.MaxDepth, total.Exhaustive, wall)
	fmt.Printf("  counters=%v\n", total.Counters)
	var oc []string
	for k, v := range total.Outcomes {
		oc = append(oc, fmt.Sprintf("%s:%d", k, v))
	}
	sort.Strings(oc)
	fmt.Printf("  outcomes=%s\n", strings.Join(oc, " "))
	for _, l := range lines {
		fmt.Println(l)
	}
	// a divergence between the emulated and the real-block replay is a harness error - unless the check reports a
	// violation anyway (a tree whose block processing panics diverges for that very reason)
	for i, d := range confDiv {
		if i < 5 {
			fmt.Println(map[bool]string{true: "note:", false: "HARNESS-ERROR"}[exit == 1], "conformance: emulated and real-block replay disagree:", firstLines(d, 3))
		}
	}
	if exit == 1 {
		return 1 // a confirmed violation stands, whatever else went wrong around it
	}
	if broken || len(confDiv) > 0 {
		return 2
	}
	return exit
}

func samplesOrDefault(s [][]string) interface{} {
	if len(s) == 0 {
		return []string{"(root state only)"}
	}
	return s
}

func sanitize(s string) string {
	r := strings.NewReplacer("/", "_", " ", "_", "(", "", ")", "", "*", "", ":", "_")
	s = r.Replace(s)
	if len(s) > 120 {
		s = s[:120]
	}
	return s
}

func firstLines(s string, n int) string {
	ls := strings.Split(s, "\n")
	if len(ls) > n {
		ls = ls[:n]
	}
	return strings.Join(ls, " | ")
}

func tailStr(s string, n int) string {
	if len(s) > n {
		return s[len(s)-n:]
	}
	return s
}

func envOr(k, d string) string {
	if v := os.Getenv(k); v != "" {
		return v
	}
	return d
}

// ---------------------------------------------------------------- replay

func cmdReplay(args []string) int {
	if len(args) < 1 {
		fmt.Println("usage: fxmc replay <file>")
		return 2
	}
	bz, err := os.ReadFile(args[0])
	if err != nil {
		fmt.Println(err)
		return 2
	}
	var rf replayFile
	if err := json.Unmarshal(bz, &rf); err != nil {
		fmt.Println(err)
		return 2
	}
	c := registry.Get(rf.Property)
	if c == nil {
		fmt.Println("unknown property", rf.Property)
		return 2
	}
	jobs := c.Jobs(rf.Tier)
	if rf.Job >= len(jobs) || jobs[rf.Job].Spec == nil {
		fmt.Println("replay file names a job without an explorable spec; re-run the check instead")
		return 2
	}
	explore.Verbose = os.Getenv("FXMC_VERBOSE") != ""
	if rf.Violation.Signature == explore.IsolationSignature {
		if diff, again := explore.IsolationCheck(jobs[rf.Job].Spec); again {
			fmt.Printf("violation oracle=discarded-execution-leaves-no-trace\n  %s\nVIOLATION property=%s replay=%s\n", diff, rf.Property, args[0])
			return 1
		}
		fmt.Println("replay completed: recorded violation did not recur")
		return 0
	}
	vs, err := explore.Replay(jobs[rf.Job].Spec, rf.Violation.Path)
	if err != nil {
		fmt.Println("replay error:", err)
		return 2
	}
	hit := false
	for _, v := range vs {
		fmt.Printf("violation oracle=%s signature=%s\n  at path=%s\n  %s\n", v.Oracle, v.Signature, strings.Join(v.Path, " ; "), firstLines(v.Detail, 12))
		if v.Signature == rf.Violation.Signature {
			hit = true
		}
	}
	if hit {
		fmt.Printf("VIOLATION property=%s replay=%s\n", rf.Property, args[0])
		return 1
	}
	fmt.Println("replay completed: recorded violation did not recur")
	return 0
}
