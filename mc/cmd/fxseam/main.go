//go:build seam

// fxseam decides C17 (deterministic block execution). It is built with the overlay that /verif/seamgen
// generates from the current tree: every map range in fx-core's state-machine packages asks package verifseam for
// its iteration order and every time.Now() asks it for the time. fxseam executes block histories through the real
// FinalizeBlock + Commit on fresh applications and enumerates, deviation-bounded, every iteration order at every
// map-range visit (and two clocks a year apart); the FinalizeBlock responses (app hash, tx results, events) of every
// execution must be byte-identical to the baseline's. Workers are separate OS processes (GOMAXPROCS 1 and 16).
package main

import (
	"crypto/sha256"
	"encoding/hex"
	"encoding/json"
	"flag"
	"fmt"
	"github.com/cosmos/cosmos-sdk/telemetry"
	"os"
	"os/exec"
	"path/filepath"
	"sort"
	"strconv"
	"strings"
	"sync"
	"time"

	abci "github.com/cometbft/cometbft/abci/types"

	"github.com/functionx/fx-core/v8/verifseam"
)

type visit struct {
	Site string `json:"site"`
	N    int    `json:"n"`
}

type execResult struct {
	Schedule []int          `json:"schedule"`
	Digests  []string       `json:"digests"` // one per block
	Visits   []visit        `json:"visits"`
	Sites    map[string]int `json:"sites"`
	Now      map[string]int `json:"now"`
	TxOK     int            `json:"tx_ok"`
	TxFail   int            `json:"tx_fail"`
	Blocks   int            `json:"blocks"`
	Err      string         `json:"err,omitempty"`
}

var clockA = time.Date(2024, 6, 1, 12, 0, 0, 0, time.UTC)

func digest(res *abci.ResponseFinalizeBlock) string {
	bz, err := res.Marshal()
	if err != nil {
		panic(err)
	}
	h := sha256.Sum256(bz)
	return hex.EncodeToString(h[:])
}

// execute runs history h under the given schedule and clock.
func execute(h string, schedule []int, clock time.Time) (out execResult) {
	verifseam.Reset(schedule, clock)
	out.Schedule = schedule
	defer func() {
		if r := recover(); r != nil {
			out.Err = fmt.Sprint(r)
		}
		for _, v := range verifseam.Log {
			out.Visits = append(out.Visits, visit{v.Site, v.N})
		}
		out.Sites, out.Now = verifseam.Sites, verifseam.NowCalls
	}()
	for _, res := range runHistory(h) {
		out.Digests = append(out.Digests, digest(res))
		out.Blocks++
		for _, tr := range res.TxResults {
			if tr.Code == 0 {
				out.TxOK++
			} else {
				out.TxFail++
			}
		}
	}
	return out
}

type divergence struct {
	History  string `json:"history"`
	Schedule []int  `json:"schedule"`
	Clock    string `json:"clock"`
	Site     string `json:"site"`
	Block    int    `json:"block"`
	Detail   string `json:"detail"`
}

type workerOut struct {
	Executions  int                   `json:"executions"`
	Blocks      int                   `json:"blocks"`
	Baselines   map[string]execResult `json:"baselines"`
	Divergences []divergence          `json:"divergences"`
	Capped      []string              `json:"capped"` // visits with more keys than fully enumerated
	Deadline    bool                  `json:"deadline_hit"`
	Level2      int                   `json:"level2_executions"`
}

func firstDiff(a, b []string) int {
	for i := range a {
		if i >= len(b) || a[i] != b[i] {
			return i
		}
	}
	if len(b) > len(a) {
		return len(a)
	}
	return -1
}

func worker(histories []string, shard, shards, bound int, deadline time.Time, outPath string) {
	if os.Getenv("FXSEAM_TELEMETRY") != "" {
		if _, err := telemetry.New(telemetry.Config{ServiceName: "fxseam", Enabled: true}); err != nil {
			panic(err)
		}
		if !telemetry.IsTelemetryEnabled() {
			panic("fxseam: telemetry could not be enabled")
		}
	}
	wo := workerOut{Baselines: map[string]execResult{}}
	job := 0
	for _, h := range histories {
		base := execute(h, nil, clockA)
		wo.Executions++
		wo.Blocks += base.Blocks
		wo.Baselines[h] = base
		if base.Err != "" {
			wo.Divergences = append(wo.Divergences, divergence{History: h, Clock: "A", Detail: "baseline execution failed: " + base.Err})
			continue
		}
		check := func(sched []int, clock time.Time, cname, site string) execResult {
			r := execute(h, sched, clock)
			wo.Executions++
			wo.Blocks += r.Blocks
			if r.Err != "" {
				wo.Divergences = append(wo.Divergences, divergence{History: h, Schedule: sched, Clock: cname, Site: site, Detail: "execution failed: " + r.Err})
			} else if d := firstDiff(base.Digests, r.Digests); d >= 0 {
				wo.Divergences = append(wo.Divergences, divergence{History: h, Schedule: sched, Clock: cname, Site: site, Block: d,
					Detail: fmt.Sprintf("FinalizeBlock response of block %d differs from the baseline (app hash / tx results / events)", d)})
			}
			return r
		}
		// the same schedule again (harness determinism) and the other clock
		if job++; job%shards == shard {
			check(nil, clockA, "A", "(repeat of the baseline)")
		}
		if job++; job%shards == shard {
			check(nil, clockA.Add(365*24*time.Hour), "B", "(clock one year later)")
		}
		// the node also serves gas estimations: every transaction of the next block is simulated (executed on a context
		// that is thrown away) before the block is processed - what a node does off-chain must not reach the chain
		if job++; job%shards == shard {
			simulateBeforeBlock = true
			check(nil, clockA, "A", "(transactions simulated before their block)")
			simulateBeforeBlock = false
		}
		// one deviation: every other order at every visit
		for i, v := range base.Visits {
			if verifseam.Perms(v.N) < factorial(v.N) {
				wo.Capped = append(wo.Capped, fmt.Sprintf("%s n=%d", v.Site, v.N))
			}
			for p := 1; p < verifseam.Perms(v.N); p++ {
				if job++; job%shards != shard {
					continue
				}
				if !deadline.IsZero() && time.Now().After(deadline) {
					wo.Deadline = true
					continue
				}
				sched := make([]int, i+1)
				sched[i] = p
				r1 := check(sched, clockA, "A", v.Site)
				if bound < 2 || r1.Err != "" {
					continue
				}
				// two deviations: a second visit after the first (visits may have moved: use this execution's log)
				for j := i + 1; j < len(r1.Visits); j++ {
					for q := 1; q < verifseam.Perms(r1.Visits[j].N); q++ {
						if !deadline.IsZero() && time.Now().After(deadline) {
							wo.Deadline = true
							break
						}
						s2 := make([]int, j+1)
						s2[i], s2[j] = p, q
						check(s2, clockA, "A", v.Site+" + "+r1.Visits[j].Site)
						wo.Level2++
					}
				}
			}
		}
	}
	bz, _ := json.Marshal(wo)
	if err := os.WriteFile(outPath, bz, 0o644); err != nil {
		panic(err)
	}
}

// simulateBeforeBlock: hist.block runs baseapp's Simulate on every queued transaction before the block (see worker).
var simulateBeforeBlock bool

func factorial(n int) int {
	f := 1
	for i := 2; i <= n; i++ {
		f *= i
		if f > 1000 {
			return f
		}
	}
	return f
}

func verifDir() string {
	if d := os.Getenv("VERIF_DIR"); d != "" {
		return d
	}
	return "/verif"
}

type finding struct {
	Property  string `json:"property"`
	Signature string `json:"signature"`
	Status    string `json:"status"`
	What      string `json:"what"`
}

func main() {
	if len(os.Args) > 1 && os.Args[1] == "worker" {
		fs := flag.NewFlagSet("worker", flag.ExitOnError)
		shard := fs.Int("shard", 0, "")
		shards := fs.Int("shards", 1, "")
		bound := fs.Int("bound", 1, "")
		hs := fs.String("histories", "", "")
		out := fs.String("out", "", "")
		dl := fs.Int("deadline", 0, "")
		_ = fs.Parse(os.Args[2:])
		var d time.Time
		if *dl > 0 {
			d = time.Now().Add(time.Duration(*dl) * time.Second)
		}
		worker(strings.Split(*hs, ","), *shard, *shards, *bound, d, *out)
		return
	}
	if len(os.Args) > 2 && os.Args[1] == "replay" {
		bz, err := os.ReadFile(os.Args[2])
		if err != nil {
			fmt.Println(err)
			os.Exit(2)
		}
		var rf struct {
			Signature  string     `json:"signature"`
			Divergence divergence `json:"divergence"`
		}
		if err := json.Unmarshal(bz, &rf); err != nil {
			fmt.Println(err)
			os.Exit(2)
		}
		clock := clockA
		if rf.Divergence.Clock == "B" {
			clock = clockA.Add(365 * 24 * time.Hour)
		}
		base := execute(rf.Divergence.History, nil, clockA)
		r := execute(rf.Divergence.History, rf.Divergence.Schedule, clock)
		if d := firstDiff(base.Digests, r.Digests); d >= 0 || r.Err != "" || base.Err != "" {
			fmt.Printf("history %s under schedule %v: block %d differs from the baseline (%s %s)\nVIOLATION property=C17 replay=%s\n", rf.Divergence.History, rf.Divergence.Schedule, d, base.Err, r.Err, os.Args[2])
			os.Exit(1)
		}
		fmt.Println("replay completed: recorded divergence did not recur")
		return
	}
	if len(os.Args) > 2 && os.Args[1] == "dump" {
		verifseam.Reset(nil, clockA)
		for i, res := range runHistory(os.Args[2]) {
			fmt.Printf("block %d: %d txs, %d block events, apphash %x\n", i+2, len(res.TxResults), len(res.Events), res.AppHash)
			for j, tr := range res.TxResults {
				fmt.Printf("  tx %d code=%d gas=%d events=%d log=%s\n", j, tr.Code, tr.GasUsed, len(tr.Events), tail(tr.Log, 200))
			}
		}
		return
	}
	fs := flag.NewFlagSet("check", flag.ExitOnError)
	tier := fs.String("tier", "quick", "")
	sitesFile := fs.String("sites", "", "sites.json written by seamgen")
	_ = fs.Parse(os.Args[1:])
	start := time.Now()
	histories := []string{"bridge-gov-staking", "gov-failures", "oracle-churn", "tokens-pool-precompiles", "ties-and-timeouts"}
	bound, deadline := 1, 240
	if *tier == "thorough" {
		histories = []string{"bridge-gov-staking", "gov-failures", "oracle-churn", "tokens-pool-precompiles", "ties-and-timeouts"}
		bound, deadline = 2, 1500
	}
	if v := os.Getenv("FXMC_DEADLINE"); v != "" {
		deadline, _ = strconv.Atoi(v)
	}
	self, _ := os.Executable()
	tmp, err := os.MkdirTemp(filepath.Join(verifDir(), ".cache"), "run-C17-")
	if err != nil {
		_ = os.MkdirAll(filepath.Join(verifDir(), ".cache"), 0o755)
		tmp, err = os.MkdirTemp(filepath.Join(verifDir(), ".cache"), "run-C17-")
		if err != nil {
			fmt.Println("HARNESS-ERROR", err)
			os.Exit(2)
		}
	}
	defer os.RemoveAll(tmp)
	shards := 16
	outs := make([]workerOut, shards)
	errs := make([]error, shards)
	var wg sync.WaitGroup
	for s := 0; s < shards; s++ {
		wg.Add(1)
		go func(s int) {
			defer wg.Done()
			out := filepath.Join(tmp, fmt.Sprintf("w%d.json", s))
			cmd := exec.Command(self, "worker", "--shard", strconv.Itoa(s), "--shards", strconv.Itoa(shards), "--bound", strconv.Itoa(bound), "--histories", strings.Join(histories, ","), "--out", out, "--deadline", strconv.Itoa(deadline))
			gmp := "1"
			if s%2 == 1 {
				gmp = "16"
			}
			cmd.Env = append(os.Environ(), "GOMAXPROCS="+gmp)
			if s%4 >= 2 {
				// half of the processes run as a node whose app.toml enables telemetry (a per-node setting)
				cmd.Env = append(cmd.Env, "FXSEAM_TELEMETRY=1")
			}
			if ob, err := cmd.CombinedOutput(); err != nil {
				errs[s] = fmt.Errorf("worker %d: %v\n%s", s, err, tail(string(ob), 3000))
				return
			}
			bz, err := os.ReadFile(out)
			if err != nil {
				errs[s] = err
				return
			}
			errs[s] = json.Unmarshal(bz, &outs[s])
		}(s)
	}
	wg.Wait()
	broken := false
	for _, e := range errs {
		if e != nil {
			fmt.Println("HARNESS-ERROR", e)
			broken = true
		}
	}
	// merge
	execs, blocks, level2 := 0, 0, 0
	var divs []divergence
	capped := map[string]bool{}
	hitDeadline := false
	reached := map[string]int{}
	maxN := map[string]int{}
	nowCalls := map[string]int{}
	visits := 0
	txOK, txFail := 0, 0
	for _, h := range histories {
		var ref []string
		for s := range outs {
			b, ok := outs[s].Baselines[h]
			if !ok {
				continue
			}
			if ref == nil {
				ref = b.Digests
				visits += len(b.Visits)
				txOK += b.TxOK
				txFail += b.TxFail
				for k, v := range b.Sites {
					reached[k] += v
				}
				for k, v := range b.Now {
					nowCalls[k] += v
				}
				for _, v := range b.Visits {
					if v.N > maxN[v.Site] {
						maxN[v.Site] = v.N
					}
				}
			} else if d := firstDiff(ref, b.Digests); d >= 0 {
				divs = append(divs, divergence{History: h, Clock: "A", Site: "(independent OS processes)", Block: d, Detail: fmt.Sprintf("worker process %d computed a different FinalizeBlock response for block %d of the same history than worker 0", s, d)})
			}
		}
	}
	for s := range outs {
		execs += outs[s].Executions
		blocks += outs[s].Blocks
		level2 += outs[s].Level2
		divs = append(divs, outs[s].Divergences...)
		for _, c := range outs[s].Capped {
			capped[c] = true
		}
		hitDeadline = hitDeadline || outs[s].Deadline
	}
	// static sites
	type siteInfo struct {
		ID, Kind, Note string
		Rewritten      bool
	}
	var sites []siteInfo
	if bz, err := os.ReadFile(*sitesFile); err == nil {
		var raw []map[string]interface{}
		_ = json.Unmarshal(bz, &raw)
		for _, r := range raw {
			si := siteInfo{ID: fmt.Sprint(r["id"]), Kind: fmt.Sprint(r["kind"])}
			if n, ok := r["note"]; ok {
				si.Note = fmt.Sprint(n)
			}
			si.Rewritten, _ = r["rewritten"].(bool)
			sites = append(sites, si)
		}
	}
	var siteLines, notCovered []string
	for _, s := range sites {
		line := fmt.Sprintf("%s %s arrivals=%d max-keys=%d", s.ID, s.Kind, reached[s.ID]+nowCalls[s.ID], maxN[s.ID])
		if !s.Rewritten {
			line += " NOT-REWRITTEN: " + s.Note
			notCovered = append(notCovered, s.ID+": "+s.Note)
		}
		siteLines = append(siteLines, line)
	}
	sort.Strings(siteLines)
	// violations by signature
	known := map[string]finding{}
	if bz, err := os.ReadFile(filepath.Join(verifDir(), "known_findings.json")); err == nil {
		var fsx []finding
		_ = json.Unmarshal(bz, &fsx)
		for _, f := range fsx {
			if f.Property == "C17" && f.Status == "known" {
				known[f.Signature] = f
			}
		}
	}
	bySig := map[string]divergence{}
	for _, d := range divs {
		sig := "C17/nondeterministic/" + strings.SplitN(d.Site, " + ", 2)[0]
		if strings.HasPrefix(d.Detail, "baseline execution failed") || strings.HasPrefix(d.Detail, "execution failed") {
			sig = "C17/execution-fails-under-some-order/" + d.Site
		}
		if _, ok := bySig[sig]; !ok {
			bySig[sig] = d
		}
	}
	var sigs []string
	for s := range bySig {
		sigs = append(sigs, s)
	}
	sort.Strings(sigs)
	exit, nViol, nKnown := 0, 0, 0
	var lines []string
	for _, sig := range sigs {
		d := bySig[sig]
		if f, ok := known[sig]; ok {
			nKnown++
			lines = append(lines, fmt.Sprintf("KNOWN-FINDING: property=C17 %s — %s", sig, f.What))
			continue
		}
		nViol++
		dir := filepath.Join(verifDir(), "replays", "C17")
		_ = os.MkdirAll(dir, 0o755)
		p := filepath.Join(dir, strings.NewReplacer("/", "_", " ", "_", ":", "_", "(", "", ")", "").Replace(sig)+".json")
		bz, _ := json.MarshalIndent(map[string]interface{}{"property": "C17", "signature": sig, "divergence": d}, "", " ")
		_ = os.WriteFile(p, bz, 0o644)
		lines = append(lines, fmt.Sprintf("VIOLATION property=C17 replay=%s", p), "  signature="+sig, fmt.Sprintf("  history=%s schedule=%v clock=%s", d.History, d.Schedule, d.Clock), "  detail="+d.Detail)
		exit = 1
	}
	if visits == 0 {
		fmt.Println("HARNESS-ERROR vacuous: no map-range visit with two or more keys was reached")
		broken = true
	}
	exhaustive := !hitDeadline
	cov := map[string]interface{}{
		"states":                        execs,
		"transitions":                   blocks,
		"traces_validated_against_impl": execs,
		"samples":                       siteLines,
		"exhaustive":                    exhaustive,
		"deviation_bound_completed":     bound,
		"map_range_visits_in_baselines": visits,
		"two_deviation_executions":      level2,
		"sites":                         siteLines,
		"sites_not_rewritten":           notCovered,
		"visits_with_capped_orders":     keys(capped),
		"histories":                     histories,
		"baseline_tx_ok":                txOK,
		"baseline_tx_failed":            txFail,
		"worker_processes":              shards,
		"known_findings_reproduced":     nKnown,
		"rule":                          "every history is executed through real FinalizeBlock+Commit on a fresh application per execution; baseline = sorted key order at every map range; then every other key order (all n! up to 4 keys) at every single visit (quick) and at every pair of visits (thorough), the same schedule twice, a clock one year later, and the baselines of 16 separate OS processes (GOMAXPROCS 1 and 16, telemetry disabled in half of them and enabled in the other half) are compared block by block on the marshalled ResponseFinalizeBlock (app hash, tx results incl. gas and events, block events, validator updates). states = executions, transitions = blocks executed",
	}
	ev := map[string]interface{}{
		"property_id": "C17", "tier": *tier, "seed": 0, "level": "model_checking", "coverage": cov, "wall_s": time.Since(start).Seconds(), "violations": nViol,
		"assumptions": []string{
			"map ranges and time.Now() in fx-core's own packages (x/, app/, ante/, types/, contract/) are behind the seam; nondeterminism inside dependencies (cosmos-sdk, ethermint, go-ethereum, ibc-go) is only covered by the repeat and cross-process comparisons",
			"map iteration is modelled as iteration over a snapshot of the keys taken at loop entry (entries deleted during the loop are skipped, entries added are not visited)",
			"histories are fixed (listed in coverage.histories); orders for maps with more than 4 keys are capped at 24 (listed)",
		},
	}
	_ = os.MkdirAll(filepath.Join(verifDir(), "evidence"), 0o755)
	bz, _ := json.MarshalIndent(ev, "", " ")
	if err := os.WriteFile(filepath.Join(verifDir(), "evidence", "C17.json"), bz, 0o644); err != nil {
		fmt.Println("HARNESS-ERROR cannot write evidence:", err)
		broken = true
	}
	fmt.Printf("C17 tier=%s executions=%d blocks=%d visits=%d bound=%d exhaustive=%v baseline-tx ok=%d failed=%d wall=%.1fs\n", *tier, execs, blocks, visits, bound, exhaustive, txOK, txFail, time.Since(start).Seconds())
	for _, l := range siteLines {
		fmt.Println("  site", l)
	}
	for _, l := range lines {
		fmt.Println(l)
	}
	if broken {
		os.Exit(2)
	}
	os.Exit(exit)
}

func keys(m map[string]bool) []string {
	out := []string{}
	for k := range m {
		out = append(out, k)
	}
	sort.Strings(out)
	return out
}

func tail(s string, n int) string {
	if len(s) > n {
		return s[len(s)-n:]
	}
	return s
}
