//go:build seam

package main

import (
	"encoding/hex"
	"fmt"
	"os"
	"math/big"
	"time"

	sdkmath "cosmossdk.io/math"
	abci "github.com/cometbft/cometbft/abci/types"
	"github.com/cosmos/cosmos-sdk/crypto/keys/secp256k1"
	sdk "github.com/cosmos/cosmos-sdk/types"
	govv1 "github.com/cosmos/cosmos-sdk/x/gov/types/v1"
	stakingtypes "github.com/cosmos/cosmos-sdk/x/staking/types"
	"github.com/ethereum/go-ethereum/common"
	"github.com/ethereum/go-ethereum/crypto"

	"github.com/functionx/fx-core/v8/contract"
	cctypes "github.com/functionx/fx-core/v8/x/crosschain/types"
	erc20types "github.com/functionx/fx-core/v8/x/erc20/types"
	fxgovtypes "github.com/functionx/fx-core/v8/x/gov/types"
	migratetypes "github.com/functionx/fx-core/v8/x/migrate/types"
	fxstakingtypes "github.com/functionx/fx-core/v8/x/staking/types"

	"fxmc/scen"
	"fxmc/world"
)

// hist drives one application through real blocks; every step is deterministic (fixed keys, fixed times).
type hist struct {
	w    *world.World
	out  []*abci.ResponseFinalizeBlock
	seqs map[string]uint64 // txs already queued for this block per signer
	txs  [][]byte
	// EVM transactions of the next block. This tree registers no custom signer extraction for MsgEthereumTx, so a
	// wrapped EVM transaction cannot be decoded by FinalizeBlock ("unexpected field type bytes for field from");
	// they are executed by the real EvmKeeper.EthereumTx inside the block, right after its begin-blocker.
	pre []func(ctx sdk.Context)
}

func (h *hist) cosmos(signer world.Actor, msgs ...sdk.Msg) {
	ctx := h.w.Committed()
	bz, err := h.w.SignTx(ctx, signer, 3_000_000, nil, h.seqs[signer.Name], msgs...)
	if err != nil {
		panic(fmt.Sprintf("sign tx of %s: %v", signer.Name, err))
	}
	h.seqs[signer.Name]++
	h.txs = append(h.txs, bz)
}

func (h *hist) evm(from world.Actor, to common.Address, data []byte, value *big.Int) {
	h.pre = append(h.pre, func(ctx sdk.Context) {
		r := h.w.EthTx(ctx, from, &to, data, value, 3_000_000)
		if !r.Success() {
			panic(fmt.Sprintf("evm tx of %s to %s: %s", from.Name, to, r))
		}
		for _, e := range r.Events { // the transaction's events become part of the block's response
			ctx.EventManager().EmitEvent(sdk.Event(e))
		}
	})
}

// block finalizes and commits one block holding the queued transactions; hook runs right after the begin-blocker.
func (h *hist) block(hook func(ctx sdk.Context), dt time.Duration) *abci.ResponseFinalizeBlock {
	pre := h.pre
	h.pre = nil
	if simulateBeforeBlock {
		for _, bz := range h.txs {
			_, _, _ = h.w.App.Simulate(bz) // outcome irrelevant: the execution is thrown away
		}
	}
	res, err := h.w.RealBlock(func(ctx sdk.Context) {
		if hook != nil {
			hook(ctx)
		}
		for _, f := range pre {
			f(ctx)
		}
	}, h.txs, dt)
	if err != nil {
		panic(fmt.Sprintf("block %d: %v", len(h.out)+2, err))
	}
	if os.Getenv("FXSEAM_DEBUG") != "" {
		for i, tr := range res.TxResults {
			if tr.Code != 0 {
				fmt.Fprintf(os.Stderr, "block %d tx %d failed: %s\n", len(h.out)+2, i, tr.Log)
			}
		}
	}
	h.out = append(h.out, res)
	h.txs, h.seqs = nil, map[string]uint64{}
	return res
}

func pack(m string, args ...interface{}) []byte {
	d, err := fxstakingtypes.GetABI().Pack(m, args...)
	if err != nil {
		panic(err)
	}
	return d
}

func e18(n int64) *big.Int { return new(big.Int).Mul(big.NewInt(n), big.NewInt(1e18)) }

func runHistory(name string) []*abci.ResponseFinalizeBlock {
	switch name {
	case "bridge-gov-staking":
		return bridgeGovStaking()
	case "oracle-churn":
		return oracleChurn()
	case "gov-failures":
		return govFailures()
	case "tokens-pool-precompiles":
		return tokensPoolPrecompiles()
	case "ties-and-timeouts":
		return tiesAndTimeouts()
	}
	panic("unknown history " + name)
}

// bridgeGovStaking: eight eth oracles vote a deposit in, users queue withdrawals with different fees, a batch and an
// outgoing bridge call are built and confirmed, tokens are converted and sent through the precompiles, two validators
// and a delegator vote on a proposal that is tallied after its voting period, governance drops two oracles, and a
// legacy account with a delegation migrates.
func bridgeGovStaking() []*abci.ResponseFinalizeBlock {
	w := world.New(world.Config{Validators: 2, Actors: []string{"bank", "u1", "u2", "rel", "t1"}})
	h := &hist{w: w, seqs: map[string]uint64{}}
	chain := "eth"
	var os []scen.Oracle
	var usdt scen.Token
	nonces := map[string]uint64{}
	leg := secp256k1.GenPrivKeyFromSecret([]byte("fxmc/legacy/c17"))
	legAcc := sdk.AccAddress(leg.PubKey().Address())
	u1, u2, rel, t1 := w.A("u1"), w.A("u2"), w.A("rel"), w.A("t1")

	// block 2: set-up inside a real block
	h.block(func(ctx sdk.Context) {
		names := []string{"o1", "o2", "o3", "o4", "o5", "o6", "o7", "o8"}
		stakes := []int64{10000, 10000, 10000, 10000, 10000, 10000, 10000, 10000}
		os = scen.SetupOracles(w, ctx, chain, names, stakes)
		osm := map[string][]scen.Oracle{chain: os}
		scen.RegisterFX(w, ctx, osm, nonces, 1000)
		usdt = scen.RegisterModuleToken(w, ctx, "USDT", osm, nonces, 1000)
		// a legacy (secp256k1) account with a delegation, to be migrated later
		acc := w.App.AccountKeeper.NewAccountWithAddress(ctx, legAcc)
		_ = acc.SetPubKey(leg.PubKey())
		w.App.AccountKeeper.SetAccount(ctx, acc)
		scen.Fund(w, ctx, legAcc, sdk.NewCoins(world.FXCoin(500)))
		scen.Fund(w, ctx, rel.Acc(), sdk.NewCoins(world.FXCoin(10)))
		if err := w.App.BankKeeper.SendCoins(ctx, t1.Acc(), w.A("bank").Acc(), w.App.BankKeeper.GetAllBalances(ctx, t1.Acc())); err != nil {
			panic(err)
		}
	}, world.BlockTime)

	// block 3: six oracles vote the same deposit, users queue withdrawals, delegate through the precompile, a proposal
	n := nonces[chain] + 1
	for _, o := range os[:6] {
		h.cosmos(o.Bridger, scen.WrapClaim(chain, o.Bridger.Bech(), scen.SendToFxClaim(chain, n, 1001, usdt.Ext[chain], 100, scen.ExtAddr(chain, "depositor"), u1.Acc(), "", o.Bridger.Bech())))
	}
	h.cosmos(u1, &cctypes.MsgSendToExternal{ChainName: chain, Sender: u1.Bech(), Dest: scen.ExtAddr(chain, "u1-ext"), Amount: sdk.NewInt64Coin("FX", 2), BridgeFee: sdk.NewInt64Coin("FX", 1)})
	h.cosmos(u2, &cctypes.MsgSendToExternal{ChainName: chain, Sender: u2.Bech(), Dest: scen.ExtAddr(chain, "u2-ext"), Amount: sdk.NewInt64Coin("FX", 1), BridgeFee: sdk.NewInt64Coin("FX", 2)})
	h.evm(u1, fxstakingtypes.GetAddress(), pack("delegateV2", w.Vals[0].ValAddr().String(), e18(100)), nil)
	h.evm(u2, fxstakingtypes.GetAddress(), pack("delegateV2", w.Vals[1].ValAddr().String(), e18(50)), nil)
	h.cosmos(u1, &govv1.MsgSubmitProposal{InitialDeposit: sdk.NewCoins(world.FXCoin(10000)), Proposer: u1.Bech(), Title: "t", Summary: "s", Metadata: "m"})
	h.block(nil, world.BlockTime)

	// block 4: the deposit is executed, votes by two validators and a delegator, a batch, an outgoing bridge call, conversions
	exec, _ := cctypes.GetABI().Pack("executeClaim", chain, new(big.Int).SetUint64(n))
	h.evm(rel, cctypes.GetAddress(), exec, nil)
	h.cosmos(w.Vals[0].Operator, govv1.NewMsgVote(w.Vals[0].Operator.Acc(), 1, govv1.OptionYes, ""))
	h.cosmos(w.Vals[1].Operator, govv1.NewMsgVote(w.Vals[1].Operator.Acc(), 1, govv1.OptionAbstain, ""))
	h.cosmos(u1, govv1.NewMsgVoteWeighted(u1.Acc(), 1, govv1.WeightedVoteOptions{{Option: govv1.OptionYes, Weight: "0.6"}, {Option: govv1.OptionNo, Weight: "0.4"}}, ""),
		&cctypes.MsgBridgeCall{ChainName: chain, Sender: u1.Bech(), Refund: u1.Bech(), Coins: sdk.NewCoins(sdk.NewInt64Coin("FX", 2)), To: scen.ExtAddr(chain, "callee"), Data: "01", Value: sdkmath.ZeroInt()})
	h.cosmos(os[0].Bridger, &cctypes.MsgRequestBatch{ChainName: chain, Sender: os[0].Bridger.Bech(), Denom: "FX", MinimumFee: sdkmath.NewInt(1), FeeReceive: scen.ExtAddr(chain, "feercv"), BaseFee: sdkmath.ZeroInt()})
	h.block(nil, world.BlockTime)

	// block 5: confirms of the batch and the bridge call by three oracles, ERC-20 conversion and a crossChain from the ERC-20
	ctx := w.Committed()
	k := scen.Keeper(w, chain)
	gid := k.GetGravityID(ctx)
	if b := k.GetOutgoingTxBatch(ctx, scen.ExtAddr(chain, chain+"-fx-token"), 1); b != nil {
		for _, o := range os[:3] {
			h.cosmos(o.Bridger, &cctypes.MsgConfirmBatch{ChainName: chain, Nonce: b.BatchNonce, TokenContract: b.TokenContract, BridgerAddress: o.Bridger.Bech(), ExternalAddress: o.ExtAddr,
				Signature: scen.Sign(chain, o.ExtKey, scen.BatchCheckpoint(chain, gid, b))})
		}
	}
	if oc, ok := k.GetOutgoingBridgeCallByNonce(ctx, 1); ok {
		for _, o := range os[3:6] {
			h.cosmos(o.Bridger, &cctypes.MsgBridgeCallConfirm{ChainName: chain, Nonce: oc.Nonce, BridgerAddress: o.Bridger.Bech(), ExternalAddress: o.ExtAddr,
				Signature: scen.Sign(chain, o.ExtKey, scen.BridgeCallCheckpoint(chain, gid, oc))})
		}
	}
	h.cosmos(u1, &erc20types.MsgConvertCoin{Coin: sdk.NewInt64Coin("usdt", 10), Receiver: u1.Hex().String(), Sender: u1.Bech()})
	h.block(nil, world.BlockTime)

	// block 6: crossChain from the ERC-20 (approve + call), governance drops two oracles, the legacy account delegates and migrates
	ap, _ := contract.GetFIP20().ABI.Pack("approve", cctypes.GetAddress(), big.NewInt(3))
	h.evm(u1, usdt.ERC20, ap, nil)
	var target [32]byte
	copy(target[:], chain)
	cc, _ := cctypes.GetABI().Pack("crossChain", usdt.ERC20, scen.ExtAddr(chain, "u1-ext"), big.NewInt(2), big.NewInt(1), target, "")
	h.evm(u1, cctypes.GetAddress(), cc, nil)
	// an outgoing bridge call that carries two different tokens
	h.cosmos(u1, &cctypes.MsgBridgeCall{ChainName: chain, Sender: u1.Bech(), Refund: u1.Bech(), Coins: sdk.NewCoins(sdk.NewInt64Coin("FX", 2), sdk.NewInt64Coin("usdt", 3)), To: scen.ExtAddr(chain, "callee"), Data: "02", Value: sdkmath.ZeroInt()})
	h.block(func(ctx sdk.Context) {
		if r := scen.Approve(w, ctx, chain, os[:6]); !r.OK() {
			panic("dropping two oracles: " + r.String())
		}
		w.MustDeliver(ctx, stakingtypes.NewMsgDelegate(legAcc.String(), w.Vals[0].ValAddr().String(), world.FXCoin(200)))
		kk, err := crypto.ToECDSA(t1.Priv.Key)
		if err != nil {
			panic(err)
		}
		sig, err := crypto.Sign(migratetypes.MigrateAccountSignatureHash(legAcc, t1.Hex().Bytes()), kk)
		if err != nil {
			panic(err)
		}
		w.MustDeliver(ctx, migratetypes.NewMsgMigrateAccount(legAcc, t1.Hex(), hex.EncodeToString(sig)))
	}, world.BlockTime)

	// blocks 7-8: rewards accrue, then the voting period ends and the proposal is tallied
	h.block(nil, world.BlockTime)
	h.block(nil, 15*24*time.Hour)
	h.evm(t1, fxstakingtypes.GetAddress(), pack("withdraw", w.Vals[0].ValAddr().String()), nil)
	h.block(nil, world.BlockTime)
	return h.out
}

// oracleChurn: two chains; oracles bond, top up, get removed and re-approved across several blocks while claims are voted.
func oracleChurn() []*abci.ResponseFinalizeBlock {
	w := world.New(world.Config{Validators: 2, Actors: []string{"bank", "u1", "u2", "rel"}})
	h := &hist{w: w, seqs: map[string]uint64{}}
	var eth, bsc []scen.Oracle
	nonces := map[string]uint64{}
	var usdt scen.Token
	h.block(func(ctx sdk.Context) {
		eth = scen.SetupOracles(w, ctx, "eth", []string{"e1", "e2", "e3", "e4", "e5", "e6", "e7"}, []int64{10000, 10000, 10000, 10000, 10000, 10000, 10000})
		bsc = scen.SetupOracles(w, ctx, "bsc", []string{"b1", "b2", "b3"}, []int64{10000, 20000, 30000})
		osm := map[string][]scen.Oracle{"eth": eth, "bsc": bsc}
		scen.RegisterFX(w, ctx, osm, nonces, 1000)
		usdt = scen.RegisterModuleToken(w, ctx, "USDT", osm, nonces, 1000)
	}, world.BlockTime)
	for _, o := range eth[:5] {
		h.cosmos(o.Bridger, scen.WrapClaim("eth", o.Bridger.Bech(), scen.SendToFxClaim("eth", nonces["eth"]+1, 1001, usdt.Ext["eth"], 50, scen.ExtAddr("eth", "depositor"), w.A("u1").Acc(), "", o.Bridger.Bech())))
	}
	for _, o := range bsc {
		h.cosmos(o.Bridger, scen.WrapClaim("bsc", o.Bridger.Bech(), scen.SendToFxClaim("bsc", nonces["bsc"]+1, 1001, usdt.Ext["bsc"], 70, scen.ExtAddr("bsc", "depositor"), w.A("u2").Acc(), "", o.Bridger.Bech())))
	}
	h.cosmos(eth[0].Acct, &cctypes.MsgAddDelegate{ChainName: "eth", OracleAddress: eth[0].Acct.Bech(), Amount: cctypes.NewDelegateAmount(world.FX(10000))})
	h.block(nil, world.BlockTime)
	h.block(func(ctx sdk.Context) {
		if r := scen.Approve(w, ctx, "eth", eth[:5]); !r.OK() {
			panic(r.String())
		}
	}, world.BlockTime)
	h.cosmos(eth[1].Acct, &cctypes.MsgReDelegate{ChainName: "eth", OracleAddress: eth[1].Acct.Bech(), ValidatorAddress: w.Vals[1].ValAddr().String()})
	h.cosmos(bsc[2].Acct, &cctypes.MsgWithdrawReward{ChainName: "bsc", OracleAddress: bsc[2].Acct.Bech()})
	h.block(nil, world.BlockTime)
	h.block(func(ctx sdk.Context) {
		if r := scen.Approve(w, ctx, "eth", eth); !r.OK() {
			panic(r.String())
		}
	}, world.BlockTime)
	h.block(nil, 22*24*time.Hour)
	h.block(nil, world.BlockTime)
	return h.out
}

// govFailures: proposals that pass the vote and then fail while being executed - one whose message returns an error,
// one whose handler panics (a raw store update first corrupts the eth module's oracle list, the oracle-list update
// that follows cannot decode it). What the end-blocker records about the failure is consensus data.
func govFailures() []*abci.ResponseFinalizeBlock {
	w := world.New(world.Config{Validators: 2, Actors: []string{"bank", "u1", "u2"}})
	h := &hist{w: w, seqs: map[string]uint64{}}
	u1, u2 := w.A("u1"), w.A("u2")
	gov := world.GovAuthority()
	var os []scen.Oracle
	h.block(func(ctx sdk.Context) {
		os = scen.SetupOracles(w, ctx, "eth", []string{"o1", "o2"}, []int64{10000, 10000})
	}, world.BlockTime)
	submit := func(who world.Actor, msgs ...sdk.Msg) {
		m, err := govv1.NewMsgSubmitProposal(msgs, sdk.NewCoins(world.FXCoin(10000)), who.Bech(), "m", "t", "s", false)
		if err != nil {
			panic(err)
		}
		h.cosmos(who, m)
	}
	voteAll := func(id uint64) {
		for _, v := range w.Vals {
			h.cosmos(v.Operator, govv1.NewMsgVote(v.Operator.Acc(), id, govv1.OptionYes, ""))
		}
	}
	old := hex.EncodeToString(scen.Store(w, w.Committed(), "eth").Get(cctypes.ProposalOracleKey))
	// proposal 1: raw store update that leaves an undecodable oracle list behind
	submit(u1, &fxgovtypes.MsgUpdateStore{Authority: gov, UpdateStores: []fxgovtypes.UpdateStore{{Space: "eth", Key: hex.EncodeToString(cctypes.ProposalOracleKey), OldValue: old, Value: "ff"}}})
	h.block(nil, world.BlockTime)
	voteAll(1)
	h.block(nil, world.BlockTime)
	h.block(nil, 15*24*time.Hour)
	// proposal 2: its handler panics on the corrupted list; proposal 3: its message returns an ordinary error
	submit(u1, &cctypes.MsgUpdateChainOracles{ChainName: "eth", Authority: gov, Oracles: []string{os[0].Acct.Bech()}})
	submit(u2, &erc20types.MsgToggleTokenConversion{Authority: gov, Token: "no-such-token"})
	h.block(nil, world.BlockTime)
	voteAll(2)
	voteAll(3)
	h.block(nil, world.BlockTime)
	h.block(nil, 15*24*time.Hour)
	h.block(nil, world.BlockTime)
	ctx := w.Committed()
	for id, want := range map[uint64]govv1.ProposalStatus{1: govv1.StatusPassed, 2: govv1.StatusFailed, 3: govv1.StatusFailed} {
		p, err := w.App.GovKeeper.Proposals.Get(ctx, id)
		if err != nil {
			panic(fmt.Sprintf("gov-failures: proposal %d: %v", id, err))
		}
		if p.Status != want {
			panic(fmt.Sprintf("gov-failures: proposal %d ended %s (%s), the history needs %s", id, p.Status, p.FailedReason, want))
		}
	}
	return h.out
}

// tokensPoolPrecompiles: the parts of the state machine the other histories do not reach - token registration of every
// kind, conversions in both directions and between denominations, switches and alias updates, the whole life of pool
// entries through messages and precompile (send, fee increase, cancel, batch, confirms, execution claim), inbound and
// outgoing bridge calls with their results, the staking precompile's share operations, and oracles going offline after
// the signed window. Every operation runs inside a real block.
func tokensPoolPrecompiles() []*abci.ResponseFinalizeBlock {
	w := world.New(world.Config{Validators: 2, Actors: []string{"bank", "u1", "u2", "rel"}})
	h := &hist{w: w, seqs: map[string]uint64{}}
	u1, u2, rel := w.A("u1"), w.A("u2"), w.A("rel")
	chain := "eth"
	var os []scen.Oracle
	var usdt, tok scen.Token
	nonces := map[string]uint64{}
	st := func(ctx sdk.Context, from world.Actor, m string, args ...interface{}) {
		if r := w.CallABI(ctx, from, fxstakingtypes.GetAddress(), fxstakingtypes.GetABI(), nil, 3_000_000, m, args...); !r.Success() {
			panic("staking precompile " + m + ": " + r.String())
		}
	}
	cc := func(ctx sdk.Context, from world.Actor, value *big.Int, m string, args ...interface{}) {
		if r := w.CallABI(ctx, from, cctypes.GetAddress(), cctypes.GetABI(), value, 3_000_000, m, args...); !r.Success() {
			panic("crosschain precompile " + m + ": " + r.String())
		}
	}
	observe := func(ctx sdk.Context, claim cctypes.ExternalClaim, execute bool) {
		scen.Observe(w, ctx, chain, os, claim)
		if execute {
			cc(ctx, rel, nil, "executeClaim", chain, new(big.Int).SetUint64(claim.GetEventNonce()))
		}
	}
	var target [32]byte
	copy(target[:], chain)
	// block 2: tokens of every kind, deposits, conversions, switches
	h.block(func(ctx sdk.Context) {
		os = scen.SetupOracles(w, ctx, chain, []string{"o1", "o2", "o3"}, []int64{10000, 10000, 10000})
		osm := map[string][]scen.Oracle{chain: os}
		scen.RegisterFX(w, ctx, osm, nonces, 1000)
		usdt = scen.RegisterModuleToken(w, ctx, "USDT", osm, nonces, 1000)
		tok = scen.RegisterExternalToken(w, ctx, u1, "TOK", 1000, osm, nonces, 1000)
		scen.Fund(w, ctx, rel.Acc(), sdk.NewCoins(world.FXCoin(10)))
		for _, u := range []world.Actor{u1, u2} {
			nonces[chain]++
			observe(ctx, scen.SendToFxClaim(chain, nonces[chain], 1001, usdt.Ext[chain], 100, scen.ExtAddr(chain, "depositor"), u.Acc(), "", ""), true)
		}
		w.MustDeliver(ctx, &erc20types.MsgConvertCoin{Coin: sdk.NewInt64Coin("usdt", 40), Receiver: u1.Hex().String(), Sender: u1.Bech()})
		w.MustDeliver(ctx, &erc20types.MsgConvertERC20{ContractAddress: usdt.ERC20.String(), Amount: sdkmath.NewInt(5), Receiver: u2.Bech(), Sender: u1.Hex().String()})
		w.MustDeliver(ctx, &erc20types.MsgConvertERC20{ContractAddress: tok.ERC20.String(), Amount: sdkmath.NewInt(50), Receiver: u1.Bech(), Sender: u1.Hex().String()})
		w.MustDeliver(ctx, &erc20types.MsgToggleTokenConversion{Authority: world.GovAuthority(), Token: "usdt"})
		w.MustDeliver(ctx, &erc20types.MsgToggleTokenConversion{Authority: world.GovAuthority(), Token: "usdt"})
		w.MustDeliver(ctx, &erc20types.MsgUpdateDenomAlias{Authority: world.GovAuthority(), Denom: "usdt", Alias: "bsc" + scen.ExtAddr("bsc", "usdt-alias")})
		w.MustDeliver(ctx, &erc20types.MsgUpdateDenomAlias{Authority: world.GovAuthority(), Denom: "usdt", Alias: "bsc" + scen.ExtAddr("bsc", "usdt-alias")})
	}, world.BlockTime)
	// block 3: pool entries through messages and through the precompile, fee increases, a cancel
	h.cosmos(u2, &cctypes.MsgSendToExternal{ChainName: chain, Sender: u2.Bech(), Dest: scen.ExtAddr(chain, "u2-ext"), Amount: sdk.NewInt64Coin("usdt", 3), BridgeFee: sdk.NewInt64Coin("usdt", 1)},
		&cctypes.MsgSendToExternal{ChainName: chain, Sender: u2.Bech(), Dest: scen.ExtAddr(chain, "u2-ext"), Amount: sdk.NewInt64Coin("usdt", 2), BridgeFee: sdk.NewInt64Coin("usdt", 2)})
	h.block(func(ctx sdk.Context) {
		if r := w.CallABI(ctx, u1, usdt.ERC20, contract.GetFIP20().ABI, nil, 300000, "approve", cctypes.GetAddress(), big.NewInt(20)); !r.Success() {
			panic(r.String())
		}
		cc(ctx, u1, nil, "crossChain", usdt.ERC20, scen.ExtAddr(chain, "u1-ext"), big.NewInt(4), big.NewInt(1), target, "")
		cc(ctx, u1, nil, "crossChain", usdt.ERC20, scen.ExtAddr(chain, "u1-ext"), big.NewInt(2), big.NewInt(3), target, "")
		cc(ctx, u1, big.NewInt(3), "crossChain", common.Address{}, scen.ExtAddr(chain, "u1-ext"), big.NewInt(2), big.NewInt(1), target, "")
	}, world.BlockTime)
	h.cosmos(u2, &cctypes.MsgIncreaseBridgeFee{ChainName: chain, TransactionId: 4, Sender: u2.Bech(), AddBridgeFee: sdk.NewInt64Coin("usdt", 1)})
	h.cosmos(u2, &cctypes.MsgCancelSendToExternal{ChainName: chain, TransactionId: 5, Sender: u2.Bech()})
	h.block(func(ctx sdk.Context) {
		// (the hook of a block runs before its transactions: u1's three precompile entries have ids 1-3, u2's messages 4-5)
		cc(ctx, u1, big.NewInt(1), "increaseBridgeFee", chain, big.NewInt(3), common.Address{}, big.NewInt(1))
		cc(ctx, u1, nil, "cancelSendToExternal", chain, big.NewInt(2))
	}, world.BlockTime)
	// block 5: a batch, confirmed by all three oracles in the next block, then observed as executed
	h.cosmos(os[0].Bridger, &cctypes.MsgRequestBatch{ChainName: chain, Sender: os[0].Bridger.Bech(), Denom: usdt.Bridge[chain], MinimumFee: sdkmath.NewInt(1), FeeReceive: scen.ExtAddr(chain, "feercv"), BaseFee: sdkmath.ZeroInt()})
	h.block(nil, world.BlockTime)
	k := scen.Keeper(w, chain)
	gid := k.GetGravityID(w.Committed())
	batches := k.GetOutgoingTxBatches(w.Committed())
	if len(batches) == 0 {
		panic("tokens-pool-precompiles: no batch was built")
	}
	b := batches[0]
	for _, o := range os {
		h.cosmos(o.Bridger, &cctypes.MsgConfirmBatch{ChainName: chain, Nonce: b.BatchNonce, TokenContract: b.TokenContract, BridgerAddress: o.Bridger.Bech(), ExternalAddress: o.ExtAddr,
			Signature: scen.Sign(chain, o.ExtKey, scen.BatchCheckpoint(chain, gid, b))})
	}
	h.block(nil, world.BlockTime)
	h.block(func(ctx sdk.Context) {
		nonces[chain]++
		observe(ctx, &cctypes.MsgSendToExternalClaim{EventNonce: nonces[chain], BlockHeight: 1002, BatchNonce: b.BatchNonce, TokenContract: b.TokenContract, ChainName: chain}, false)
	}, world.BlockTime)
	// block 8: bridge calls - inbound to an account, outgoing with two tokens, its failure result refunds it
	h.block(func(ctx sdk.Context) {
		nonces[chain]++
		observe(ctx, &cctypes.MsgBridgeCallClaim{ChainName: chain, EventNonce: nonces[chain], BlockHeight: 1003, Sender: scen.ExtAddr(chain, "depositor"), Refund: u2.Hex().String(),
			TokenContracts: []string{usdt.Ext[chain]}, Amounts: []sdkmath.Int{sdkmath.NewInt(5)}, To: u2.Hex().String(), Data: "", Value: sdkmath.ZeroInt(), Memo: "", TxOrigin: scen.ExtAddr(chain, "origin")}, true)
		w.MustDeliver(ctx, &cctypes.MsgBridgeCall{ChainName: chain, Sender: u2.Bech(), Refund: u2.Bech(), Coins: sdk.NewCoins(sdk.NewInt64Coin("FX", 2), sdk.NewInt64Coin("usdt", 3)), To: scen.ExtAddr(chain, "callee"), Data: "02", Value: sdkmath.ZeroInt()})
		nonces[chain]++
		observe(ctx, &cctypes.MsgBridgeCallResultClaim{ChainName: chain, EventNonce: nonces[chain], BlockHeight: 1004, Nonce: 1, TxOrigin: scen.ExtAddr(chain, "origin"), Success: false, Cause: ""}, true)
	}, world.BlockTime)
	// block 9: share operations of the staking precompile
	v0, v1 := w.Vals[0].ValAddr().String(), w.Vals[1].ValAddr().String()
	h.block(func(ctx sdk.Context) {
		st(ctx, u1, "delegateV2", v0, e18(100))
		st(ctx, u2, "delegateV2", v0, e18(40))
		st(ctx, u1, "approveShares", v0, u2.Hex(), e18(30))
		st(ctx, u2, "transferFromShares", v0, u1.Hex(), u2.Hex(), e18(10))
		st(ctx, u1, "transferShares", v0, u2.Hex(), e18(5))
		st(ctx, u1, "redelegateV2", v0, v1, e18(20))
		st(ctx, u2, "undelegateV2", v0, e18(15))
	}, world.BlockTime)
	h.block(func(ctx sdk.Context) {
		st(ctx, u1, "withdraw", v0)
		st(ctx, u2, "withdraw", v0)
		scen.SetParams(w, ctx, chain, func(p *cctypes.Params) { p.SignedWindow = 2 })
	}, world.BlockTime)
	// the outgoing bridge call of block 8 was refunded; a second one stays unconfirmed past the signed window
	h.cosmos(u2, &cctypes.MsgBridgeCall{ChainName: chain, Sender: u2.Bech(), Refund: u2.Bech(), Coins: sdk.NewCoins(sdk.NewInt64Coin("usdt", 1)), To: scen.ExtAddr(chain, "callee"), Data: "03", Value: sdkmath.ZeroInt()})
	for i := 0; i < 5; i++ {
		h.block(nil, world.BlockTime)
	}
	h.block(nil, 22*24*time.Hour)
	if on := len(k.GetAllOracles(w.Committed(), true)); on == len(os) {
		panic("tokens-pool-precompiles: no oracle went offline after the signed window")
	}
	return h.out
}

// tiesAndTimeouts: objects that tie on every key but their identity - three outgoing bridge calls made in one block
// (equal timeouts, three different fresh refund addresses), pool transfers of two tokens with equal fees by different
// senders, batches of both tokens - and one observed event far in the external chain's future at
// which all of them time out together: the calls are refunded (new accounts are created for the refund addresses), the
// batches are cancelled and their transfers return to the pool, from which their owners cancel them in one block.
func tiesAndTimeouts() []*abci.ResponseFinalizeBlock {
	w := world.New(world.Config{Validators: 2, Actors: []string{"bank", "u1", "u2", "rel"}})
	h := &hist{w: w, seqs: map[string]uint64{}}
	u1, u2, rel := w.A("u1"), w.A("u2"), w.A("rel")
	chain := "eth"
	var os []scen.Oracle
	var usdt scen.Token
	nonces := map[string]uint64{}
	h.block(func(ctx sdk.Context) {
		os = scen.SetupOracles(w, ctx, chain, []string{"o1", "o2", "o3"}, []int64{10000, 10000, 10000})
		osm := map[string][]scen.Oracle{chain: os}
		scen.RegisterFX(w, ctx, osm, nonces, 1000)
		usdt = scen.RegisterModuleToken(w, ctx, "USDT", osm, nonces, 1000)
		scen.Fund(w, ctx, rel.Acc(), sdk.NewCoins(world.FXCoin(10)))
		for _, u := range []world.Actor{u1, u2} {
			nonces[chain]++
			scen.Observe(w, ctx, chain, os, scen.SendToFxClaim(chain, nonces[chain], 1001, usdt.Ext[chain], 100, scen.ExtAddr(chain, "depositor"), u.Acc(), "", ""))
			if r := w.CallABI(ctx, rel, cctypes.GetAddress(), cctypes.GetABI(), nil, 3_000_000, "executeClaim", chain, new(big.Int).SetUint64(nonces[chain])); !r.Success() {
				panic("ties-and-timeouts: executeClaim: " + r.String())
			}
		}
	}, world.BlockTime)
	// one block: three bridge calls with fresh refund addresses, four pool transfers with equal fees
	for i, u := range []world.Actor{u1, u2, u1} {
		refund := world.NewActor(fmt.Sprintf("fresh-refund-%d", i))
		h.cosmos(u, &cctypes.MsgBridgeCall{ChainName: chain, Sender: u.Bech(), Refund: refund.Bech(), Coins: sdk.NewCoins(sdk.NewInt64Coin("usdt", 2)), To: scen.ExtAddr(chain, "callee"), Data: "0" + fmt.Sprint(i+1), Value: sdkmath.ZeroInt()})
	}
	for _, u := range []world.Actor{u2, u1} {
		h.cosmos(u, &cctypes.MsgSendToExternal{ChainName: chain, Sender: u.Bech(), Dest: scen.ExtAddr(chain, u.Name+"-ext"), Amount: sdk.NewInt64Coin("usdt", 3), BridgeFee: sdk.NewInt64Coin("usdt", 1)},
			&cctypes.MsgSendToExternal{ChainName: chain, Sender: u.Bech(), Dest: scen.ExtAddr(chain, u.Name+"-ext"), Amount: sdk.NewInt64Coin("FX", 3), BridgeFee: sdk.NewInt64Coin("FX", 1)})
	}
	h.block(nil, world.BlockTime)
	// batches of both tokens (the module builds one batch per block)
	h.cosmos(os[0].Bridger, &cctypes.MsgRequestBatch{ChainName: chain, Sender: os[0].Bridger.Bech(), Denom: usdt.Bridge[chain], MinimumFee: sdkmath.NewInt(1), FeeReceive: scen.ExtAddr(chain, "feercv"), BaseFee: sdkmath.ZeroInt()})
	h.block(nil, world.BlockTime)
	h.cosmos(os[1].Bridger, &cctypes.MsgRequestBatch{ChainName: chain, Sender: os[1].Bridger.Bech(), Denom: "FX", MinimumFee: sdkmath.NewInt(1), FeeReceive: scen.ExtAddr(chain, "feercv"), BaseFee: sdkmath.ZeroInt()})
	h.block(nil, world.BlockTime)
	k := scen.Keeper(w, chain)
	if n := len(k.GetOutgoingTxBatches(w.Committed())); n != 2 {
		panic(fmt.Sprintf("ties-and-timeouts: %d batches, the history needs 2", n))
	}
	// an event observed far in the external future: everything times out at once
	nonces[chain]++
	for _, o := range os {
		h.cosmos(o.Bridger, scen.WrapClaim(chain, o.Bridger.Bech(), scen.SendToFxClaim(chain, nonces[chain], 100_000_000, usdt.Ext[chain], 1, scen.ExtAddr(chain, "depositor"), u1.Acc(), "", o.Bridger.Bech())))
	}
	h.block(nil, world.BlockTime)
	ctx := w.Committed()
	if n := len(k.GetOutgoingTxBatches(ctx)); n != 0 {
		panic(fmt.Sprintf("ties-and-timeouts: %d batches survive the timeout", n))
	}
	for i := uint64(1); i <= 3; i++ {
		if _, ok := k.GetOutgoingBridgeCallByNonce(ctx, i); ok {
			panic(fmt.Sprintf("ties-and-timeouts: bridge call %d survives the timeout", i))
		}
	}
	// the owners cancel their returned transfers in one block
	h.cosmos(u2, &cctypes.MsgCancelSendToExternal{ChainName: chain, TransactionId: 1, Sender: u2.Bech()}, &cctypes.MsgCancelSendToExternal{ChainName: chain, TransactionId: 2, Sender: u2.Bech()})
	h.cosmos(u1, &cctypes.MsgCancelSendToExternal{ChainName: chain, TransactionId: 3, Sender: u1.Bech()}, &cctypes.MsgCancelSendToExternal{ChainName: chain, TransactionId: 4, Sender: u1.Bech()})
	h.block(nil, world.BlockTime)
	h.block(nil, world.BlockTime)
	return h.out
}
