// Package world builds a deterministic, fully wired in-process fx-core
// application and offers the primitives every engine needs: fixed actors,
// store branching, whole-store digests/dumps, block-boundary emulation and
// real-handler dispatch.
package world

import (
	"bytes"
	"crypto/sha256"
	"encoding/binary"
	"encoding/hex"
	"encoding/json"
	"fmt"
	"sort"
	"sync"
	"time"

	coreheader "cosmossdk.io/core/header"
	"cosmossdk.io/log"
	sdkmath "cosmossdk.io/math"
	"cosmossdk.io/store/cachemulti"
	"cosmossdk.io/store/mem"
	"cosmossdk.io/store/transient"
	storetypes "cosmossdk.io/store/types"
	abci "github.com/cometbft/cometbft/abci/types"
	tmed25519 "github.com/cometbft/cometbft/crypto/ed25519"
	tmproto "github.com/cometbft/cometbft/proto/tendermint/types"
	tmtypes "github.com/cometbft/cometbft/types"
	dbm "github.com/cosmos/cosmos-db"
	"github.com/cosmos/cosmos-sdk/baseapp"
	codectypes "github.com/cosmos/cosmos-sdk/codec/types"
	cryptocodec "github.com/cosmos/cosmos-sdk/crypto/codec"
	sdk "github.com/cosmos/cosmos-sdk/types"
	authtypes "github.com/cosmos/cosmos-sdk/x/auth/types"
	banktypes "github.com/cosmos/cosmos-sdk/x/bank/types"
	govtypes "github.com/cosmos/cosmos-sdk/x/gov/types"
	slashingtypes "github.com/cosmos/cosmos-sdk/x/slashing/types"
	stakingtypes "github.com/cosmos/cosmos-sdk/x/staking/types"
	"github.com/ethereum/go-ethereum/common"
	"github.com/evmos/ethermint/crypto/ethsecp256k1"
	feemarkettypes "github.com/evmos/ethermint/x/feemarket/types"
	"github.com/spf13/viper"

	"github.com/functionx/fx-core/v8/app"
	fxtypes "github.com/functionx/fx-core/v8/types"
)

const ChainID = "fxcore"

// BlockTime is the default spacing of blocks.
const BlockTime = 5 * time.Second

// GenesisTime is the fixed genesis time of every world.
var GenesisTime = time.Date(2024, 1, 1, 0, 0, 0, 0, time.UTC)

// Actor is an account with a fixed eth-secp256k1 key.
type Actor struct {
	Name string
	Priv *ethsecp256k1.PrivKey
}

// addrCache memoises key -> address (deriving the public key is an elliptic-curve multiplication; the harness asks
// for addresses in every transition)
var addrCache sync.Map

func (a Actor) addr() []byte {
	k := string(a.Priv.Key)
	if v, ok := addrCache.Load(k); ok {
		return v.([]byte)
	}
	b := append([]byte(nil), a.Priv.PubKey().Address()...)
	addrCache.Store(k, b)
	return b
}

func (a Actor) Acc() sdk.AccAddress { return sdk.AccAddress(append([]byte(nil), a.addr()...)) }
func (a Actor) Hex() common.Address { return common.BytesToAddress(a.addr()) }
func (a Actor) Bech() string        { return a.Acc().String() }

// NewActor derives a key from a small integer / name (deterministic).
func NewActor(name string) Actor {
	h := sha256.Sum256([]byte("fxmc/actor/" + name))
	return Actor{Name: name, Priv: &ethsecp256k1.PrivKey{Key: h[:]}}
}

// Validator is a genesis validator with fixed consensus key and operator.
type Validator struct {
	Operator Actor
	Cons     tmed25519.PrivKey
}

func (v Validator) ValAddr() sdk.ValAddress { return sdk.ValAddress(v.Operator.Acc()) }
func (v Validator) ConsAddr() sdk.ConsAddress {
	return sdk.ConsAddress(v.Cons.PubKey().Address())
}

type Config struct {
	Validators int
	// Actors funded at genesis with ActorFunds FX (18 decimals) each.
	Actors     []string
	ActorFunds int64 // whole FX; default 1_000_000
	// ValidatorStake in whole FX bonded per validator (default 100)
	ValidatorStake int64
	// MinGasPrice non-zero only for the fee checks
	FeeMarket bool
	// MinGasPrices node config (string, e.g. "4000000000000FX"); empty = none
	MinGasPrices string
	// BypassTypes / BypassGas: the node's bypass-min-fee configuration
	BypassTypes []string
	BypassGas   uint64
}

type World struct {
	App    *app.App
	Cfg    Config
	Vals   []Validator
	Actors map[string]Actor
	// Root is the context all exploration branches from (finalize-block state after InitChain and block 1 begin).
	Root sdk.Context
	// AfterBegin, if set, runs once inside the next real FinalizeBlock right after the begin-blocker.
	AfterBegin func(ctx sdk.Context)
	realTime   time.Time
	KV         []*storetypes.KVStoreKey // sorted by name
	real       *realDriver              // set in RealMode: the world is inside a real FinalizeBlock
}

// RealMode makes every world built from now on live inside real blocks: Root is the context of block 2 handed out
// by a hook right after the real begin-blocker while FinalizeBlock waits, and NextBlock ends that block for real
// (EndBlocker inside FinalizeBlock, Commit) and starts the next one. The conformance replayer runs the same op
// sequences in both modes and compares the stores, which is how the block-boundary emulation and the "handler on a
// store branch" shortcut are bound to the real ABCI path.
var RealMode bool

type realDriver struct {
	ctxCh   chan sdk.Context
	release chan struct{}
	done    chan error
}

// startRealBlock starts FinalizeBlock of the next height in a goroutine and returns the block's context as soon as
// the begin-blocker has run; the goroutine then waits until endRealBlock.
func (w *World) startRealBlock(dt time.Duration) (sdk.Context, error) {
	d := &realDriver{ctxCh: make(chan sdk.Context, 1), release: make(chan struct{}), done: make(chan error, 1)}
	w.real = d
	go func() {
		defer func() {
			if r := recover(); r != nil {
				d.done <- fmt.Errorf("panic in real block: %v\n%s", r, shortStack())
				select {
				case d.ctxCh <- sdk.Context{}:
				default:
				}
			}
		}()
		_, err := w.RealBlock(func(ctx sdk.Context) {
			d.ctxCh <- ctx
			<-d.release
		}, nil, dt)
		d.done <- err
	}()
	select {
	case ctx := <-d.ctxCh:
		return ctx.WithEventManager(sdk.NewEventManager()), nil
	case err := <-d.done:
		return sdk.Context{}, err
	}
}

func (w *World) endRealBlock() error {
	d := w.real
	if d == nil {
		return nil
	}
	close(d.release)
	w.real = nil
	return <-d.done
}

// Finish ends the real block a RealMode world is in (no-op otherwise).
func (w *World) Finish() error { return w.endRealBlock() }

var _ = 0

var configured bool

func initSDKConfig() {
	if configured {
		return
	}
	configured = true
	fxtypes.SetConfig(true)
}

// GovAuthority is the governance module account (authority of privileged msgs).
func GovAuthority() string { return authtypes.NewModuleAddress(govtypes.ModuleName).String() }

func FX(n int64) sdkmath.Int { return sdkmath.NewInt(n).MulRaw(1e18) }

func FXCoin(n int64) sdk.Coin { return sdk.NewCoin(fxtypes.DefaultDenom, FX(n)) }

func New(cfg Config) *World {
	initSDKConfig()
	if cfg.Validators <= 0 {
		cfg.Validators = 2
	}
	if cfg.ActorFunds == 0 {
		cfg.ActorFunds = 1_000_000
	}
	if cfg.ValidatorStake == 0 {
		cfg.ValidatorStake = 100
	}
	w := &World{Cfg: cfg, Actors: map[string]Actor{}}
	v := viper.New()
	opts := []func(*baseapp.BaseApp){baseapp.SetChainID(ChainID)}
	if cfg.MinGasPrices != "" {
		opts = append(opts, baseapp.SetMinGasPrices(cfg.MinGasPrices))
	}
	if cfg.BypassTypes != nil {
		v.Set("bypass-min-fee.msg-types", cfg.BypassTypes)
		v.Set("bypass-min-fee.msg-max-gas-usage", cfg.BypassGas)
	}
	w.App = app.New(log.NewNopLogger(), dbm.NewMemDB(), nil, false, map[int64]bool{}, "/nonexistent-fxmc-home", v, opts...)
	a := w.App
	// harness-only seam (no change to /repo): the real begin-blocker followed by an optional hook that
	// plays "governance executed this message" / scenario set-up inside a real FinalizeBlock.
	a.SetBeginBlocker(func(ctx sdk.Context) (sdk.BeginBlock, error) {
		r, err := a.BeginBlocker(ctx)
		if err == nil && w.AfterBegin != nil {
			h := w.AfterBegin
			w.AfterBegin = nil
			h(ctx)
			r.Events = append(r.Events, ctx.EventManager().ABCIEvents()...) // what the hook emitted belongs to the block's response too
		}
		return r, err
	})
	must(a.LoadLatestVersion())
	cdc := a.AppCodec()
	gen := app.NewDefAppGenesisByDenom(cdc, a.ModuleBasics)

	// validators
	var tmVals []*tmtypes.Validator
	var genAccs authtypes.GenesisAccounts
	var balances []banktypes.Balance
	for i := 0; i < cfg.Validators; i++ {
		val := Validator{
			Operator: NewActor(fmt.Sprintf("val%d", i+1)),
			Cons:     tmed25519.GenPrivKeyFromSecret([]byte(fmt.Sprintf("fxmc/cons/%d", i+1))),
		}
		w.Vals = append(w.Vals, val)
		w.Actors[val.Operator.Name] = val.Operator
		tmVals = append(tmVals, tmtypes.NewValidator(val.Cons.PubKey(), 1))
		genAccs = append(genAccs, authtypes.NewBaseAccount(val.Operator.Acc(), nil, 0, 0))
		balances = append(balances, banktypes.Balance{Address: val.Operator.Bech(), Coins: sdk.NewCoins(FXCoin(cfg.ActorFunds))})
	}
	for _, n := range cfg.Actors {
		act := NewActor(n)
		w.Actors[n] = act
		genAccs = append(genAccs, authtypes.NewBaseAccount(act.Acc(), nil, 0, 0))
		balances = append(balances, banktypes.Balance{Address: act.Bech(), Coins: sdk.NewCoins(FXCoin(cfg.ActorFunds))})
	}

	var authGen authtypes.GenesisState
	cdc.MustUnmarshalJSON(gen[authtypes.ModuleName], &authGen)
	packed, err := authtypes.PackAccounts(genAccs)
	must(err)
	authGen.Accounts = packed
	gen[authtypes.ModuleName] = cdc.MustMarshalJSON(&authGen)

	bond := FX(cfg.ValidatorStake)
	var sVals []stakingtypes.Validator
	var dels []stakingtypes.Delegation
	for i, val := range w.Vals {
		pk, err := cryptocodec.FromCmtPubKeyInterface(tmVals[i].PubKey)
		must(err)
		pkAny, err := codectypes.NewAnyWithValue(pk)
		must(err)
		sv := stakingtypes.Validator{
			OperatorAddress:   val.ValAddr().String(),
			ConsensusPubkey:   pkAny,
			Status:            stakingtypes.Bonded,
			Tokens:            bond,
			DelegatorShares:   sdkmath.LegacyNewDecFromInt(bond),
			Description:       stakingtypes.Description{Moniker: val.Operator.Name},
			UnbondingTime:     time.Unix(0, 0).UTC(),
			Commission:        stakingtypes.NewCommission(sdkmath.LegacyNewDecWithPrec(1, 1), sdkmath.LegacyOneDec(), sdkmath.LegacyOneDec()),
			MinSelfDelegation: sdkmath.OneInt(),
		}
		sVals = append(sVals, sv)
		dels = append(dels, stakingtypes.NewDelegation(val.Operator.Bech(), val.ValAddr().String(), sdkmath.LegacyNewDecFromInt(bond)))
	}
	var stGen stakingtypes.GenesisState
	cdc.MustUnmarshalJSON(gen[stakingtypes.ModuleName], &stGen)
	stGen.Params.MaxValidators = uint32(len(sVals))
	stGen.Validators = sVals
	stGen.Delegations = dels
	gen[stakingtypes.ModuleName] = cdc.MustMarshalJSON(&stGen)

	var bankGen banktypes.GenesisState
	cdc.MustUnmarshalJSON(gen[banktypes.ModuleName], &bankGen)
	for _, b := range balances {
		bankGen.Supply = bankGen.Supply.Add(b.Coins...)
	}
	bankGen.Supply = bankGen.Supply.Add(sdk.NewCoin(fxtypes.DefaultDenom, bond.MulRaw(int64(len(sVals)))))
	bankGen.Balances = append(bankGen.Balances, balances...)
	// the default genesis supply exceeds the eth module escrow by 4000 FX; give them to a fixed reserve account
	bankGen.Balances = append(bankGen.Balances, banktypes.Balance{Address: NewActor("genesis-reserve").Bech(), Coins: sdk.NewCoins(FXCoin(4000))})
	bankGen.Balances = append(bankGen.Balances, banktypes.Balance{
		Address: authtypes.NewModuleAddress(stakingtypes.BondedPoolName).String(),
		Coins:   sdk.NewCoins(sdk.NewCoin(fxtypes.DefaultDenom, bond.MulRaw(int64(len(sVals))))),
	})
	gen[banktypes.ModuleName] = cdc.MustMarshalJSON(&bankGen)

	if !cfg.FeeMarket {
		var fm feemarkettypes.GenesisState
		cdc.MustUnmarshalJSON(gen[feemarkettypes.ModuleName], &fm)
		fm.Params.NoBaseFee = true
		fm.Params.BaseFee = sdkmath.ZeroInt()
		fm.Params.MinGasPrice = sdkmath.LegacyZeroDec()
		gen[feemarkettypes.ModuleName] = cdc.MustMarshalJSON(&fm)
	}

	stateBytes, err := json.Marshal(gen)
	must(err)
	cp := app.CustomGenesisConsensusParams().ToProto()
	_, err = a.InitChain(&abci.RequestInitChain{
		ChainId:         ChainID,
		Time:            GenesisTime,
		ConsensusParams: &cp,
		AppStateBytes:   stateBytes,
		InitialHeight:   1,
	})
	must(err)

	// signing infos for the genesis validators (the staking hooks did not run for them)
	ictx := a.GetContextForFinalizeBlock(nil)
	for _, val := range w.Vals {
		si := slashingtypes.NewValidatorSigningInfo(val.ConsAddr(), 1, 0, time.Unix(0, 0), false, 0)
		must(a.SlashingKeeper.SetValidatorSigningInfo(ictx, val.ConsAddr(), si))
	}
	// block 1 is a real, empty block
	w.realTime = GenesisTime
	if _, err := w.RealBlock(nil, nil, 0); err != nil {
		panic(err)
	}
	for _, k := range a.GetKVStoreKey() {
		w.KV = append(w.KV, k)
	}
	sort.Slice(w.KV, func(i, j int) bool { return w.KV[i].Name() < w.KV[j].Name() })
	if RealMode {
		ctx, err := w.startRealBlock(BlockTime)
		must(err)
		w.Root = ctx
		return w
	}
	// the exploration root: a branch of the committed state, inside block 2 right after its begin-blocker
	hdr := tmproto.Header{ChainID: ChainID, Height: 2, Time: GenesisTime.Add(BlockTime), ProposerAddress: w.Vals[0].ConsAddr()}
	ctx := sdk.NewContext(w.memCopy(), hdr, false, log.NewNopLogger())
	ctx = w.withHeader(ctx, hdr)
	_, err = a.PreBlocker(ctx, nil)
	must(err)
	_, err = a.BeginBlocker(ctx)
	must(err)
	w.Root = ctx.WithEventManager(sdk.NewEventManager())
	return w
}

func (w *World) voteInfos() []abci.VoteInfo {
	var vi []abci.VoteInfo
	for _, val := range w.Vals {
		vi = append(vi, abci.VoteInfo{
			Validator:   abci.Validator{Address: val.ConsAddr(), Power: sdk.TokensToConsensusPower(FX(w.Cfg.ValidatorStake), sdk.DefaultPowerReduction)},
			BlockIdFlag: tmproto.BlockIDFlagCommit,
		})
	}
	return vi
}

func (w *World) A(name string) Actor {
	a, ok := w.Actors[name]
	if !ok {
		a = NewActor(name)
		w.Actors[name] = a
	}
	return a
}

func must(err error) {
	if err != nil {
		panic(err)
	}
}

// Branch returns a child context whose writes never reach the parent.
func Branch(ctx sdk.Context) sdk.Context {
	c, _ := ctx.CacheContext()
	return c.WithEventManager(sdk.NewEventManager())
}

// BranchCommit returns a child and a function that flushes it to the parent.
func BranchCommit(ctx sdk.Context) (sdk.Context, func()) {
	c, w := ctx.CacheContext()
	return c.WithEventManager(sdk.NewEventManager()), w
}

// Digest is the exact state-matching key: SHA-256 over every KV store, plus height and time.
func (w *World) Digest(ctx sdk.Context) [32]byte {
	h := sha256.New()
	var lb [8]byte
	put := func(b []byte) {
		binary.BigEndian.PutUint64(lb[:], uint64(len(b)))
		h.Write(lb[:])
		h.Write(b)
	}
	for _, k := range w.KV {
		put([]byte(k.Name()))
		it := ctx.MultiStore().GetKVStore(k).Iterator(nil, nil) // the branch's store itself, without the gas-metering wrapper
		for ; it.Valid(); it.Next() {
			put(it.Key())
			put(it.Value())
		}
		it.Close()
	}
	binary.BigEndian.PutUint64(lb[:], uint64(ctx.BlockHeight()))
	h.Write(lb[:])
	binary.BigEndian.PutUint64(lb[:], uint64(ctx.BlockTime().UnixNano()))
	h.Write(lb[:])
	var out [32]byte
	copy(out[:], h.Sum(nil))
	return out
}

// Dump returns every key/value of every KV store ("store/hexkey" -> value).
func (w *World) Dump(ctx sdk.Context) map[string][]byte {
	out := map[string][]byte{}
	for _, k := range w.KV {
		it := ctx.MultiStore().GetKVStore(k).Iterator(nil, nil)
		for ; it.Valid(); it.Next() {
			out[k.Name()+"/"+hex.EncodeToString(it.Key())] = append([]byte(nil), it.Value()...)
		}
		it.Close()
	}
	return out
}

// DiffDumps lists keys that differ between two dumps (sorted), as "store/key: a -> b".
func DiffDumps(a, b map[string][]byte) []string {
	var out []string
	for k, va := range a {
		vb, ok := b[k]
		if !ok {
			out = append(out, fmt.Sprintf("%s: %x -> <absent>", k, trunc(va)))
		} else if !bytes.Equal(va, vb) {
			out = append(out, fmt.Sprintf("%s: %x -> %x", k, trunc(va), trunc(vb)))
		}
	}
	for k, vb := range b {
		if _, ok := a[k]; !ok {
			out = append(out, fmt.Sprintf("%s: <absent> -> %x", k, trunc(vb)))
		}
	}
	sort.Strings(out)
	return out
}

func trunc(b []byte) []byte {
	if len(b) > 48 {
		return b[:48]
	}
	return b
}

// BlockResult reports what a block boundary did.
type BlockResult struct {
	Err      error
	Panic    interface{}
	Stack    string
	EndEvts  []abci.Event
	BeginEvt []abci.Event
}

// NextBlock emulates the boundary between two blocks on the given branch:
// real EndBlocker, what Commit does to non-persistent stores, header bump,
// real PreBlocker + BeginBlocker. Returns the context of the next block.
func (w *World) NextBlock(ctx sdk.Context, dt time.Duration) (next sdk.Context, res BlockResult) {
	next = ctx
	if w.real != nil {
		if err := w.endRealBlock(); err != nil {
			res.Err = fmt.Errorf("real block: %w", err)
			return next, res
		}
		n, err := w.startRealBlock(dt)
		if err != nil {
			res.Err = fmt.Errorf("real block: %w", err)
			return next, res
		}
		return n, res
	}
	func() {
		defer func() {
			if r := recover(); r != nil {
				res.Panic = r
				res.Stack = shortStack()
			}
		}()
		ectx := ctx.WithEventManager(sdk.NewEventManager())
		if _, err := w.App.EndBlocker(ectx); err != nil {
			res.Err = fmt.Errorf("end block: %w", err)
			return
		}
		res.EndEvts = ectx.EventManager().ABCIEvents()
		w.clearVolatile(ctx)
		hdr := ctx.BlockHeader()
		hdr.Height++
		hdr.Time = hdr.Time.Add(dt)
		nctx := w.withHeader(ctx, hdr).WithEventManager(sdk.NewEventManager())
		if _, err := w.App.PreBlocker(nctx, nil); err != nil {
			res.Err = fmt.Errorf("pre block: %w", err)
			return
		}
		if _, err := w.App.BeginBlocker(nctx); err != nil {
			res.Err = fmt.Errorf("begin block: %w", err)
			return
		}
		res.BeginEvt = nctx.EventManager().ABCIEvents()
		next = nctx.WithEventManager(sdk.NewEventManager())
	}()
	return next, res
}

func (w *World) clearVolatile(ctx sdk.Context) {
	for _, k := range w.App.GetTransientStoreKey() {
		st := ctx.KVStore(k)
		var keys [][]byte
		it := st.Iterator(nil, nil)
		for ; it.Valid(); it.Next() {
			keys = append(keys, append([]byte(nil), it.Key()...))
		}
		it.Close()
		for _, kk := range keys {
			st.Delete(kk)
		}
	}
	for _, k := range w.App.GetObjectStoreKey() {
		st := ctx.ObjectStore(k)
		var keys [][]byte
		it := st.Iterator(nil, nil)
		for ; it.Valid(); it.Next() {
			keys = append(keys, append([]byte(nil), it.Key()...))
		}
		it.Close()
		for _, kk := range keys {
			st.Delete(kk)
		}
	}
}

// MsgResult is the outcome of one real handler invocation.
type MsgResult struct {
	Err    error
	Panic  interface{}
	Stack  string
	Events []abci.Event
	Resp   *sdk.Result
}

func (r MsgResult) OK() bool { return r.Err == nil && r.Panic == nil }

func (r MsgResult) String() string {
	if r.Panic != nil {
		return fmt.Sprintf("PANIC(%v)", r.Panic)
	}
	if r.Err != nil {
		return "ERR(" + r.Err.Error() + ")"
	}
	return "OK"
}

// Deliver runs msg through its real ValidateBasic and the handler registered on
// the app's MsgServiceRouter, on a child branch that is written back to ctx only
// on success (what baseapp's runMsgs cache does).
func (w *World) Deliver(ctx sdk.Context, msg sdk.Msg) (res MsgResult) {
	return w.deliver(ctx, msg, true)
}

// DeliverToHandler hands msg to the registered handler without the stateless validation (the way a governance
// proposal's messages reach their handlers when the proposal is executed, or a keeper is called by another module).
func (w *World) DeliverToHandler(ctx sdk.Context, msg sdk.Msg) MsgResult {
	return w.deliver(ctx, msg, false)
}

func (w *World) deliver(ctx sdk.Context, msg sdk.Msg, validate bool) (res MsgResult) {
	child, write := BranchCommit(ctx)
	func() {
		defer func() {
			if r := recover(); r != nil {
				res.Panic = r
				res.Stack = shortStack()
			}
		}()
		if vb, ok := msg.(sdk.HasValidateBasic); ok && validate {
			if err := vb.ValidateBasic(); err != nil {
				res.Err = fmt.Errorf("validate basic: %w", err)
				return
			}
		}
		h := w.App.MsgServiceRouter().Handler(msg)
		if h == nil {
			res.Err = fmt.Errorf("no handler for %s", sdk.MsgTypeURL(msg))
			return
		}
		r, err := h(child, msg)
		if err != nil {
			res.Err = err
			return
		}
		res.Resp = r
		res.Events = child.EventManager().ABCIEvents()
		if r != nil {
			res.Events = append(res.Events, r.Events...)
		}
	}()
	if res.OK() {
		write()
	}
	return res
}

// MustDeliver is for scenario set-up.
func (w *World) MustDeliver(ctx sdk.Context, msg sdk.Msg) MsgResult {
	r := w.Deliver(ctx, msg)
	if !r.OK() {
		panic(fmt.Sprintf("setup message %s failed: %s\n%s", sdk.MsgTypeURL(msg), r, r.Stack))
	}
	return r
}

// withHeader gives ctx everything baseapp's FinalizeBlock puts on the block context.
func (w *World) withHeader(ctx sdk.Context, hdr tmproto.Header) sdk.Context {
	ctx = ctx.WithBlockHeader(hdr).
		WithHeaderInfo(coreheader.Info{ChainID: hdr.ChainID, Height: hdr.Height, Time: hdr.Time}).
		WithChainID(hdr.ChainID).
		WithProposer(hdr.ProposerAddress).
		WithVoteInfos(w.voteInfos()).
		WithExecMode(sdk.ExecModeFinalize).
		WithBlockGasMeter(storetypes.NewInfiniteGasMeter()).
		WithGasMeter(storetypes.NewInfiniteGasMeter())
	return ctx.WithConsensusParams(w.App.GetConsensusParams(ctx))
}

// RealBlock runs one block through the real ABCI path (FinalizeBlock + Commit) at the next height.
// hook (may be nil) runs inside the block right after the begin-blocker.
func (w *World) RealBlock(hook func(ctx sdk.Context), txs [][]byte, dt time.Duration) (*abci.ResponseFinalizeBlock, error) {
	h := w.App.LastBlockHeight() + 1
	w.realTime = w.realTime.Add(dt)
	w.AfterBegin = hook
	res, err := w.App.FinalizeBlock(&abci.RequestFinalizeBlock{
		Height:            h,
		Time:              w.realTime,
		ProposerAddress:   w.Vals[0].ConsAddr(),
		DecidedLastCommit: abci.CommitInfo{Votes: w.voteInfos()},
		Txs:               txs,
	})
	w.AfterBegin = nil
	if err != nil {
		return nil, err
	}
	if _, err := w.App.Commit(); err != nil {
		return nil, err
	}
	return res, nil
}

// Committed returns a read-only context over the last committed state (for digests after real blocks).
func (w *World) Committed() sdk.Context {
	hdr := tmproto.Header{ChainID: ChainID, Height: w.App.LastBlockHeight(), Time: w.realTime}
	return sdk.NewContext(w.App.CommitMultiStore().CacheMultiStore(), hdr, false, log.NewNopLogger())
}

// memCopy copies the committed state into btree-backed in-memory stores (no IAVL, no goroutine
// iterators) and returns a cache multistore over them; all exploration branches hang off it.
func (w *World) memCopy() storetypes.CacheMultiStore {
	cms := w.App.CommitMultiStore()
	stores := map[storetypes.StoreKey]storetypes.CacheWrapper{}
	copyKV := func(k storetypes.StoreKey) {
		dst := transient.NewStore()
		it := cms.GetKVStore(k).Iterator(nil, nil)
		for ; it.Valid(); it.Next() {
			dst.Set(append([]byte{}, it.Key()...), append([]byte{}, it.Value()...))
		}
		it.Close()
		stores[k] = dst
	}
	for _, k := range w.App.GetKVStoreKey() {
		copyKV(k)
	}
	for _, k := range w.App.GetMemoryStoreKey() {
		dst := mem.NewStore()
		it := cms.GetKVStore(k).Iterator(nil, nil)
		for ; it.Valid(); it.Next() {
			dst.Set(append([]byte{}, it.Key()...), append([]byte{}, it.Value()...))
		}
		it.Close()
		stores[k] = dst
	}
	for _, k := range w.App.GetTransientStoreKey() {
		stores[k] = transient.NewStore()
	}
	for _, k := range w.App.GetObjectStoreKey() {
		stores[k] = transient.NewObjStore()
	}
	return cachemulti.NewFromKVStore(stores, nil, nil)
}
