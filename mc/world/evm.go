package world

import (
	"fmt"
	"math/big"

	abci "github.com/cometbft/cometbft/abci/types"
	cryptotypes "github.com/cosmos/cosmos-sdk/crypto/types"
	sdk "github.com/cosmos/cosmos-sdk/types"
	"github.com/cosmos/cosmos-sdk/types/tx/signing"
	"github.com/ethereum/go-ethereum/accounts/abi"
	"github.com/ethereum/go-ethereum/common"
	ethtypes "github.com/ethereum/go-ethereum/core/types"
	evmtypes "github.com/evmos/ethermint/x/evm/types"

	fxtypes "github.com/functionx/fx-core/v8/types"
)

// ethSigner implements keyring.Signer over an Actor's key.
type ethSigner struct{ a Actor }

func (s ethSigner) Sign(_ string, msg []byte, _ signing.SignMode) ([]byte, cryptotypes.PubKey, error) {
	sig, err := s.a.Priv.Sign(msg)
	return sig, s.a.Priv.PubKey(), err
}

func (s ethSigner) SignByAddress(address sdk.Address, msg []byte, mode signing.SignMode) ([]byte, cryptotypes.PubKey, error) {
	if !s.a.Acc().Equals(address) {
		return nil, nil, fmt.Errorf("address mismatch")
	}
	return s.Sign("", msg, mode)
}

// EthResult is the outcome of one signed EVM transaction.
type EthResult struct {
	Err     error // consensus-level failure: nothing is kept
	Panic   interface{}
	Stack   string
	Resp    *evmtypes.MsgEthereumTxResponse
	Events  []abci.Event
	GasUsed uint64
}

// Kept reports whether the transaction was included (fee/nonce consumed).
func (r EthResult) Kept() bool { return r.Err == nil && r.Panic == nil }

// Success reports whether the EVM execution succeeded (state effects kept).
func (r EthResult) Success() bool { return r.Kept() && r.Resp != nil && !r.Resp.Failed() }

func (r EthResult) String() string {
	switch {
	case r.Panic != nil:
		return fmt.Sprintf("PANIC(%v)", r.Panic)
	case r.Err != nil:
		return "ERR(" + r.Err.Error() + ")"
	case r.Resp.Failed():
		return "VMERR(" + r.Resp.VmError + ")"
	}
	return "OK"
}

// NewEthTx builds and signs an EVM transaction from actor (nonce read from ctx).
func (w *World) NewEthTx(ctx sdk.Context, from Actor, to *common.Address, data []byte, value *big.Int, gasLimit uint64, gasPrice *big.Int) *evmtypes.MsgEthereumTx {
	chainID := fxtypes.EIP155ChainID(ctx.ChainID())
	if value == nil {
		value = big.NewInt(0)
	}
	nonce := w.App.EvmKeeper.GetNonce(ctx, from.Hex())
	tx := evmtypes.NewTx(chainID, nonce, to, value, gasLimit, gasPrice, nil, nil, data, nil)
	tx.From = from.Hex().Bytes()
	if err := tx.Sign(ethtypesSigner(chainID), ethSigner{from}); err != nil {
		panic(err)
	}
	return tx
}

// EthTx executes a signed EVM transaction through the real EvmKeeper.EthereumTx on a child branch
// that is written back unless the transaction is rejected at consensus level.
func (w *World) EthTx(ctx sdk.Context, from Actor, to *common.Address, data []byte, value *big.Int, gasLimit uint64) (res EthResult) {
	child, write := BranchCommit(ctx)
	func() {
		defer func() {
			if r := recover(); r != nil {
				res.Panic = r
				res.Stack = shortStack()
			}
		}()
		tx := w.NewEthTx(child, from, to, data, value, gasLimit, nil)
		resp, err := w.App.EvmKeeper.EthereumTx(child, tx)
		if err != nil {
			res.Err = err
			return
		}
		res.Resp = resp
		res.GasUsed = resp.GasUsed
		res.Events = child.EventManager().ABCIEvents()
	}()
	if res.Kept() {
		write()
	}
	return res
}

// CallPrecompile packs method(args) with the ABI and sends it from actor to addr.
func (w *World) CallABI(ctx sdk.Context, from Actor, to common.Address, a abi.ABI, value *big.Int, gas uint64, method string, args ...interface{}) EthResult {
	data, err := a.Pack(method, args...)
	if err != nil {
		panic(fmt.Sprintf("pack %s: %v", method, err))
	}
	return w.EthTx(ctx, from, &to, data, value, gas)
}

// Query runs a read-only contract call.
func (w *World) Query(ctx sdk.Context, from, to common.Address, a abi.ABI, res interface{}, method string, args ...interface{}) error {
	return w.App.EvmKeeper.QueryContract(ctx, from, to, a, method, res, args...)
}

func ethtypesSigner(chainID *big.Int) ethtypes.Signer {
	return ethtypes.LatestSignerForChainID(chainID)
}

// Deploy creates a contract with the given init code from actor (real EvmKeeper.DeployContract).
func (w *World) Deploy(ctx sdk.Context, from Actor, initCode []byte) common.Address {
	addr, err := w.App.EvmKeeper.DeployContract(ctx, from.Hex(), abi.ABI{}, initCode)
	if err != nil {
		panic(fmt.Sprintf("deploy: %v", err))
	}
	return addr
}

// Slot reads a storage slot of a contract.
func (w *World) Slot(ctx sdk.Context, addr common.Address, slot byte) common.Hash {
	return w.App.EvmKeeper.GetState(ctx, addr, common.BytesToHash([]byte{slot}))
}
