package world

import (
	"runtime"
	"strings"
)

// shortStack returns the frames of the current panic stack that lie inside fx-core or its forks (trimmed).
func shortStack() string {
	buf := make([]byte, 1<<16)
	n := runtime.Stack(buf, false)
	lines := strings.Split(string(buf[:n]), "\n")
	var out []string
	for i := 0; i < len(lines); i++ {
		l := lines[i]
		if strings.Contains(l, "fx-core") || strings.Contains(l, "/repo/") {
			out = append(out, strings.TrimSpace(l))
		}
		if len(out) >= 24 {
			break
		}
	}
	return strings.Join(out, "\n")
}
