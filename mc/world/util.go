package world

import (
	"runtime"
	"strings"
)

// shortStack returns the frames of the current panic stack that lie inside fx-core or its forks (trimmed).
func shortStack() string {
	buf := make([]byte, 1<<16)
	n := runtime.Stack(buf, false)
	lines := strings.Split(string(buf[:n]), "\n")
	var out []string
	for i := 0; i < len(lines); i++ {
		l := lines[i]
		if strings.Contains(l, "fx-core") || strings.Contains(l, "/repo/") {
			out = append(out, strings.TrimSpace(l))
		}
		if len(out) >= 24 {
			break
		}
	}
	return strings.Join(out, "\n")
}

// Site names the innermost fx-core function of a recorded stack (for violation signatures).
func Site(stack string) string {
	for _, l := range strings.Split(stack, "\n") {
		if i := strings.Index(l, "fx-core/v8/"); i >= 0 && !strings.Contains(l, ".go:") {
			f := l[i+len("fx-core/v8/"):]
			if j := strings.Index(f, "("); j > 0 && !strings.HasPrefix(f[j:], "(*") {
				f = f[:j]
			} else if j := strings.LastIndex(f, "("); j > 0 {
				f = f[:j]
			}
			return f
		}
	}
	return "unknown"
}

func init() { initSDKConfig() }
