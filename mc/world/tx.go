package world

import (
	"fmt"

	abci "github.com/cometbft/cometbft/abci/types"
	"github.com/cosmos/cosmos-sdk/client"
	sdk "github.com/cosmos/cosmos-sdk/types"
	"github.com/cosmos/cosmos-sdk/types/tx/signing"
	authsigning "github.com/cosmos/cosmos-sdk/x/auth/signing"
	"github.com/ethereum/go-ethereum/common"
	evmtypes "github.com/evmos/ethermint/x/evm/types"
	"math/big"

	fxtypes "github.com/functionx/fx-core/v8/types"
)

// SignTx builds a SIGN_MODE_DIRECT transaction with msgs signed by signer only.
// Account number / sequence are read from ctx; seqOffset lets several txs of one block be built ahead.
func (w *World) SignTx(ctx sdk.Context, signer Actor, gas uint64, fee sdk.Coins, seqOffset uint64, msgs ...sdk.Msg) ([]byte, error) {
	txCfg := w.App.GetTxConfig()
	b := txCfg.NewTxBuilder()
	if err := b.SetMsgs(msgs...); err != nil {
		return nil, err
	}
	b.SetGasLimit(gas)
	b.SetFeeAmount(fee)
	acc := w.App.AccountKeeper.GetAccount(ctx, signer.Acc())
	if acc == nil {
		return nil, fmt.Errorf("signer %s has no account", signer.Name)
	}
	seq := acc.GetSequence() + seqOffset
	mode := signing.SignMode_SIGN_MODE_DIRECT
	sig := signing.SignatureV2{PubKey: signer.Priv.PubKey(), Data: &signing.SingleSignatureData{SignMode: mode}, Sequence: seq}
	if err := b.SetSignatures(sig); err != nil {
		return nil, err
	}
	sd := authsigning.SignerData{ChainID: ChainID, AccountNumber: acc.GetAccountNumber(), Sequence: seq, PubKey: signer.Priv.PubKey(), Address: signer.Bech()}
	bz, err := authsigning.GetSignBytesAdapter(ctx, txCfg.SignModeHandler(), mode, sd, b.GetTx())
	if err != nil {
		return nil, err
	}
	s, err := signer.Priv.Sign(bz)
	if err != nil {
		return nil, err
	}
	sig.Data = &signing.SingleSignatureData{SignMode: mode, Signature: s}
	if err := b.SetSignatures(sig); err != nil {
		return nil, err
	}
	return txCfg.TxEncoder()(b.GetTx())
}

// EthTxBytes builds the Cosmos transaction wrapping a signed MsgEthereumTx (zero gas price unless given).
func (w *World) EthTxBytes(ctx sdk.Context, from Actor, to *common.Address, data []byte, value *big.Int, gasLimit uint64, gasPrice *big.Int, nonceOffset uint64) ([]byte, error) {
	chainID := fxtypes.EIP155ChainID(ctx.ChainID())
	if value == nil {
		value = big.NewInt(0)
	}
	if gasPrice == nil {
		gasPrice = big.NewInt(0)
	}
	nonce := w.App.EvmKeeper.GetNonce(ctx, from.Hex()) + nonceOffset
	tx := evmtypes.NewTx(chainID, nonce, to, value, gasLimit, gasPrice, nil, nil, data, nil)
	tx.From = from.Hex().Bytes()
	if err := tx.Sign(ethtypesSigner(chainID), ethSigner{from}); err != nil {
		return nil, err
	}
	txCfg := w.App.GetTxConfig()
	b := txCfg.NewTxBuilder()
	built, err := tx.BuildTx(b, fxtypes.DefaultDenom)
	if err != nil {
		return nil, err
	}
	return txCfg.TxEncoder()(built)
}

var _ client.TxConfig

// TxOK reports whether tx result i of a block succeeded.
func TxOK(res *abci.ResponseFinalizeBlock, i int) bool {
	return res != nil && i < len(res.TxResults) && res.TxResults[i].Code == 0
}
