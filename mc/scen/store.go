package scen

import (
	"encoding/binary"

	storetypes "cosmossdk.io/store/types"
	sdk "github.com/cosmos/cosmos-sdk/types"

	cckeeper "github.com/functionx/fx-core/v8/x/crosschain/keeper"
	cctypes "github.com/functionx/fx-core/v8/x/crosschain/types"

	"fxmc/world"
)

// Store returns the raw KV store of a module (read access for oracles).
func Store(w *world.World, ctx sdk.Context, name string) storetypes.KVStore {
	return ctx.KVStore(w.App.GetKey(name))
}

// LastID returns the last id handed out by the chain's auto-increment counter (0 if none).
func LastID(w *world.World, ctx sdk.Context, chain string, key []byte) uint64 {
	bz := Store(w, ctx, chain).Get(key)
	if bz == nil {
		return 0
	}
	return binary.BigEndian.Uint64(bz) - 1
}

func LastBridgeCallID(w *world.World, ctx sdk.Context, chain string) uint64 {
	return LastID(w, ctx, chain, cctypes.KeyLastBridgeCallID)
}

func LastTxPoolID(w *world.World, ctx sdk.Context, chain string) uint64 {
	return LastID(w, ctx, chain, cctypes.KeyLastTxPoolID)
}

func LastBatchID(w *world.World, ctx sdk.Context, chain string) uint64 {
	return LastID(w, ctx, chain, cctypes.KeyLastOutgoingBatchID)
}

// RestartFromExportedGenesis does to one crosschain module what a chain restart from an exported genesis does to it:
// the state is exported with the real ExportGenesis, the module's store is emptied, and the export is imported with
// the real InitGenesis.
func RestartFromExportedGenesis(w *world.World, ctx sdk.Context, chain string) {
	k := Keeper(w, chain)
	gs := cckeeper.ExportGenesis(ctx, k)
	store := Store(w, ctx, chain)
	var keys [][]byte
	it := store.Iterator(nil, nil)
	for ; it.Valid(); it.Next() {
		keys = append(keys, append([]byte(nil), it.Key()...))
	}
	it.Close()
	for _, key := range keys {
		store.Delete(key)
	}
	cckeeper.InitGenesis(ctx, k, gs)
}
