package scen

import (
	"encoding/hex"
	"fmt"
	"strconv"

	abci "github.com/cometbft/cometbft/abci/types"
	sdk "github.com/cosmos/cosmos-sdk/types"
	transfertypes "github.com/cosmos/ibc-go/v8/modules/apps/transfer/types"
	clienttypes "github.com/cosmos/ibc-go/v8/modules/core/02-client/types"
	channeltypes "github.com/cosmos/ibc-go/v8/modules/core/04-channel/types"
	"github.com/cosmos/ibc-go/v8/modules/core/exported"

	"fxmc/world"
)

// Loop-back IBC: both channel ends live on this application, on the sentinel 09-localhost
// connection. Packets, acknowledgements and timeouts go through the real core handlers (real
// commitment / receipt / acknowledgement bookkeeping, real localhost proof verification) and the
// full fx middleware stack. The harness plays the remote chain by writing the remote end's
// packet commitment or acknowledgement into the store before it submits the relayer message.

var sentinelProof = []byte{0x01}

const TransferPort = "transfer"

// Pair is one loop-back channel pair; L is the end under test, R the end the harness plays.
type Pair struct{ L, R string }

// EnableLocalhost allows the 09-localhost client type (governance parameter update).
func EnableLocalhost(w *world.World, ctx sdk.Context) {
	p := w.App.IBCKeeper.ClientKeeper.GetParams(ctx)
	for _, c := range p.AllowedClients {
		if c == exported.Localhost {
			return
		}
	}
	p.AllowedClients = append(p.AllowedClients, exported.Localhost)
	w.MustDeliver(ctx, &clienttypes.MsgUpdateParams{Signer: world.GovAuthority(), Params: p})
}

func eventAttr(evs []abci.Event, typ, key string) string {
	for _, e := range evs {
		if e.Type != typ {
			continue
		}
		for _, a := range e.Attributes {
			if a.Key == key {
				return a.Value
			}
		}
	}
	return ""
}

// OpenLoopback performs the four real handshake messages and returns the new pair.
func OpenLoopback(w *world.World, ctx sdk.Context, relayer world.Actor) Pair {
	hops := []string{exported.LocalhostConnectionID}
	zero := clienttypes.ZeroHeight()
	r := w.MustDeliver(ctx, channeltypes.NewMsgChannelOpenInit(TransferPort, transfertypes.Version, channeltypes.UNORDERED, hops, TransferPort, relayer.Bech()))
	l := eventAttr(r.Events, channeltypes.EventTypeChannelOpenInit, channeltypes.AttributeKeyChannelID)
	r = w.MustDeliver(ctx, channeltypes.NewMsgChannelOpenTry(TransferPort, transfertypes.Version, channeltypes.UNORDERED, hops, TransferPort, l, transfertypes.Version, sentinelProof, zero, relayer.Bech()))
	rr := eventAttr(r.Events, channeltypes.EventTypeChannelOpenTry, channeltypes.AttributeKeyChannelID)
	if l == "" || rr == "" {
		panic(fmt.Sprintf("loop-back handshake: channel ids not found (%q, %q)", l, rr))
	}
	w.MustDeliver(ctx, channeltypes.NewMsgChannelOpenAck(TransferPort, l, rr, transfertypes.Version, sentinelProof, zero, relayer.Bech()))
	w.MustDeliver(ctx, channeltypes.NewMsgChannelOpenConfirm(TransferPort, rr, sentinelProof, zero, relayer.Bech()))
	return Pair{L: l, R: rr}
}

// VoucherDenom is the ibc/<hash> denom under which base (a denom of the remote chain) arrives over the pair's L end.
func (p Pair) VoucherDenom(base string) string {
	return transfertypes.ParseDenomTrace(TransferPort + "/" + p.L + "/" + base).IBCDenom()
}

// InboundPacket builds the packet the remote end would have sent.
func (p Pair) InboundPacket(seq uint64, data transfertypes.FungibleTokenPacketData, timeoutTs uint64) channeltypes.Packet {
	return channeltypes.NewPacket(data.GetBytes(), seq, TransferPort, p.R, TransferPort, p.L, clienttypes.ZeroHeight(), timeoutTs)
}

// Recv plays the remote chain (writes its packet commitment) and submits the relayer's MsgRecvPacket.
func Recv(w *world.World, ctx sdk.Context, pkt channeltypes.Packet, relayer world.Actor) world.MsgResult {
	w.App.IBCKeeper.ChannelKeeper.SetPacketCommitment(ctx, pkt.SourcePort, pkt.SourceChannel, pkt.Sequence, channeltypes.CommitPacket(w.App.AppCodec(), pkt))
	return w.Deliver(ctx, channeltypes.NewMsgRecvPacket(pkt, sentinelProof, clienttypes.ZeroHeight(), relayer.Bech()))
}

// RecvReplay resubmits MsgRecvPacket for a packet whose commitment is already there.
func RecvReplay(w *world.World, ctx sdk.Context, pkt channeltypes.Packet, relayer world.Actor) world.MsgResult {
	return w.Deliver(ctx, channeltypes.NewMsgRecvPacket(pkt, sentinelProof, clienttypes.ZeroHeight(), relayer.Bech()))
}

// StoredAck returns the acknowledgement commitment written for a received packet (nil if none).
func StoredAck(w *world.World, ctx sdk.Context, pkt channeltypes.Packet) []byte {
	bz, _ := w.App.IBCKeeper.ChannelKeeper.GetPacketAcknowledgement(ctx, pkt.DestinationPort, pkt.DestinationChannel, pkt.Sequence)
	return bz
}

// AckIsSuccess classifies a stored acknowledgement commitment of an ICS-20 packet.
func AckIsSuccess(commit []byte) bool {
	ok := channeltypes.NewResultAcknowledgement([]byte{byte(1)})
	return string(commit) == string(channeltypes.CommitAcknowledgement(ok.Acknowledgement()))
}

func SuccessAck() []byte { return channeltypes.NewResultAcknowledgement([]byte{byte(1)}).Acknowledgement() }

func ErrorAck() []byte {
	return channeltypes.NewErrorAcknowledgement(fmt.Errorf("remote chain refused the transfer")).Acknowledgement()
}

// Ack plays the remote chain (writes its acknowledgement for pkt) and submits MsgAcknowledgement.
func Ack(w *world.World, ctx sdk.Context, pkt channeltypes.Packet, ack []byte, relayer world.Actor) world.MsgResult {
	w.App.IBCKeeper.ChannelKeeper.SetPacketAcknowledgement(ctx, pkt.DestinationPort, pkt.DestinationChannel, pkt.Sequence, channeltypes.CommitAcknowledgement(ack))
	return w.Deliver(ctx, channeltypes.NewMsgAcknowledgement(pkt, ack, sentinelProof, clienttypes.ZeroHeight(), relayer.Bech()))
}

// Timeout submits MsgTimeout for pkt (the remote end never received it).
func Timeout(w *world.World, ctx sdk.Context, pkt channeltypes.Packet, relayer world.Actor) world.MsgResult {
	return w.Deliver(ctx, channeltypes.NewMsgTimeout(pkt, 1, sentinelProof, clienttypes.ZeroHeight(), relayer.Bech()))
}

// SentPacket reconstructs the packet from the send_packet event of a transaction.
func SentPacket(evs []abci.Event) (channeltypes.Packet, bool) {
	for _, e := range evs {
		if e.Type != channeltypes.EventTypeSendPacket {
			continue
		}
		m := map[string]string{}
		for _, a := range e.Attributes {
			m[a.Key] = a.Value
		}
		data, err := hex.DecodeString(m[channeltypes.AttributeKeyDataHex])
		if err != nil {
			return channeltypes.Packet{}, false
		}
		seq, _ := strconv.ParseUint(m[channeltypes.AttributeKeySequence], 10, 64)
		ts, _ := strconv.ParseUint(m[channeltypes.AttributeKeyTimeoutTimestamp], 10, 64)
		th, err := clienttypes.ParseHeight(m[channeltypes.AttributeKeyTimeoutHeight])
		if err != nil {
			th = clienttypes.ZeroHeight()
		}
		return channeltypes.NewPacket(data, seq, m[channeltypes.AttributeKeySrcPort], m[channeltypes.AttributeKeySrcChannel],
			m[channeltypes.AttributeKeyDstPort], m[channeltypes.AttributeKeyDstChannel], th, ts), true
	}
	return channeltypes.Packet{}, false
}

// AckText returns the acknowledgement written by a receive, as text (diagnostics only).
func AckText(evs []abci.Event) string {
	return eventAttr(evs, channeltypes.EventTypeWriteAck, channeltypes.AttributeKeyAck) + " / " + eventAttr(evs, "fungible_token_packet", "error") + " / " + eventAttr(evs, channeltypes.EventTypeWriteAck, channeltypes.AttributeKeyAckHex)
}
