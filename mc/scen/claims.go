package scen

import (
	sdkmath "cosmossdk.io/math"
	sdk "github.com/cosmos/cosmos-sdk/types"

	cctypes "github.com/functionx/fx-core/v8/x/crosschain/types"

	"fxmc/world"
)

func SendToFxClaim(chain string, nonce, height uint64, token string, amount int64, sender string, receiver sdk.AccAddress, target string, bridger string) *cctypes.MsgSendToFxClaim {
	return &cctypes.MsgSendToFxClaim{
		EventNonce: nonce, BlockHeight: height, TokenContract: token, Amount: sdkmath.NewInt(amount),
		Sender: sender, Receiver: receiver.String(), TargetIbc: target, BridgerAddress: bridger, ChainName: chain,
	}
}

func BridgeTokenClaim(chain string, nonce, height uint64, token, name, symbol string, decimals uint64, bridger string) *cctypes.MsgBridgeTokenClaim {
	return &cctypes.MsgBridgeTokenClaim{
		EventNonce: nonce, BlockHeight: height, TokenContract: token, Name: name, Symbol: symbol, Decimals: decimals,
		BridgerAddress: bridger, ChainName: chain,
	}
}

// WithBridger returns a copy of claim attributed to bridger.
func WithBridger(claim cctypes.ExternalClaim, bridger string) cctypes.ExternalClaim {
	switch c := claim.(type) {
	case *cctypes.MsgSendToFxClaim:
		cp := *c
		cp.BridgerAddress = bridger
		return &cp
	case *cctypes.MsgBridgeTokenClaim:
		cp := *c
		cp.BridgerAddress = bridger
		return &cp
	case *cctypes.MsgSendToExternalClaim:
		cp := *c
		cp.BridgerAddress = bridger
		return &cp
	case *cctypes.MsgOracleSetUpdatedClaim:
		cp := *c
		cp.BridgerAddress = bridger
		return &cp
	case *cctypes.MsgBridgeCallClaim:
		cp := *c
		cp.BridgerAddress = bridger
		return &cp
	case *cctypes.MsgBridgeCallResultClaim:
		cp := *c
		cp.BridgerAddress = bridger
		return &cp
	}
	panic("unknown claim type")
}

// Vote submits claim as oracle o (through the MsgClaim envelope and the real router).
func Vote(w *world.World, ctx sdk.Context, chain string, o Oracle, claim cctypes.ExternalClaim) world.MsgResult {
	c := WithBridger(claim, o.Bridger.Bech())
	return w.Deliver(ctx, WrapClaim(chain, o.Bridger.Bech(), c))
}

// Observe has every oracle of os vote for claim; panics unless all votes are accepted.
func Observe(w *world.World, ctx sdk.Context, chain string, os []Oracle, claim cctypes.ExternalClaim) {
	for _, o := range os {
		if r := Vote(w, ctx, chain, o, claim); !r.OK() {
			panic("observe: vote of " + o.Name + " rejected: " + r.String())
		}
	}
}

// SampleClaims returns one valid claim of every claim type for event nonce n (bridger left empty).
// extMember must be a registered oracle's external address (oracle-set claims are checked against the index).
func SampleClaims(chain string, n uint64, token string, receiver sdk.AccAddress, extMember string) map[string]cctypes.ExternalClaim {
	ext := func(l string) string { return ExtAddr(chain, l) }
	return map[string]cctypes.ExternalClaim{
		"SendToFx":         SendToFxClaim(chain, n, 100+n, token, 7, ext("depositor"), receiver, "", ""),
		"BridgeToken":      BridgeTokenClaim(chain, n, 100+n, ext("other-token"), "Other", "OTH", 6, ""),
		"SendToExternal":   &cctypes.MsgSendToExternalClaim{EventNonce: n, BlockHeight: 100 + n, BatchNonce: 1, TokenContract: token, ChainName: chain},
		"OracleSetUpdated": &cctypes.MsgOracleSetUpdatedClaim{EventNonce: n, BlockHeight: 100 + n, OracleSetNonce: 1, Members: []cctypes.BridgeValidator{{Power: 1000, ExternalAddress: extMember}}, ChainName: chain},
		"BridgeCall": &cctypes.MsgBridgeCallClaim{ChainName: chain, EventNonce: n, BlockHeight: 100 + n, Sender: ext("depositor"), Refund: ext("refund"), TokenContracts: []string{token}, Amounts: []sdkmath.Int{sdkmath.NewInt(5)},
			To: ext("callee"), Data: "", Value: sdkmath.ZeroInt(), Memo: "", TxOrigin: ext("origin")},
		"BridgeCallResult": &cctypes.MsgBridgeCallResultClaim{ChainName: chain, EventNonce: n, BlockHeight: 100 + n, Nonce: 1, TxOrigin: ext("origin"), Success: true, Cause: ""},
	}
}

var ClaimTypes = []string{"SendToFx", "BridgeToken", "SendToExternal", "OracleSetUpdated", "BridgeCall", "BridgeCallResult"}
