package scen

import (
	sdkmath "cosmossdk.io/math"
	sdk "github.com/cosmos/cosmos-sdk/types"

	cctypes "github.com/functionx/fx-core/v8/x/crosschain/types"

	"fxmc/world"
)

func SendToFxClaim(chain string, nonce, height uint64, token string, amount int64, sender string, receiver sdk.AccAddress, target string, bridger string) *cctypes.MsgSendToFxClaim {
	return &cctypes.MsgSendToFxClaim{
		EventNonce: nonce, BlockHeight: height, TokenContract: token, Amount: sdkmath.NewInt(amount),
		Sender: sender, Receiver: receiver.String(), TargetIbc: target, BridgerAddress: bridger, ChainName: chain,
	}
}

func BridgeTokenClaim(chain string, nonce, height uint64, token, name, symbol string, decimals uint64, bridger string) *cctypes.MsgBridgeTokenClaim {
	return &cctypes.MsgBridgeTokenClaim{
		EventNonce: nonce, BlockHeight: height, TokenContract: token, Name: name, Symbol: symbol, Decimals: decimals,
		BridgerAddress: bridger, ChainName: chain,
	}
}

// WithBridger returns a copy of claim attributed to bridger.
func WithBridger(claim cctypes.ExternalClaim, bridger string) cctypes.ExternalClaim {
	switch c := claim.(type) {
	case *cctypes.MsgSendToFxClaim:
		cp := *c
		cp.BridgerAddress = bridger
		return &cp
	case *cctypes.MsgBridgeTokenClaim:
		cp := *c
		cp.BridgerAddress = bridger
		return &cp
	case *cctypes.MsgSendToExternalClaim:
		cp := *c
		cp.BridgerAddress = bridger
		return &cp
	case *cctypes.MsgOracleSetUpdatedClaim:
		cp := *c
		cp.BridgerAddress = bridger
		return &cp
	case *cctypes.MsgBridgeCallClaim:
		cp := *c
		cp.BridgerAddress = bridger
		return &cp
	case *cctypes.MsgBridgeCallResultClaim:
		cp := *c
		cp.BridgerAddress = bridger
		return &cp
	}
	panic("unknown claim type")
}

// Vote submits claim as oracle o (through the MsgClaim envelope and the real router).
func Vote(w *world.World, ctx sdk.Context, chain string, o Oracle, claim cctypes.ExternalClaim) world.MsgResult {
	c := WithBridger(claim, o.Bridger.Bech())
	return w.Deliver(ctx, WrapClaim(chain, o.Bridger.Bech(), c))
}

// Observe has every oracle of os vote for claim; panics unless all votes are accepted.
func Observe(w *world.World, ctx sdk.Context, chain string, os []Oracle, claim cctypes.ExternalClaim) {
	for _, o := range os {
		if r := Vote(w, ctx, chain, o, claim); !r.OK() {
			panic("observe: vote of " + o.Name + " rejected: " + r.String())
		}
	}
}
