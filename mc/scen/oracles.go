// Package scen builds the recurring scenario pieces (oracles, tokens, contracts)
// through fx-core's public handlers only.
package scen

import (
	"crypto/ecdsa"
	"crypto/sha256"
	"encoding/hex"
	"fmt"
	"github.com/ethereum/go-ethereum/common"

	sdkmath "cosmossdk.io/math"
	codectypes "github.com/cosmos/cosmos-sdk/codec/types"
	sdk "github.com/cosmos/cosmos-sdk/types"
	"github.com/cosmos/gogoproto/proto"
	"github.com/ethereum/go-ethereum/crypto"
	tronaddress "github.com/fbsobreira/gotron-sdk/pkg/address"

	crosschainkeeper "github.com/functionx/fx-core/v8/x/crosschain/keeper"
	cctypes "github.com/functionx/fx-core/v8/x/crosschain/types"
	trontypes "github.com/functionx/fx-core/v8/x/tron/types"

	"fxmc/world"
)

// Oracle is one bridge oracle with all three identities.
type Oracle struct {
	Name    string
	Acct    world.Actor // oracle account (stake owner)
	Bridger world.Actor // hot key submitting claims / confirms
	ExtKey  *ecdsa.PrivateKey
	ExtAddr string // external-chain address (format of the chain)
}

func NewOracle(chain, name string) Oracle {
	h := sha256.Sum256([]byte("fxmc/ext/" + name))
	k, err := crypto.ToECDSA(h[:])
	if err != nil {
		panic(err)
	}
	o := Oracle{Name: name, Acct: world.NewActor(name), Bridger: world.NewActor(name + "-bridger"), ExtKey: k}
	o.ExtAddr = ExtAddrOf(chain, k)
	return o
}

// ExtAddrOf renders the external address of key for chain (tron uses base58).
func ExtAddrOf(chain string, k *ecdsa.PrivateKey) string {
	a := crypto.PubkeyToAddress(k.PublicKey)
	if chain == trontypes.ModuleName {
		return tronaddress.PubkeyToAddress(k.PublicKey).String()
	}
	return a.Hex()
}

// ExtAddr derives a deterministic external address (token contracts, users) for chain.
func ExtAddr(chain, label string) string {
	h := sha256.Sum256([]byte("fxmc/extaddr/" + label))
	k, err := crypto.ToECDSA(h[:])
	if err != nil {
		panic(err)
	}
	return ExtAddrOf(chain, k)
}

// Keeper returns the crosschain keeper of chain.
func Keeper(w *world.World, chain string) crosschainkeeper.Keeper {
	a := w.App
	switch chain {
	case "eth":
		return a.EthKeeper
	case "bsc":
		return a.BscKeeper
	case "polygon":
		return a.PolygonKeeper
	case "tron":
		return a.TronKeeper
	case "avalanche":
		return a.AvalancheKeeper
	case "arbitrum":
		return a.ArbitrumKeeper
	case "optimism":
		return a.OptimismKeeper
	case "layer2":
		return a.Layer2Keeper
	}
	panic("unknown chain " + chain)
}

var AllChains = []string{"eth", "bsc", "polygon", "tron", "avalanche", "arbitrum", "optimism", "layer2"}

// Approve sets the governance-approved oracle list of chain.
func Approve(w *world.World, ctx sdk.Context, chain string, oracles []Oracle) world.MsgResult {
	var addrs []string
	for _, o := range oracles {
		addrs = append(addrs, o.Acct.Bech())
	}
	return w.Deliver(ctx, &cctypes.MsgUpdateChainOracles{ChainName: chain, Authority: world.GovAuthority(), Oracles: addrs})
}

// BondMsg is the bonding message of o with stake whole FX to validator val.
func BondMsg(chain string, o Oracle, val sdk.ValAddress, stake sdkmath.Int) *cctypes.MsgBondedOracle {
	return &cctypes.MsgBondedOracle{
		ChainName:        chain,
		OracleAddress:    o.Acct.Bech(),
		BridgerAddress:   o.Bridger.Bech(),
		ExternalAddress:  o.ExtAddr,
		ValidatorAddress: val.String(),
		DelegateAmount:   cctypes.NewDelegateAmount(stake),
	}
}

// Fund sends whole FX from the rich genesis actor "bank" to addr (bank must be a genesis actor).
func Fund(w *world.World, ctx sdk.Context, to sdk.AccAddress, coins sdk.Coins) {
	if err := w.App.BankKeeper.SendCoins(ctx, w.A("bank").Acc(), to, coins); err != nil {
		panic(err)
	}
}

// SetupOracles approves and bonds n oracles on chain with the given stakes (whole FX).
func SetupOracles(w *world.World, ctx sdk.Context, chain string, names []string, stakes []int64) []Oracle {
	var os []Oracle
	for _, n := range names {
		os = append(os, NewOracle(chain, n))
	}
	if r := Approve(w, ctx, chain, os); !r.OK() {
		panic("approve: " + r.String())
	}
	for i, o := range os {
		Fund(w, ctx, o.Acct.Acc(), sdk.NewCoins(world.FXCoin(stakes[i]*3)))
		Fund(w, ctx, o.Bridger.Acc(), sdk.NewCoins(world.FXCoin(10)))
		if stakes[i] == 0 {
			continue // approved but not bonded
		}
		w.MustDeliver(ctx, BondMsg(chain, o, w.Vals[0].ValAddr(), world.FX(stakes[i])))
	}
	return os
}

// SetParams rewrites selected params of chain through MsgUpdateParams (gov authority).
func SetParams(w *world.World, ctx sdk.Context, chain string, mut func(p *cctypes.Params)) {
	k := Keeper(w, chain)
	p := k.GetParams(ctx)
	mut(&p)
	w.MustDeliver(ctx, &cctypes.MsgUpdateParams{ChainName: chain, Authority: world.GovAuthority(), Params: p})
}

// WrapClaim packs claim into the MsgClaim envelope signed by bridger.
func WrapClaim(chain string, bridger string, claim cctypes.ExternalClaim) *cctypes.MsgClaim {
	any, err := codectypes.NewAnyWithValue(claim)
	if err != nil {
		panic(err)
	}
	return &cctypes.MsgClaim{ChainName: chain, BridgerAddress: bridger, Claim: any}
}

func WrapConfirm(chain string, bridger string, c cctypes.Confirm) *cctypes.MsgConfirm {
	any, err := codectypes.NewAnyWithValue(c.(proto.Message))
	if err != nil {
		panic(err)
	}
	return &cctypes.MsgConfirm{ChainName: chain, BridgerAddress: bridger, Confirm: any}
}

// Sign signs checkpoint with the oracle's external key in the chain's format.
func Sign(chain string, key *ecdsa.PrivateKey, checkpoint []byte) string {
	var sig []byte
	var err error
	if chain == trontypes.ModuleName {
		sig, err = trontypes.NewTronSignature(checkpoint, key)
	} else {
		sig, err = cctypes.NewEthereumSignature(checkpoint, key)
	}
	if err != nil {
		panic(err)
	}
	return hex.EncodeToString(sig)
}

// OracleSetCheckpoint / BatchCheckpoint / BridgeCallCheckpoint compute the digest an oracle signs.
func OracleSetCheckpoint(chain, gravityID string, os *cctypes.OracleSet) []byte {
	var cp []byte
	var err error
	if chain == trontypes.ModuleName {
		cp, err = trontypes.GetCheckpointOracleSet(os, gravityID)
	} else {
		cp, err = os.GetCheckpoint(gravityID)
	}
	if err != nil {
		panic(err)
	}
	return cp
}

func BatchCheckpoint(chain, gravityID string, b *cctypes.OutgoingTxBatch) []byte {
	var cp []byte
	var err error
	if chain == trontypes.ModuleName {
		cp, err = trontypes.GetCheckpointConfirmBatch(b, gravityID)
	} else {
		cp, err = b.GetCheckpoint(gravityID)
	}
	if err != nil {
		panic(err)
	}
	return cp
}

func BridgeCallCheckpoint(chain, gravityID string, b *cctypes.OutgoingBridgeCall) []byte {
	var cp []byte
	var err error
	if chain == trontypes.ModuleName {
		cp, err = trontypes.GetCheckpointBridgeCall(b, gravityID)
	} else {
		cp, err = b.GetCheckpoint(gravityID)
	}
	if err != nil {
		panic(err)
	}
	return cp
}

func fmtErr(f string, a ...interface{}) error { return fmt.Errorf(f, a...) }

// *CheckpointE variants return the error instead of panicking (C12 feeds boundary values).
func OracleSetCheckpointE(chain, gravityID string, os *cctypes.OracleSet) ([]byte, error) {
	if chain == trontypes.ModuleName {
		return trontypes.GetCheckpointOracleSet(os, gravityID)
	}
	return os.GetCheckpoint(gravityID)
}

func BatchCheckpointE(chain, gravityID string, b *cctypes.OutgoingTxBatch) ([]byte, error) {
	if chain == trontypes.ModuleName {
		return trontypes.GetCheckpointConfirmBatch(b, gravityID)
	}
	return b.GetCheckpoint(gravityID)
}

func BridgeCallCheckpointE(chain, gravityID string, b *cctypes.OutgoingBridgeCall) ([]byte, error) {
	if chain == trontypes.ModuleName {
		return trontypes.GetCheckpointBridgeCall(b, gravityID)
	}
	return b.GetCheckpoint(gravityID)
}

// ExtAddrOfHex spells a 20-byte address the way chain writes its addresses.
func ExtAddrOfHex(chain string, a common.Address) string {
	return cctypes.ExternalAddrToStr(chain, a.Bytes())
}
