package scen

import (
	"fmt"
	"math/big"
	"strings"

	sdkmath "cosmossdk.io/math"
	sdk "github.com/cosmos/cosmos-sdk/types"
	"github.com/ethereum/go-ethereum/common"

	"github.com/functionx/fx-core/v8/contract"
	fxtypes "github.com/functionx/fx-core/v8/types"
	cctypes "github.com/functionx/fx-core/v8/x/crosschain/types"
	erc20types "github.com/functionx/fx-core/v8/x/erc20/types"

	"fxmc/world"
)

// Token describes one bridged token group.
type Token struct {
	Name     string            // "FX", "usdt", "tok"
	Base     string            // base denom
	Kind     string            // "fx" | "module" | "external"
	ERC20    common.Address    // ERC-20 form
	Ext      map[string]string // chain -> external token contract
	Bridge   map[string]string // chain -> bridge denom (FX for the FX token)
	Decimals uint64
}

// ERC20Addr returns the registered ERC-20 of denom.
func ERC20Addr(w *world.World, ctx sdk.Context, denom string) common.Address {
	p, ok := w.App.Erc20Keeper.GetTokenPair(ctx, denom)
	if !ok {
		panic("no token pair for " + denom)
	}
	return p.GetERC20Contract()
}

// RegisterFX registers the FX token of each chain through an observed bridge-token claim.
// nonces[chain] is the next event nonce of that chain and is advanced.
func RegisterFX(w *world.World, ctx sdk.Context, oracles map[string][]Oracle, nonces map[string]uint64, height uint64) Token {
	t := Token{Name: "FX", Base: fxtypes.DefaultDenom, Kind: "fx", Ext: map[string]string{}, Bridge: map[string]string{}, Decimals: 18}
	for ch, os := range oracles {
		tok := ExtAddr(ch, ch+"-fx-token")
		t.Ext[ch] = tok
		t.Bridge[ch] = fxtypes.DefaultDenom
		nonces[ch]++
		Observe(w, ctx, ch, os, BridgeTokenClaim(ch, nonces[ch], height, tok, "Function X", "FX", 18, ""))
	}
	t.ERC20 = ERC20Addr(w, ctx, fxtypes.DefaultDenom)
	return t
}

// RegisterModuleToken registers a module-owned pair (MsgRegisterCoin, gov authority) with one alias per chain
// and has each chain observe the bridge token.
func RegisterModuleToken(w *world.World, ctx sdk.Context, symbol string, oracles map[string][]Oracle, nonces map[string]uint64, height uint64) Token {
	base := strings.ToLower(symbol)
	t := Token{Name: base, Base: base, Kind: "module", Ext: map[string]string{}, Bridge: map[string]string{}, Decimals: 6}
	var aliases []string
	for _, ch := range sortedChains(oracles) {
		tok := ExtAddr(ch, ch+"-"+base+"-token")
		t.Ext[ch] = tok
		t.Bridge[ch] = cctypes.NewBridgeDenom(ch, tok)
		aliases = append(aliases, t.Bridge[ch])
	}
	md := fxtypes.GetCrossChainMetadataManyToOne(symbol+" Token", symbol, 6, aliases...)
	w.MustDeliver(ctx, &erc20types.MsgRegisterCoin{Authority: world.GovAuthority(), Metadata: md})
	for _, ch := range sortedChains(oracles) {
		nonces[ch]++
		Observe(w, ctx, ch, oracles[ch], BridgeTokenClaim(ch, nonces[ch], height, t.Ext[ch], symbol+" Token", symbol, 6, ""))
	}
	t.ERC20 = ERC20Addr(w, ctx, base)
	return t
}

// RegisterExternalToken deploys a FIP20 token owned by owner (initial supply minted to owner), registers it as an
// externally-owned pair with one alias per chain and has each chain observe the bridge token.
func RegisterExternalToken(w *world.World, ctx sdk.Context, owner world.Actor, symbol string, supply int64, oracles map[string][]Oracle, nonces map[string]uint64, height uint64) Token {
	base := strings.ToLower(symbol)
	t := Token{Name: base, Base: base, Kind: "external", Ext: map[string]string{}, Bridge: map[string]string{}, Decimals: 18}
	fip := contract.GetFIP20()
	addr, err := w.App.EvmKeeper.DeployUpgradableContract(ctx, owner.Hex(), fip.Address, nil, &fip.ABI, symbol+" Token", symbol, uint8(18), owner.Hex())
	if err != nil {
		panic(err)
	}
	if r := w.CallABI(ctx, owner, addr, fip.ABI, nil, 300000, "mint", owner.Hex(), big.NewInt(supply)); !r.Success() {
		panic("mint: " + r.String())
	}
	t.ERC20 = addr
	var aliases []string
	for _, ch := range sortedChains(oracles) {
		tok := ExtAddr(ch, ch+"-"+base+"-token")
		t.Ext[ch] = tok
		t.Bridge[ch] = cctypes.NewBridgeDenom(ch, tok)
		aliases = append(aliases, t.Bridge[ch])
	}
	w.MustDeliver(ctx, &erc20types.MsgRegisterERC20{Authority: world.GovAuthority(), Erc20Address: addr.String(), Aliases: aliases})
	for _, ch := range sortedChains(oracles) {
		nonces[ch]++
		Observe(w, ctx, ch, oracles[ch], BridgeTokenClaim(ch, nonces[ch], height, t.Ext[ch], symbol+" Token", symbol, 18, ""))
	}
	return t
}

func sortedChains(m map[string][]Oracle) []string {
	var out []string
	for _, ch := range AllChains {
		if _, ok := m[ch]; ok {
			out = append(out, ch)
		}
	}
	return out
}

// BalanceOf returns the ERC-20 balance of holder.
func BalanceOf(w *world.World, ctx sdk.Context, token common.Address, holder common.Address) sdkmath.Int {
	b, err := w.App.EvmKeeper.ERC20BalanceOf(ctx, token, holder)
	if err != nil {
		panic(fmt.Sprintf("balanceOf %s: %v", token, err))
	}
	return sdkmath.NewIntFromBigInt(b)
}

// TotalSupply of an ERC-20.
func TotalSupply(w *world.World, ctx sdk.Context, token common.Address) sdkmath.Int {
	var res struct{ Value *big.Int }
	if err := w.Query(ctx, common.BytesToAddress(w.A("bank").Acc()), token, contract.GetFIP20().ABI, &res, "totalSupply"); err != nil {
		panic(err)
	}
	return sdkmath.NewIntFromBigInt(res.Value)
}

// Holdings is everything acct holds of token t: base coin + every bridge denom + ERC-20 balance.
func Holdings(w *world.World, ctx sdk.Context, t Token, acct sdk.AccAddress) sdkmath.Int {
	sum := w.App.BankKeeper.GetBalance(ctx, acct, t.Base).Amount
	for _, bd := range t.Bridge {
		if bd != t.Base {
			sum = sum.Add(w.App.BankKeeper.GetBalance(ctx, acct, bd).Amount)
		}
	}
	if t.Kind == "fx" {
		// WFX balance (the native coin itself is the EVM balance)
		return sum.Add(BalanceOf(w, ctx, t.ERC20, common.BytesToAddress(acct)))
	}
	return sum.Add(BalanceOf(w, ctx, t.ERC20, common.BytesToAddress(acct)))
}
