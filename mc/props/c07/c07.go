// Package c07: block processing never halts.
package c07

import (
	"fmt"
	"os"
	"regexp"
	"strings"
	"time"

	sdkmath "cosmossdk.io/math"
	codectypes "github.com/cosmos/cosmos-sdk/codec/types"
	sdk "github.com/cosmos/cosmos-sdk/types"
	govv1 "github.com/cosmos/cosmos-sdk/x/gov/types/v1"

	cctypes "github.com/functionx/fx-core/v8/x/crosschain/types"
	fxgovtypes "github.com/functionx/fx-core/v8/x/gov/types"

	"fxmc/explore"
	"fxmc/scen"
	"fxmc/world"
)

const Window = 2

type Spec struct {
	Chains  []string // chain modules with obligations
	NOracle int
	Gov     bool
	GovOnly bool // governance operations and blocks only (the bridge obligations have their own job)
	// DustStake: governance has lowered the delegate threshold below one power unit and every oracle is bonded with this
	// many FX (< 100): all oracles are online with power zero
	DustStake int64
	w         *world.World
	oracles   map[string][]scen.Oracle
	token     map[string]string // FX token contract on each chain
}

func (s *Spec) Name() string {
	return fmt.Sprintf("c07/%s/o%d/gov=%v/govonly=%v/dust=%d", strings.Join(s.Chains, "+"), s.NOracle, s.Gov, s.GovOnly, s.DustStake)
}

func (s *Spec) Init() *explore.State {
	w := world.New(world.Config{Validators: 2, Actors: []string{"bank", "u1"}})
	s.w = w
	s.oracles = map[string][]scen.Oracle{}
	s.token = map[string]string{}
	ctx := w.Root
	for _, ch := range s.Chains {
		var names []string
		var stakes []int64
		for i := 0; i < s.NOracle; i++ {
			names = append(names, fmt.Sprintf("%s-o%d", ch, i+1))
			stakes = append(stakes, 10000)
			if s.DustStake > 0 {
				stakes[i] = s.DustStake
			}
		}
		if s.DustStake > 0 {
			scen.SetParams(w, ctx, ch, func(p *cctypes.Params) { p.DelegateThreshold = cctypes.NewDelegateAmount(world.FX(s.DustStake)) })
		}
		os := scen.SetupOracles(w, ctx, ch, names, stakes)
		s.oracles[ch] = os
		scen.SetParams(w, ctx, ch, func(p *cctypes.Params) { p.SignedWindow = Window })
		tok := scen.ExtAddr(ch, ch+"-fx-token")
		s.token[ch] = tok
		// first external event: the FX token of this chain is registered (observed height 100)
		scen.Observe(w, ctx, ch, os, scen.BridgeTokenClaim(ch, 1, 100, tok, "Function X", "FX", 18, ""))
	}
	if s.Gov {
		// expedited proposals need their minimum deposit in the chain's own denom
		gp, err := w.App.GovKeeper.Params.Get(ctx)
		if err != nil {
			panic(err)
		}
		gp.ExpeditedMinDeposit = sdk.NewCoins(world.FXCoin(20000))
		w.MustDeliver(ctx, &govv1.MsgUpdateParams{Authority: world.GovAuthority(), Params: gp})
	}
	return &explore.State{W: w, Ctx: ctx, Model: explore.NoModel{}}
}

var fnRe = regexp.MustCompile(`fx-core/v8/([A-Za-z0-9_/.()*]+)`)

func haltSignature(stack string) string {
	for _, l := range strings.Split(stack, "\n") {
		if m := fnRe.FindStringSubmatch(l); m != nil && !strings.Contains(l, ".go:") {
			f := m[1]
			if strings.Contains(f, "world") {
				continue
			}
			return strings.TrimSuffix(f, "(")
		}
	}
	return "unknown"
}

func (s *Spec) blockOp(name string, dt time.Duration) explore.Op {
	return explore.Op{Name: name, Run: func(st *explore.State) {
		next, res := s.w.NextBlock(st.Ctx, dt)
		st.Ctx = next
		if os.Getenv("FXMC_DEBUG") != "" {
			for id := uint64(1); id < 4; id++ {
				if pr, err := s.w.App.GovKeeper.Proposals.Get(next, id); err == nil {
					fmt.Fprintf(os.Stderr, "DEBUG after %s: proposal %d status %s reason %q end %v\n", name, id, pr.Status, pr.FailedReason, pr.VotingEndTime)
				}
			}
		}
		switch {
		case res.Panic != nil:
			st.Outcome = "panic"
			st.Violate("block-never-halts", "C07/halt/"+haltSignature(res.Stack), fmt.Sprintf("block boundary panicked: %v\n%s", res.Panic, res.Stack))
		case res.Err != nil:
			st.Outcome = "error"
			st.Violate("block-never-halts", "C07/halt-error", "block boundary returned error: "+res.Err.Error())
		default:
			st.Accepted = true
			st.Outcome = "ok"
		}
	}}
}

func (s *Spec) msgOp(name string, build func(ctx sdk.Context) sdk.Msg) explore.Op {
	return explore.Op{Name: name, Run: func(st *explore.State) {
		msg := build(st.Ctx)
		if msg == nil {
			st.Outcome = "n/a"
			return
		}
		r := s.w.Deliver(st.Ctx, msg)
		st.Accepted = r.OK()
		if r.Panic != nil {
			st.Outcome = "tx-panic"
		} else if r.Err != nil {
			st.Outcome = "rejected"
		} else {
			st.Outcome = "ok"
		}
	}}
}

func (s *Spec) Ops(st *explore.State) []explore.Op {
	ctx := st.Ctx
	ops := []explore.Op{s.blockOp("Block", 5*time.Second)}
	u1 := s.w.A("u1")
	for _, ch := range s.Chains {
		if s.GovOnly {
			break
		}
		ch := ch
		k := scen.Keeper(s.w, ch)
		os := s.oracles[ch]
		gid := k.GetGravityID(ctx)
		// outgoing bridge calls (at most 2 ever created)
		if scen.LastBridgeCallID(s.w, ctx, ch) < 2 {
			ops = append(ops, s.msgOp("BridgeCallOut("+ch+")", func(sdk.Context) sdk.Msg {
				return &cctypes.MsgBridgeCall{ChainName: ch, Sender: u1.Bech(), Refund: u1.Bech(), To: scen.ExtAddr(ch, "callee"), Data: "00", Value: sdkmath.ZeroInt()}
			}))
		}
		// pool + batch (at most 1 transfer, 1 batch)
		if scen.LastTxPoolID(s.w, ctx, ch) < 1 {
			ops = append(ops, s.msgOp("SendExt("+ch+")", func(sdk.Context) sdk.Msg {
				return &cctypes.MsgSendToExternal{ChainName: ch, Sender: u1.Bech(), Dest: scen.ExtAddr(ch, "u1-ext"), Amount: sdk.NewInt64Coin("FX", 5), BridgeFee: sdk.NewInt64Coin("FX", 1)}
			}))
		}
		if len(k.GetUnbatchedTransactions(ctx)) > 0 {
			ops = append(ops, s.msgOp("ReqBatch("+ch+")", func(sdk.Context) sdk.Msg {
				return &cctypes.MsgRequestBatch{ChainName: ch, Sender: os[0].Bridger.Bech(), Denom: "FX", MinimumFee: sdkmath.NewInt(1), FeeReceive: scen.ExtAddr(ch, "feercv"), BaseFee: sdkmath.ZeroInt()}
			}))
		}
		// the external chain reports that it switched to the latest oracle set (every oracle that is allowed to votes for the
		// event): from then on older oracle sets and their confirmations are pruned by the end-blocker once the signed window
		// has passed. "far": the event carries an external height beyond every timeout (batches cancelled, bridge calls refunded)
		if osn := k.GetLatestOracleSet(ctx); osn != nil {
			if lo := k.GetLastObservedOracleSet(ctx); lo == nil || lo.Nonce < osn.Nonce {
				for _, far := range []bool{false, true} {
					far := far
					name := "ObserveOracleSet(" + ch + ")"
					if far {
						name = "ObserveOracleSet(" + ch + ",far-external-height)"
					}
					ops = append(ops, explore.Op{Name: name, Run: func(st *explore.State) {
						kk := scen.Keeper(s.w, ch)
						set := kk.GetLatestOracleSet(st.Ctx)
						n := kk.GetLastObservedEventNonce(st.Ctx) + 1
						h := kk.GetLastObservedBlockHeight(st.Ctx).ExternalBlockHeight + 1
						if far {
							h += 100_000_000
						}
						st.Outcome = "not-observed"
						for _, o := range os {
							if last := kk.GetLastEventNonceByOracle(st.Ctx, o.Acct.Acc()); last+1 != n {
								continue
							}
							r := scen.Vote(s.w, st.Ctx, ch, o, &cctypes.MsgOracleSetUpdatedClaim{EventNonce: n, BlockHeight: h, OracleSetNonce: set.Nonce, Members: set.Members, ChainName: ch})
							if r.Panic != nil {
								st.Outcome = "tx-panic"
							}
						}
						if kk.GetLastObservedEventNonce(st.Ctx) == n {
							st.Accepted, st.Outcome = true, "observed"
						}
					}})
				}
			}
		}
		for i, o := range os {
			o := o
			tag := fmt.Sprintf("%s,o%d", ch, i+1)
			// confirm the oldest outgoing bridge call this oracle has not confirmed
			var bc *cctypes.OutgoingBridgeCall
			k.IterateOutgoingBridgeCalls(ctx, func(c *cctypes.OutgoingBridgeCall) bool {
				if !k.HasBridgeCallConfirm(ctx, c.Nonce, o.Acct.Acc()) {
					bc = c
					return true
				}
				return false
			})
			if bc != nil {
				bcc := bc
				ops = append(ops, s.msgOp("ConfirmBC("+tag+")", func(sdk.Context) sdk.Msg {
					return &cctypes.MsgBridgeCallConfirm{ChainName: ch, BridgerAddress: o.Bridger.Bech(), ExternalAddress: o.ExtAddr, Nonce: bcc.Nonce,
						Signature: scen.Sign(ch, o.ExtKey, scen.BridgeCallCheckpoint(ch, gid, bcc))}
				}))
			}
			var batch *cctypes.OutgoingTxBatch
			k.IterateOutgoingTxBatches(ctx, func(b *cctypes.OutgoingTxBatch) bool {
				if k.GetBatchConfirm(ctx, b.TokenContract, b.BatchNonce, o.Acct.Acc()) == nil {
					batch = b
					return true
				}
				return false
			})
			if batch != nil {
				b := batch
				ops = append(ops, s.msgOp("ConfirmBatch("+tag+")", func(sdk.Context) sdk.Msg {
					return &cctypes.MsgConfirmBatch{ChainName: ch, BridgerAddress: o.Bridger.Bech(), ExternalAddress: o.ExtAddr, Nonce: b.BatchNonce, TokenContract: b.TokenContract,
						Signature: scen.Sign(ch, o.ExtKey, scen.BatchCheckpoint(ch, gid, b))}
				}))
			}
			if osn := k.GetLatestOracleSet(ctx); osn != nil && k.GetOracleSetConfirm(ctx, osn.Nonce, o.Acct.Acc()) == nil {
				ops = append(ops, s.msgOp("ConfirmOS("+tag+")", func(sdk.Context) sdk.Msg {
					return &cctypes.MsgOracleSetConfirm{ChainName: ch, BridgerAddress: o.Bridger.Bech(), ExternalAddress: o.ExtAddr, Nonce: osn.Nonce,
						Signature: scen.Sign(ch, o.ExtKey, scen.OracleSetCheckpoint(ch, gid, osn))}
				}))
			}
			// stake top-up: pays the penalty and brings a slashed oracle back online (bounded by the stake cap)
			if orc, ok := k.GetOracle(ctx, o.Acct.Acc()); ok && (!orc.Online || i == 0) && orc.DelegateAmount.LT(world.FX(30000)) {
				ops = append(ops, s.msgOp("AddDelegate("+tag+")", func(sdk.Context) sdk.Msg {
					return &cctypes.MsgAddDelegate{ChainName: ch, OracleAddress: o.Acct.Bech(), Amount: cctypes.NewDelegateAmount(world.FX(9000))}
				}))
				// the smallest top-up that changes the oracle's power (one power unit): the oracle set drifts by a fraction of a percent
				ops = append(ops, s.msgOp("AddDelegate("+tag+",one-power-unit)", func(sdk.Context) sdk.Msg {
					return &cctypes.MsgAddDelegate{ChainName: ch, OracleAddress: o.Acct.Bech(), Amount: cctypes.NewDelegateAmount(world.FX(100))}
				}))
			}
		}
	}
	if s.Gov {
		ops = append(ops, s.govOps(st)...)
	}
	return ops
}

func (s *Spec) govOps(st *explore.State) []explore.Op {
	ctx := st.Ctx
	var ops []explore.Op
	gk := s.w.App.GovKeeper
	n, _ := gk.ProposalID.Peek(ctx)
	ch := s.Chains[0]
	if n <= 2 { // at most two proposals ever
		kinds := []string{"params", "failing", "storeCAS", "text"}
		if n <= 1 {
			// per-message-type rules for the type of the "params" proposal, in every shape a stored entry can take: a later
			// proposal of that type is activated, timed and tallied with whatever got stored
			kinds = append(kinds, "custom(valid)", "custom(empty-quorum)", "custom(empty-ratio)", "custom(no-period)", "custom(zero-period)", "custom(zero-quorum)", "custom(all-empty)")
		}
		// a proposal that makes the governance account itself a depositor of another proposal that is still open
		// (its refund at that proposal's end goes to the governance account)
		var openID uint64
		for id := uint64(1); id < n; id++ {
			if pr, err := gk.Proposals.Get(ctx, id); err == nil && (pr.Status == govv1.StatusDepositPeriod || pr.Status == govv1.StatusVotingPeriod) {
				openID = id
				break
			}
		}
		if openID > 0 {
			kinds = append(kinds, "gov-account-deposits-into-open-proposal")
		}
		if n <= 1 {
			// ... or of the proposal that will be submitted next (it is open by the time this one is executed)
			kinds = append(kinds, "gov-account-deposits-into-next-proposal")
		}
		for _, kind := range kinds {
			kind := kind
			ops = append(ops, explore.Op{Name: "GovPass(" + kind + ")", Run: func(c *explore.State) {
				var msgs []sdk.Msg
				switch kind {
				case "gov-account-deposits-into-open-proposal":
					msgs = []sdk.Msg{&govv1.MsgDeposit{ProposalId: openID, Depositor: world.GovAuthority(), Amount: sdk.NewCoins(world.FXCoin(100))}}
				case "gov-account-deposits-into-next-proposal":
					msgs = []sdk.Msg{&govv1.MsgDeposit{ProposalId: n + 1, Depositor: world.GovAuthority(), Amount: sdk.NewCoins(world.FXCoin(100))}}
				case "params":
					p := scen.Keeper(s.w, ch).GetParams(c.Ctx)
					p.AverageBlockTime = 6000
					msgs = []sdk.Msg{&cctypes.MsgUpdateParams{ChainName: ch, Authority: world.GovAuthority(), Params: p}}
				case "failing":
					// removes every oracle at once: exceeds the 30% power-change cap at execution
					msgs = []sdk.Msg{&cctypes.MsgUpdateChainOracles{ChainName: ch, Authority: world.GovAuthority(), Oracles: []string{s.w.A("u1").Bech()}}}
				case "storeCAS":
					msgs = []sdk.Msg{&fxgovtypes.MsgUpdateStore{Authority: world.GovAuthority(), UpdateStores: []fxgovtypes.UpdateStore{{Space: "eth", Key: "ff", OldValue: "01", Value: "02"}}}}
				case "text":
				default: // custom(...)
					hour := time.Hour
					zero := time.Duration(0)
					cp := fxgovtypes.CustomParams{DepositRatio: "0.1", VotingPeriod: &hour, Quorum: "0.3"}
					switch kind {
					case "custom(empty-quorum)":
						cp.Quorum = ""
					case "custom(empty-ratio)":
						cp.DepositRatio = ""
					case "custom(no-period)":
						cp.VotingPeriod = nil
					case "custom(zero-period)":
						cp.VotingPeriod = &zero
					case "custom(zero-quorum)":
						cp.Quorum = "0"
					case "custom(all-empty)":
						cp = fxgovtypes.CustomParams{}
					}
					msgs = []sdk.Msg{&fxgovtypes.MsgUpdateCustomParams{Authority: world.GovAuthority(), MsgUrl: sdk.MsgTypeURL(&cctypes.MsgUpdateParams{}), CustomParams: cp}}
				}
				var anys []*codectypes.Any
				for _, m := range msgs {
					a, err := codectypes.NewAnyWithValue(m)
					if err != nil {
						panic(err)
					}
					anys = append(anys, a)
				}
				sub := &govv1.MsgSubmitProposal{Messages: anys, InitialDeposit: sdk.NewCoins(world.FXCoin(10000)), Proposer: s.w.A("u1").Bech(), Title: "t", Summary: "s", Metadata: "m"}
				r := s.w.Deliver(c.Ctx, sub)
				if !r.OK() {
					c.Outcome = "submit-rejected"
					return
				}
				id, _ := gk.ProposalID.Peek(c.Ctx)
				id--
				for _, v := range s.w.Vals {
					vr := s.w.Deliver(c.Ctx, govv1.NewMsgVote(v.Operator.Acc(), id, govv1.OptionYes, ""))
					if !vr.OK() {
						c.Outcome = "vote-rejected"
						return
					}
				}
				c.Accepted = true
				c.Outcome = "ok"
			}})
		}
	}
	if n <= 2 {
		// text proposals with every shape of tally the end-blocker has to survive: nobody votes, everybody abstains,
		// all no, all veto, a weighted split, one validator yes and the other abstaining
		type ballot struct {
			who int
			opt govv1.WeightedVoteOptions
		}
		one := func(o govv1.VoteOption) govv1.WeightedVoteOptions { return govv1.NewNonSplitVoteOption(o) }
		split := govv1.WeightedVoteOptions{
			{Option: govv1.OptionYes, Weight: "0.25"}, {Option: govv1.OptionAbstain, Weight: "0.25"},
			{Option: govv1.OptionNo, Weight: "0.25"}, {Option: govv1.OptionNoWithVeto, Weight: "0.25"},
		}
		profiles := []struct {
			name    string
			ballots []ballot
		}{
			{"nobody", nil},
			{"all-abstain", []ballot{{0, one(govv1.OptionAbstain)}, {1, one(govv1.OptionAbstain)}}},
			{"all-no", []ballot{{0, one(govv1.OptionNo)}, {1, one(govv1.OptionNo)}}},
			{"all-veto", []ballot{{0, one(govv1.OptionNoWithVeto)}, {1, one(govv1.OptionNoWithVeto)}}},
			{"split", []ballot{{0, split}, {1, split}}},
			{"yes+abstain", []ballot{{0, one(govv1.OptionYes)}, {1, one(govv1.OptionAbstain)}}},
			{"abstain-only-one", []ballot{{0, one(govv1.OptionAbstain)}}},
		}
		for _, pf := range profiles {
			pf := pf
			ops = append(ops, explore.Op{Name: "GovBallots(" + pf.name + ")", Run: func(c *explore.State) {
				sub := &govv1.MsgSubmitProposal{InitialDeposit: sdk.NewCoins(world.FXCoin(10000)), Proposer: s.w.A("u1").Bech(), Title: "t", Summary: "s", Metadata: "m"}
				if r := s.w.Deliver(c.Ctx, sub); !r.OK() {
					c.Outcome = "submit-rejected"
					return
				}
				id, _ := gk.ProposalID.Peek(c.Ctx)
				id--
				for _, b := range pf.ballots {
					if b.who >= len(s.w.Vals) {
						continue
					}
					if vr := s.w.Deliver(c.Ctx, govv1.NewMsgVoteWeighted(s.w.Vals[b.who].Operator.Acc(), id, b.opt, "")); !vr.OK() {
						c.Outcome = "vote-rejected"
						return
					}
				}
				c.Accepted = true
				c.Outcome = "ok"
			}})
		}
	}
	if n <= 2 {
		// expedited proposals: one that nobody votes on (it is converted to a regular proposal when its short period ends)
		// and one that passes in the short period
		for _, yes := range []bool{false, true} {
			yes := yes
			ops = append(ops, explore.Op{Name: fmt.Sprintf("GovExpedited(yes=%v)", yes), Run: func(c *explore.State) {
				sub := &govv1.MsgSubmitProposal{InitialDeposit: sdk.NewCoins(world.FXCoin(20000)), Proposer: s.w.A("u1").Bech(), Title: "t", Summary: "s", Metadata: "m", Expedited: true}
				if r := s.w.Deliver(c.Ctx, sub); !r.OK() {
					c.Outcome = "submit-rejected"
					return
				}
				id, _ := gk.ProposalID.Peek(c.Ctx)
				id--
				if yes {
					for _, v := range s.w.Vals {
						if vr := s.w.Deliver(c.Ctx, govv1.NewMsgVote(v.Operator.Acc(), id, govv1.OptionYes, "")); !vr.OK() {
							c.Outcome = "vote-rejected"
							return
						}
					}
				}
				c.Accepted = true
				c.Outcome = "ok"
			}})
		}
	}
	if n > 1 {
		// the proposer withdraws a proposal that is still open
		for id := uint64(1); id < n; id++ {
			id := id
			if p, err := gk.Proposals.Get(ctx, id); err == nil && (p.Status == govv1.StatusVotingPeriod || p.Status == govv1.StatusDepositPeriod) {
				ops = append(ops, s.msgOp(fmt.Sprintf("GovCancel(%d)", id), func(sdk.Context) sdk.Msg {
					return &govv1.MsgCancelProposal{ProposalId: id, Proposer: s.w.A("u1").Bech()}
				}))
			}
		}
		ops = append(ops, s.blockOp("Jump1d", 24*time.Hour+time.Minute), s.blockOp("Jump15d", 15*24*time.Hour))
	}
	return ops
}

// Check runs the look-ahead probe: from every distinct state the chain must survive
// Window+3 empty blocks and one jump past the governance periods.
func (s *Spec) Check(st *explore.State) {
	ctx := world.Branch(st.Ctx)
	for i := 0; i < Window+3; i++ {
		next, res := s.w.NextBlock(ctx, 5*time.Second)
		if res.Panic != nil {
			st.Violate("lookahead-empty-blocks", "C07/halt/"+haltSignature(res.Stack), fmt.Sprintf("empty block %d after this state panicked: %v\n%s", i+1, res.Panic, res.Stack))
			return
		}
		if res.Err != nil {
			st.Violate("lookahead-empty-blocks", "C07/halt-error", fmt.Sprintf("empty block %d after this state failed: %v", i+1, res.Err))
			return
		}
		ctx = next
	}
	if s.Gov {
		_, res := s.w.NextBlock(ctx, 15*24*time.Hour)
		if res.Panic != nil {
			st.Violate("lookahead-gov-jump", "C07/halt/"+haltSignature(res.Stack), fmt.Sprintf("block after governance periods panicked: %v\n%s", res.Panic, res.Stack))
		} else if res.Err != nil {
			st.Violate("lookahead-gov-jump", "C07/halt-error", "block after governance periods failed: "+res.Err.Error())
		}
	}
}

func (s *Spec) Counters(st *explore.State) []string {
	var out []string
	ctx := st.Ctx
	for _, ch := range s.Chains {
		k := scen.Keeper(s.w, ch)
		if scen.LastBridgeCallID(s.w, ctx, ch) > 0 {
			out = append(out, "has-bridge-call")
		}
		if len(k.GetOutgoingTxBatches(ctx)) > 0 {
			out = append(out, "has-batch")
		}
		if len(k.GetAllOracles(ctx, true)) < s.NOracle {
			out = append(out, "has-offline-oracle")
		}
		if k.GetLatestOracleSetNonce(ctx) > 1 {
			out = append(out, "oracle-set>1")
		}
	}
	if s.Gov {
		if n, _ := s.w.App.GovKeeper.ProposalID.Peek(ctx); n > 1 {
			out = append(out, "has-proposal")
		}
	}
	return out
}
