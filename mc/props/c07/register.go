package c07

import "fxmc/props/registry"

func init() {
	registry.Register(&registry.Check{
		ID:    "C07",
		Level: "model_checking",
		Rule:  "explicit-state DFS over real handlers + real End/BeginBlocker on store branches; in every distinct state a look-ahead probe runs signedWindow+3 empty blocks (and a jump past the gov periods); a state is non-trivial if it holds at least one pending obligation (bridge call, batch, offline oracle, newer oracle set, proposal)",
		Assumptions: []string{
			"block boundaries are emulated on a store branch (real EndBlocker, volatile stores cleared, real PreBlocker/BeginBlocker); conformance of that emulation is checked by replaying traces through real FinalizeBlock+Commit",
			"signed window lowered to 2 through MsgUpdateParams so that aged states are within the depth bound",
			"alphabet: <=2 outgoing bridge calls, <=1 pool transfer/batch per chain, <=2 proposals",
		},
		Jobs: func(tier string) []registry.Job {
			if tier == "thorough" {
				return []registry.Job{
					{Name: "eth-3o-gov", Spec: &Spec{Chains: []string{"eth"}, NOracle: 3, Gov: true}, Depth: 5, ShardDepth: 2},
					{Name: "eth-2o-governance", Spec: &Spec{Chains: []string{"eth"}, NOracle: 2, Gov: true, GovOnly: true}, Depth: 7, ShardDepth: 2},
					{Name: "eth-3o-zero-power-oracles", Spec: &Spec{Chains: []string{"eth"}, NOracle: 3, DustStake: 50}, Depth: 6, ShardDepth: 2},
					{Name: "tron-2o", Spec: &Spec{Chains: []string{"tron"}, NOracle: 2}, Depth: 7, ShardDepth: 2},
					{Name: "eth+bsc-2o", Spec: &Spec{Chains: []string{"eth", "bsc"}, NOracle: 2}, Depth: 6, ShardDepth: 2},
				}
			}
			return []registry.Job{
				{Name: "eth-2o-obligations", Spec: &Spec{Chains: []string{"eth"}, NOracle: 2}, Depth: 5, ShardDepth: 2},
				{Name: "eth-2o-governance", Spec: &Spec{Chains: []string{"eth"}, NOracle: 2, Gov: true, GovOnly: true}, Depth: 5, ShardDepth: 2},
				{Name: "eth-2o-mixed", Spec: &Spec{Chains: []string{"eth"}, NOracle: 2, Gov: true}, Depth: 3, ShardDepth: 2},
				{Name: "eth-2o-zero-power-oracles", Spec: &Spec{Chains: []string{"eth"}, NOracle: 2, DustStake: 50}, Depth: 4, ShardDepth: 1},
			}
		},
	})
}
