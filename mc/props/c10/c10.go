// Package c10: precompiles act only for their direct caller and only in a writable call context.
package c10

import (
	"encoding/hex"
	"fmt"
	"math/big"
	"sort"
	"strings"
	"time"

	sdkmath "cosmossdk.io/math"
	sdk "github.com/cosmos/cosmos-sdk/types"
	"github.com/ethereum/go-ethereum/accounts/abi"
	"github.com/ethereum/go-ethereum/common"

	"github.com/functionx/fx-core/v8/contract"
	cctypes "github.com/functionx/fx-core/v8/x/crosschain/types"
	erc20types "github.com/functionx/fx-core/v8/x/erc20/types"
	fxgovtypes "github.com/functionx/fx-core/v8/x/gov/types"
	fxstakingtypes "github.com/functionx/fx-core/v8/x/staking/types"

	"fxmc/evmasm"
	"fxmc/explore"
	"fxmc/props/registry"
	"fxmc/scen"
	"fxmc/world"
)

type env struct {
	w       *world.World
	ctx     sdk.Context
	v, s, m world.Actor
	usdt    scen.Token
	val     sdk.ValAddress
	chain   string
}

func e18(n int64) *big.Int { return new(big.Int).Mul(big.NewInt(n), big.NewInt(1e18)) }

func setup(slashed bool) *env {
	w := world.New(world.Config{Validators: 2, Actors: []string{"bank", "v", "s", "m", "rel"}})
	ctx := w.Root
	e := &env{w: w, ctx: ctx, v: w.A("v"), s: w.A("s"), m: w.A("m"), val: w.Vals[0].ValAddr(), chain: "eth"}
	os := map[string][]scen.Oracle{"eth": scen.SetupOracles(w, ctx, "eth", []string{"eth-o1"}, []int64{10000})}
	nonces := map[string]uint64{}
	scen.RegisterFX(w, ctx, os, nonces, 1000)
	e.usdt = scen.RegisterModuleToken(w, ctx, "USDT", os, nonces, 1000)
	// victim and attacker hold usdt (deposited through observed events)
	n := nonces["eth"]
	for _, who := range []world.Actor{e.v, e.m} {
		n++
		scen.Observe(w, ctx, "eth", os["eth"], scen.SendToFxClaim("eth", n, 1000, e.usdt.Ext["eth"], 100, scen.ExtAddr("eth", "depositor"), who.Acc(), "", ""))
		if r := w.CallABI(ctx, w.A("rel"), cctypes.GetAddress(), cctypes.GetABI(), nil, 800000, "executeClaim", "eth", new(big.Int).SetUint64(n)); !r.Success() {
			panic(r.String())
		}
	}
	stABI, stAddr := fxstakingtypes.GetABI(), fxstakingtypes.GetAddress()
	must := func(r world.EthResult) {
		if !r.Success() {
			panic("setup: " + r.String())
		}
	}
	// victim portfolio: delegation, allowance to s, pool entry, ERC-20 balance approved to the precompile
	must(w.CallABI(ctx, e.v, stAddr, stABI, nil, 3_000_000, "delegateV2", e.val.String(), e18(100)))
	must(w.CallABI(ctx, e.v, stAddr, stABI, nil, 3_000_000, "approveShares", e.val.String(), e.s.Hex(), e18(40)))
	w.MustDeliver(ctx, &cctypes.MsgSendToExternal{ChainName: "eth", Sender: e.v.Bech(), Dest: scen.ExtAddr("eth", "v-ext"), Amount: sdk.NewInt64Coin("FX", 2), BridgeFee: sdk.NewInt64Coin("FX", 1)})
	w.MustDeliver(ctx, &erc20types.MsgConvertCoin{Coin: sdk.NewInt64Coin("usdt", 50), Receiver: e.v.Hex().String(), Sender: e.v.Bech()})
	must(w.CallABI(ctx, e.v, e.usdt.ERC20, contract.GetFIP20().ABI, nil, 300000, "approve", cctypes.GetAddress(), big.NewInt(50)))
	// the attacker has its own stake and tokens, so that failures are about authorization, not about missing funds
	must(w.CallABI(ctx, e.m, stAddr, stABI, nil, 3_000_000, "delegateV2", e.val.String(), e18(100)))
	w.MustDeliver(ctx, &erc20types.MsgConvertCoin{Coin: sdk.NewInt64Coin("usdt", 50), Receiver: e.m.Hex().String(), Sender: e.m.Bech()})
	if slashed {
		// the validator lost half of its tokens: one share is now worth half a token, so amounts counted in shares
		// (delegations, allowances) and amounts counted in tokens differ
		val, _ := w.App.StakingKeeper.GetValidator(ctx, e.val)
		power := sdk.TokensToConsensusPower(val.Tokens, sdk.DefaultPowerReduction)
		if _, err := w.App.StakingKeeper.Slash(ctx, w.Vals[0].ConsAddr(), ctx.BlockHeight(), power, sdkmath.LegacyNewDecWithPrec(5, 1)); err != nil {
			panic(err)
		}
	}
	// rewards accrue
	for i := 0; i < 2; i++ {
		next, r := w.NextBlock(ctx, 5*time.Second)
		if r.Err != nil || r.Panic != nil {
			panic("block")
		}
		ctx = next
	}
	e.ctx = ctx
	return e
}

// portfolio lists everything of holder that a precompile could reduce, redirect or cancel.
func (e *env) portfolio(ctx sdk.Context, holder world.Actor) map[string]string {
	w := e.w
	p := map[string]string{}
	p["FX"] = w.App.BankKeeper.GetBalance(ctx, holder.Acc(), "FX").Amount.String()
	p["usdt-coin"] = w.App.BankKeeper.GetBalance(ctx, holder.Acc(), "usdt").Amount.String()
	p["usdt-erc20"] = scen.BalanceOf(w, ctx, e.usdt.ERC20, holder.Hex()).String()
	for i, v := range w.Vals {
		if d, err := w.App.StakingKeeper.GetDelegation(ctx, holder.Acc(), v.ValAddr()); err == nil {
			p[fmt.Sprintf("shares-v%d", i+1)] = d.Shares.String()
		}
		if u, err := w.App.StakingKeeper.GetUnbondingDelegation(ctx, holder.Acc(), v.ValAddr()); err == nil {
			p[fmt.Sprintf("unbonding-v%d", i+1)] = fmt.Sprint(len(u.Entries))
		}
		for _, sp := range []world.Actor{e.s, e.m} {
			p[fmt.Sprintf("allowance-v%d-%s", i+1, sp.Name)] = w.App.StakingKeeper.GetAllowance(ctx, v.ValAddr(), holder.Acc(), sp.Acc()).String()
		}
	}
	k := scen.Keeper(w, e.chain)
	for _, tx := range k.GetUnbatchedTransactions(ctx) {
		if tx.Sender == holder.Bech() {
			p[fmt.Sprintf("pool-%d-amount", tx.Id)] = tx.Token.Amount.String()
			p[fmt.Sprintf("pool-%d-fee", tx.Id)] = tx.Fee.Amount.String() // may grow (somebody else may add to the fee)
			p[fmt.Sprintf("pool-%d-dest", tx.Id)] = "dest:" + tx.DestAddress
		}
	}
	var res struct{ Value *big.Int }
	if err := w.Query(ctx, holder.Hex(), e.usdt.ERC20, contract.GetFIP20().ABI, &res, "allowance", holder.Hex(), cctypes.GetAddress()); err == nil {
		p["erc20-approval-to-precompile"] = res.Value.String()
	}
	return p
}

// reduced reports the entries of the portfolio that shrank, changed or vanished (rewards that accrue are not a reduction).
func reduced(before, after map[string]string) []string {
	var out []string
	for k, b := range before {
		a := after[k]
		if a == b {
			continue
		}
		bi, ok1 := sdkmath.NewIntFromString(strings.Split(b, ".")[0])
		ai, ok2 := sdkmath.NewIntFromString(strings.Split(a, ".")[0])
		if ok1 && ok2 && !strings.HasPrefix(k, "allowance") && !strings.HasPrefix(k, "unbonding") && ai.GTE(bi) {
			continue // grew
		}
		out = append(out, fmt.Sprintf("%s: %s -> %s", k, b, a))
	}
	for k, a := range after {
		if _, ok := before[k]; !ok && (strings.HasPrefix(k, "allowance") || strings.HasPrefix(k, "unbonding")) && a != "0" {
			out = append(out, fmt.Sprintf("%s: <none> -> %s", k, a))
		}
	}
	sort.Strings(out)
	return out
}

type method struct {
	label string // display name when several argument shapes of one method are offered
	name  string
	addr  common.Address
	abi   abi.ABI
	args  func(e *env) []interface{}
	value *big.Int
}

func methods() []method {
	st, sa := fxstakingtypes.GetABI(), fxstakingtypes.GetAddress()
	cc, ca := cctypes.GetABI(), cctypes.GetAddress()
	var target [32]byte
	copy(target[:], "eth")
	return []method{
		{"", "transferFromShares", sa, st, func(e *env) []interface{} { return []interface{}{e.val.String(), e.v.Hex(), e.m.Hex(), e18(10)} }, nil},
		{"transferFromShares(allowance+1)", "transferFromShares", sa, st, func(e *env) []interface{} { return []interface{}{e.val.String(), e.v.Hex(), e.m.Hex(), e18(41)} }, nil},
		{"", "transferShares", sa, st, func(e *env) []interface{} { return []interface{}{e.val.String(), e.m.Hex(), e18(10)} }, nil},
		{"", "approveShares", sa, st, func(e *env) []interface{} { return []interface{}{e.val.String(), e.m.Hex(), e18(1000)} }, nil},
		{"", "undelegateV2", sa, st, func(e *env) []interface{} { return []interface{}{e.val.String(), e18(10)} }, nil},
		{"", "redelegateV2", sa, st, func(e *env) []interface{} {
			return []interface{}{e.val.String(), e.w.Vals[1].ValAddr().String(), e18(10)}
		}, nil},
		{"", "withdraw", sa, st, func(e *env) []interface{} { return []interface{}{e.val.String()} }, nil},
		{"", "delegateV2", sa, st, func(e *env) []interface{} { return []interface{}{e.val.String(), e18(1)} }, nil},
		{"", "cancelSendToExternal", ca, cc, func(e *env) []interface{} { return []interface{}{"eth", big.NewInt(1)} }, nil},
		{"", "increaseBridgeFee", ca, cc, func(e *env) []interface{} {
			return []interface{}{"eth", big.NewInt(1), common.Address{}, big.NewInt(1)}
		}, big.NewInt(1)},
		{"", "crossChain", ca, cc, func(e *env) []interface{} {
			return []interface{}{e.usdt.ERC20, scen.ExtAddr("eth", "m-ext"), big.NewInt(3), big.NewInt(1), target, ""}
		}, nil},
		{"", "bridgeCall", ca, cc, func(e *env) []interface{} {
			return []interface{}{"eth", e.m.Hex(), []common.Address{e.usdt.ERC20}, []*big.Int{big.NewInt(3)}, common.HexToAddress(scen.ExtAddr("eth", "callee")), []byte{1}, big.NewInt(0), []byte{}}
		}, nil},
		{"", "executeClaim", ca, cc, func(e *env) []interface{} { return []interface{}{"eth", big.NewInt(99)} }, nil},
	}
}

func pack(m method, e *env) []byte {
	d, err := m.abi.Pack(m.name, m.args(e)...)
	if err != nil {
		panic(fmt.Sprintf("pack %s: %v", m.name, err))
	}
	return d
}

var kinds = []string{"CALL", "STATICCALL", "DELEGATECALL", "CALLCODE", "CALL-inside-STATICCALL"}

func run(thorough bool) func(shard, shards int, deadline time.Time) *explore.Result {
	return func(shard, shards int, deadline time.Time) *explore.Result {
		start := time.Now()
		res := &explore.Result{Spec: "c10", Outcomes: map[string]int{}, Counters: map[string]int{}, ViolationCounts: map[string]int{}, Exhaustive: true, DeterminismOK: true, Extra: map[string]float64{}}
		viol := func(sig, oracle, detail string, path ...string) {
			res.ViolationCounts[sig]++
			for _, v := range res.Violations {
				if v.Signature == sig {
					return
				}
			}
			res.Violations = append(res.Violations, explore.Violation{Oracle: oracle, Signature: sig, Detail: detail, Path: path})
		}
		distinct := map[string]bool{}
		caseNo := 0
		for _, slashed := range []bool{false, true} {
			e := setup(slashed)
			w := e.w
			envName := map[bool]string{false: "", true: "slashed-validator: "}[slashed]
			for _, m := range methods() {
				data := pack(m, e)
				if m.label == "" {
					m.label = m.name
				}
				// ---- (1) direct calls by the attacker, by the spender and by the victim
				for _, who := range []world.Actor{e.m, e.s, e.v} {
					caseNo++
					if caseNo%shards != shard {
						continue
					}
					ctx := world.Branch(e.ctx)
					before := e.portfolio(ctx, e.v)
					r := w.EthTx(ctx, who, &m.addr, data, m.value, 3_000_000)
					after := e.portfolio(ctx, e.v)
					res.Transitions++
					res.Extra["evaluations"]++
					name := envName + fmt.Sprintf("%s calls %s directly", who.Name, m.label)
					res.Outcomes[fmt.Sprintf("direct/%s=%v", who.Name, r.Success())]++
					distinct[fmt.Sprintf("%sdirect/%s/%s/%v", envName, who.Name, m.label, r.Success())] = true
					if len(res.Samples) < 3 {
						res.Samples = append(res.Samples, []string{name, r.String()})
					}
					if who.Name == "v" {
						continue // the owner may do what it likes with its own assets
					}
					red := reduced(before, after)
					if len(red) == 0 {
						continue
					}
					if who.Name == "s" && m.label == "transferFromShares" && r.Success() {
						// allowance-backed move: exactly the moved amount leaves and the allowance drops by it
						want := []string{
							fmt.Sprintf("allowance-v1-s: %s -> %s", e18(40), e18(30)),
						}
						ok := len(red) == 2 && red[0] == want[0] && strings.HasPrefix(red[1], "shares-v1: 100000000000000000000.") && strings.Contains(red[1], "-> 90000000000000000000.")
						if !ok {
							viol("C10/allowance-backed-move-wrong/"+m.name, "allowance-move-is-exact", fmt.Sprintf("%s: %v", name, red), name)
						}
						res.Counters["allowance-backed-move"]++
						continue
					}
					viol(fmt.Sprintf("C10/third-party-reduced-by-direct-call/%s", m.name), "only-the-direct-caller-pays", fmt.Sprintf("%s (tx %s) changed the victim's portfolio: %v", name, r, red), name)
				}
				// ---- (2) calls through an attacker contract, for every call kind, started by the attacker and by the victim
				for _, kind := range kinds {
					for _, starter := range []world.Actor{e.m, e.v} {
						caseNo++
						if caseNo%shards != shard {
							continue
						}
						ctx := world.Branch(e.ctx)
						var x common.Address
						switch kind {
						case "CALL-inside-STATICCALL":
							inner := evmasm.Program{Actions: []evmasm.Action{{Call: &evmasm.CallAction{Kind: evmasm.CALL, To: m.addr, Data: data, After: evmasm.Record, RecordSlot: 1}}}}
							// inner cannot SSTORE inside a static frame: use Ignore there
							inner.Actions[0].Call.After = evmasm.Require
							y := w.Deploy(ctx, e.m, inner.InitCode())
							outer := evmasm.Program{Actions: []evmasm.Action{{Call: &evmasm.CallAction{Kind: evmasm.STATICCALL, To: y, Data: nil, After: evmasm.Record, RecordSlot: 1}}}}
							x = w.Deploy(ctx, e.m, outer.InitCode())
						default:
							k := map[string]evmasm.Kind{"CALL": evmasm.CALL, "STATICCALL": evmasm.STATICCALL, "DELEGATECALL": evmasm.DELEGATECALL, "CALLCODE": evmasm.CALLCODE}[kind]
							prog := evmasm.Program{Actions: []evmasm.Action{{Call: &evmasm.CallAction{Kind: k, To: m.addr, Data: data, After: evmasm.Record, RecordSlot: 1, Value: nil}}}}
							x = w.Deploy(ctx, e.m, prog.InitCode())
						}
						// the contract holds FX and tokens of its own, so that a plain CALL can succeed on its own account
						scen.Fund(w, ctx, sdk.AccAddress(x.Bytes()), sdk.NewCoins(world.FXCoin(1000)))
						before := e.portfolio(ctx, e.v)
						dBefore := w.Dump(ctx)
						r := w.EthTx(ctx, starter, &x, nil, nil, 5_000_000)
						after := e.portfolio(ctx, e.v)
						flag := w.Slot(ctx, x, 1).Big().Uint64()
						res.Transitions++
						res.Extra["evaluations"]++
						name := envName + fmt.Sprintf("%s -> contract -%s-> %s", starter.Name, kind, m.label)
						res.Outcomes[fmt.Sprintf("%s/inner-success=%d", kind, flag)]++
						distinct[fmt.Sprintf("%s%s/%s/%s/%d", envName, starter.Name, kind, m.label, flag)] = true
						if len(res.Samples) < 6 {
							res.Samples = append(res.Samples, []string{name, r.String(), fmt.Sprintf("inner call success flag=%d", flag)})
						}
						if red := reduced(before, after); len(red) > 0 {
							viol(fmt.Sprintf("C10/third-party-reduced-through-contract/%s/%s", kind, m.name), "only-the-direct-caller-pays", fmt.Sprintf("%s changed the victim's portfolio: %v", name, red), name)
						}
						if kind != "CALL" {
							// non-writable / foreign-context call kinds: a state-changing method must fail and leave no native effect
							if flag == 1 {
								viol(fmt.Sprintf("C10/state-changing-method-succeeds-in-%s", kind), "writable-context-only", fmt.Sprintf("%s: the precompile call returned success", name), name)
							}
							// no native effect: every store except the EVM's own bookkeeping of the outer transaction is unchanged
							diff := world.DiffDumps(dBefore, w.Dump(ctx))
							var native []string
							for _, d := range diff {
								if strings.HasPrefix(d, "evm/") || strings.HasPrefix(d, "acc/") || strings.HasPrefix(d, "feemarket/") {
									continue
								}
								native = append(native, d)
							}
							if len(native) > 0 {
								viol(fmt.Sprintf("C10/native-effect-in-%s/%s", kind, m.name), "writable-context-only", fmt.Sprintf("%s left native effects: %v", name, native[:min(4, len(native))]), name)
							}
						}
					}
				}
				// ---- (3) governance switch: disabled address / method cannot execute, not even for the owner
				for _, entry := range []string{m.addr.String(), strings.ToLower(m.addr.String()), m.addr.String() + "/" + fmt.Sprintf("%x", m.abi.Methods[m.name].ID), strings.ToUpper(m.addr.String()[2:])} {
					caseNo++
					if caseNo%shards != shard {
						continue
					}
					ctx := world.Branch(e.ctx)
					dr := w.Deliver(ctx, &fxgovtypes.MsgUpdateSwitchParams{Authority: world.GovAuthority(), Params: fxgovtypes.SwitchParams{DisablePrecompiles: []string{entry}}})
					if !dr.OK() {
						res.Outcomes["switch/update-rejected"]++
						continue
					}
					if entry == m.addr.String() {
						// the same setting reached by two other histories (one transaction each, same oracle below):
						// (a) after the update, an update that clears the switch runs on a branch that is thrown away (a block
						//     that is not decided, a simulation) and the precompile is called there once;
						// (b) governance writes the stored switch value with a raw store update instead of the typed message
						for _, route := range []string{"discarded-clearing-update", "raw-store-update"} {
							rctx := world.Branch(ctx)
							switch route {
							case "discarded-clearing-update":
								decoy := world.Branch(ctx)
								if cr := w.Deliver(decoy, &fxgovtypes.MsgUpdateSwitchParams{Authority: world.GovAuthority(), Params: fxgovtypes.SwitchParams{}}); !cr.OK() {
									panic("c10: clearing update refused: " + cr.String())
								}
								w.EthTx(decoy, e.v, &m.addr, data, m.value, 3_000_000)
							case "raw-store-update":
								rctx = world.Branch(e.ctx)
								w.EthTx(world.Branch(rctx), e.v, &m.addr, data, m.value, 3_000_000) // the node has looked the switch up before
								gs := scen.Store(w, rctx, "gov")
								oldV := hex.EncodeToString(gs.Get(fxgovtypes.FxSwitchParamsKey))
								newV := hex.EncodeToString(scen.Store(w, ctx, "gov").Get(fxgovtypes.FxSwitchParamsKey))
								if ur := w.Deliver(rctx, &fxgovtypes.MsgUpdateStore{Authority: world.GovAuthority(), UpdateStores: []fxgovtypes.UpdateStore{{Space: "gov", Key: hex.EncodeToString(fxgovtypes.FxSwitchParamsKey), OldValue: oldV, Value: newV}}}); !ur.OK() {
									panic("c10: raw store update refused: " + ur.String())
								}
							}
							rr := w.EthTx(rctx, e.v, &m.addr, data, m.value, 3_000_000)
							res.Transitions++
							res.Extra["evaluations"]++
							res.Outcomes[fmt.Sprintf("switch/%s/success=%v", route, rr.Success())]++
							distinct[envName+"switch/"+route+"/"+m.label] = true
							if rr.Success() {
								viol("C10/disabled-precompile-executes/"+m.name+"/"+route, "governance-switch-respected", fmt.Sprintf("%sswitch[%s] set through %s: v calls %s succeeded", envName, entry, route, m.label), envName+route+m.label)
							}
						}
					}
					dBefore := w.Dump(ctx)
					r := w.EthTx(ctx, e.v, &m.addr, data, m.value, 3_000_000)
					res.Transitions++
					res.Extra["evaluations"]++
					isAddrEntry := !strings.Contains(entry, "/") && strings.HasPrefix(entry, "0x")
					name := envName + fmt.Sprintf("switch[%s]: v calls %s", entry, m.label)
					res.Outcomes[fmt.Sprintf("switch/success=%v", r.Success())]++
					distinct[envName+"switch/"+entry+"/"+m.label] = true
					effective := isAddrEntry || strings.Contains(entry, "/")
					if !effective {
						continue // an entry that is not an address spelling disables nothing
					}
					if r.Success() {
						viol("C10/disabled-precompile-executes/"+m.name, "governance-switch-respected", name+" succeeded", name)
						continue
					}
					var native []string
					for _, d := range world.DiffDumps(dBefore, w.Dump(ctx)) {
						if strings.HasPrefix(d, "evm/") || strings.HasPrefix(d, "acc/") || strings.HasPrefix(d, "feemarket/") {
							continue
						}
						native = append(native, d)
					}
					if len(native) > 0 {
						viol("C10/disabled-precompile-has-effect/"+m.name, "governance-switch-respected", fmt.Sprintf("%s: %v", name, native[:min(4, len(native))]), name)
					}
				}
			}
		}
		res.States = len(distinct)
		res.Extra["distinct_nontrivial"] = float64(len(distinct))
		res.WallS = time.Since(start).Seconds()
		return res
	}
}

func min(a, b int) int {
	if a < b {
		return a
	}
	return b
}

func init() {
	registry.Register(&registry.Check{
		ID:          "C10",
		Level:       "model_checking",
		Rule:        "exhaustive enumeration of (starter in {attacker, spender, victim}) x (direct call | attacker contract using CALL, STATICCALL, DELEGATECALL, CALLCODE, CALL nested inside a STATICCALL frame) x (12 state-changing precompile methods with arguments naming the victim's assets) x (governance switch entry: address, lower-case address, address/method; the address entry also after a clearing update on a discarded branch and when written by a raw store update) executed as signed EVM transactions against a victim portfolio (FX, usdt coin and ERC-20 with approval to the precompile, delegation with rewards, allowance to a spender, pool entry); oracle: the victim's portfolio is not reduced except by the allowance-backed move, which is exact; non-CALL contexts fail and leave no native store change; disabled entries cannot execute. states = distinct (case, outcome) classes, transitions = transactions executed",
		Assumptions: []string{"contracts are hand-assembled straight-line programs (evmasm); the victim's own direct calls are unconstrained"},
		Jobs: func(tier string) []registry.Job {
			return []registry.Job{{Name: "callers-x-kinds-x-methods", Custom: run(tier == "thorough"), Shards: 8}}
		},
	})
}
