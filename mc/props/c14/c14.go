// Package c14: account migration moves everything, once, to the address that authorised it.
package c14

import (
	"bytes"
	"encoding/hex"
	"fmt"
	"sort"
	"strings"
	"time"

	sdkmath "cosmossdk.io/math"
	codectypes "github.com/cosmos/cosmos-sdk/codec/types"
	"github.com/cosmos/cosmos-sdk/crypto/keys/secp256k1"
	sdk "github.com/cosmos/cosmos-sdk/types"
	authtypes "github.com/cosmos/cosmos-sdk/x/auth/types"
	distrkeeper "github.com/cosmos/cosmos-sdk/x/distribution/keeper"
	distrtypes "github.com/cosmos/cosmos-sdk/x/distribution/types"
	govv1 "github.com/cosmos/cosmos-sdk/x/gov/types/v1"
	stakingtypes "github.com/cosmos/cosmos-sdk/x/staking/types"
	"github.com/ethereum/go-ethereum/crypto"

	fxgovtypes "github.com/functionx/fx-core/v8/x/gov/types"
	migratetypes "github.com/functionx/fx-core/v8/x/migrate/types"

	"fxmc/explore"
	"fxmc/props/registry"
	"fxmc/scen"
	"fxmc/world"
)

type env struct {
	w    *world.World
	ctx  sdk.Context
	usdt scen.Token
}

// legacy is an account with a plain secp256k1 key whose public key is on record (it has signed before).
type legacy struct {
	name string
	priv *secp256k1.PrivKey
}

func (l legacy) Acc() sdk.AccAddress { return sdk.AccAddress(l.priv.PubKey().Address()) }
func (l legacy) Bech() string        { return l.Acc().String() }

func newLegacy(e *env, ctx sdk.Context, name string, fx int64) legacy {
	l := legacy{name: name, priv: secp256k1.GenPrivKeyFromSecret([]byte("fxmc/legacy/" + name))}
	acc := e.w.App.AccountKeeper.NewAccountWithAddress(ctx, l.Acc())
	if err := acc.SetPubKey(l.priv.PubKey()); err != nil {
		panic(err)
	}
	e.w.App.AccountKeeper.SetAccount(ctx, acc)
	if fx > 0 {
		scen.Fund(e.w, ctx, l.Acc(), sdk.NewCoins(world.FXCoin(fx)))
	}
	return l
}

func setup() *env {
	w := world.New(world.Config{Validators: 2, Actors: []string{"bank", "t1", "t2", "other", "rel"}})
	e := &env{w: w, ctx: w.Root}
	return e
}

func sign(target world.Actor, from sdk.AccAddress, to []byte) string {
	k, err := crypto.ToECDSA(target.Priv.Key)
	if err != nil {
		panic(err)
	}
	sig, err := crypto.Sign(migratetypes.MigrateAccountSignatureHash(from, to), k)
	if err != nil {
		panic(err)
	}
	return hex.EncodeToString(sig)
}

// portfolio of an address: balances, delegations, unbondings, redelegations, pending rewards.
func (e *env) portfolio(ctx sdk.Context, addr sdk.AccAddress) map[string]string {
	w := e.w
	p := map[string]string{}
	for _, c := range w.App.BankKeeper.GetAllBalances(ctx, addr) {
		p["bal/"+c.Denom] = c.Amount.String()
	}
	dels, _ := w.App.StakingKeeper.GetDelegatorDelegations(ctx, addr, 100)
	for _, d := range dels {
		p["del/"+d.ValidatorAddress] = d.Shares.String()
	}
	ubds, _ := w.App.StakingKeeper.GetUnbondingDelegations(ctx, addr, 100)
	for _, u := range ubds {
		var es []string
		for _, en := range u.Entries {
			es = append(es, fmt.Sprintf("%s@%d", en.Balance, en.CompletionTime.Unix()))
		}
		p["ubd/"+u.ValidatorAddress] = strings.Join(es, ",")
	}
	reds, _ := w.App.StakingKeeper.GetRedelegations(ctx, addr, 100)
	for _, r := range reds {
		var es []string
		for _, en := range r.Entries {
			es = append(es, fmt.Sprintf("%s@%d", en.SharesDst, en.CompletionTime.Unix()))
		}
		p["red/"+r.ValidatorSrcAddress+">"+r.ValidatorDstAddress] = strings.Join(es, ",")
	}
	q := distrkeeper.NewQuerier(w.App.DistrKeeper)
	if res, err := q.DelegationTotalRewards(world.Branch(ctx), &distrtypes.QueryDelegationTotalRewardsRequest{DelegatorAddress: addr.String()}); err == nil {
		for _, r := range res.Rewards {
			p["rew/"+r.ValidatorAddress] = r.Reward.AmountOf("FX").TruncateInt().String()
		}
	}
	return p
}

func diffPort(a, b map[string]string) []string {
	var out []string
	for k, v := range a {
		if b[k] != v {
			out = append(out, fmt.Sprintf("%s: %q vs %q", k, v, b[k]))
		}
	}
	for k, v := range b {
		if _, ok := a[k]; !ok {
			out = append(out, fmt.Sprintf("%s: <none> vs %q", k, v))
		}
	}
	sort.Strings(out)
	return out
}

func nonEmpty(p map[string]string) []string {
	var out []string
	for k, v := range p {
		if v != "" && v != "0" {
			out = append(out, k+"="+v)
		}
	}
	sort.Strings(out)
	return out
}

type shape struct {
	usdt    bool
	dels    int // 0: none, 1: V1, 2: V1+V2
	ubd     int // unbonding entries on V1
	shared  bool
	red     bool
	rewards bool
	ubdV2   bool // (with two delegations) also an unbonding entry on V2, created in the same block as the first one on V1
	redRed  bool // a second redelegation entry (same validators, one block later)
	exit    bool // finally the source undelegates everything it still has: no delegation is left, only unbonding (and redelegation) entries
}

func (s shape) String() string {
	x := ""
	if s.ubdV2 {
		x += "/ubdV2-same-block"
	}
	if s.redRed {
		x += "/two-redelegation-entries"
	}
	if s.exit {
		x += "/fully-undelegated"
	}
	return fmt.Sprintf("usdt=%v/dels=%d/ubd=%d/shared=%v/red=%v/rewards=%v%s", s.usdt, s.dels, s.ubd, s.shared, s.red, s.rewards, x)
}

func (e *env) deliverOK(ctx sdk.Context, msg sdk.Msg) {
	if r := e.w.Deliver(ctx, msg); !r.OK() {
		panic(fmt.Sprintf("set-up %T: %s", msg, r))
	}
}

func (e *env) block(ctx sdk.Context, dt time.Duration) sdk.Context {
	n, r := e.w.NextBlock(ctx, dt)
	if r.Err != nil || r.Panic != nil {
		panic(fmt.Sprintf("block: %v %v %s", r.Err, r.Panic, r.Stack))
	}
	return n
}

// buildPortfolio gives src the portfolio of shape s through ordinary messages.
func (e *env) buildPortfolio(ctx sdk.Context, s shape, src legacy, other legacy) sdk.Context {
	w := e.w
	v1, v2 := w.Vals[0].ValAddr(), w.Vals[1].ValAddr()
	if s.usdt {
		// any second denomination will do for "any mix of denoms"
		if err := w.App.BankKeeper.MintCoins(ctx, "mint", sdk.NewCoins(sdk.NewInt64Coin("usdt", 77))); err != nil {
			panic(err)
		}
		if err := w.App.BankKeeper.SendCoinsFromModuleToAccount(ctx, "mint", src.Acc(), sdk.NewCoins(sdk.NewInt64Coin("usdt", 77))); err != nil {
			panic(err)
		}
	}
	if s.dels >= 1 {
		e.deliverOK(ctx, stakingtypes.NewMsgDelegate(src.Bech(), v1.String(), world.FXCoin(100)))
		e.deliverOK(ctx, stakingtypes.NewMsgDelegate(other.Bech(), v1.String(), world.FXCoin(100)))
	}
	if s.dels >= 2 {
		e.deliverOK(ctx, stakingtypes.NewMsgDelegate(src.Bech(), v2.String(), world.FXCoin(50)))
	}
	if s.rewards {
		ctx = e.block(ctx, 5*time.Second)
		ctx = e.block(ctx, 5*time.Second)
	}
	for i := 0; i < s.ubd; i++ {
		e.deliverOK(ctx, stakingtypes.NewMsgUndelegate(src.Bech(), v1.String(), world.FXCoin(10)))
		if s.shared && i == 0 {
			e.deliverOK(ctx, stakingtypes.NewMsgUndelegate(other.Bech(), v1.String(), world.FXCoin(10)))
		}
		if s.ubdV2 && i == 0 {
			e.deliverOK(ctx, stakingtypes.NewMsgUndelegate(src.Bech(), v2.String(), world.FXCoin(10))) // same completion time as the V1 entry
		}
		if i+1 < s.ubd {
			ctx = e.block(ctx, 5*time.Second) // second entry gets a different completion time
		}
	}
	if s.red {
		e.deliverOK(ctx, stakingtypes.NewMsgBeginRedelegate(src.Bech(), v1.String(), v2.String(), world.FXCoin(20)))
		if s.redRed {
			ctx = e.block(ctx, 5*time.Second)
			e.deliverOK(ctx, stakingtypes.NewMsgBeginRedelegate(src.Bech(), v1.String(), v2.String(), world.FXCoin(5)))
		}
	}
	if s.rewards {
		ctx = e.block(ctx, 5*time.Second)
	}
	if s.exit {
		ctx = e.block(ctx, 5*time.Second)
		dels, _ := w.App.StakingKeeper.GetDelegatorDelegations(ctx, src.Acc(), 100)
		for _, d := range dels {
			valAddr, _ := sdk.ValAddressFromBech32(d.ValidatorAddress)
			val, _ := w.App.StakingKeeper.GetValidator(ctx, valAddr)
			e.deliverOK(ctx, stakingtypes.NewMsgUndelegate(src.Bech(), d.ValidatorAddress, sdk.NewCoin("FX", val.TokensFromShares(d.Shares).TruncateInt())))
		}
		if left, _ := w.App.StakingKeeper.GetDelegatorDelegations(ctx, src.Acc(), 100); len(left) != 0 {
			panic("c14: the source still has delegations after undelegating everything")
		}
	}
	return ctx
}

// aftermath: what the holder of the portfolio can get out of it; returns the FX received.
func (e *env) aftermath(ctx sdk.Context, holder sdk.AccAddress) (sdkmath.Int, string) {
	w := e.w
	before := w.App.BankKeeper.GetBalance(ctx, holder, "FX").Amount
	var log []string
	dels, _ := w.App.StakingKeeper.GetDelegatorDelegations(ctx, holder, 100)
	for _, d := range dels {
		r := w.Deliver(ctx, distrtypes.NewMsgWithdrawDelegatorReward(holder.String(), d.ValidatorAddress))
		log = append(log, "withdraw:"+r.String())
	}
	for _, d := range dels {
		valAddr, _ := sdk.ValAddressFromBech32(d.ValidatorAddress)
		val, _ := w.App.StakingKeeper.GetValidator(ctx, valAddr)
		tok := val.TokensFromShares(d.Shares).TruncateInt()
		r := w.Deliver(ctx, stakingtypes.NewMsgUndelegate(holder.String(), d.ValidatorAddress, sdk.NewCoin("FX", tok)))
		log = append(log, "undelegate:"+r.String())
	}
	ctx = e.block(ctx, 22*24*time.Hour)
	ctx = e.block(ctx, 5*time.Second)
	after := w.App.BankKeeper.GetBalance(ctx, holder, "FX").Amount
	left := nonEmpty(e.portfolio(ctx, holder))
	var stuck []string
	for _, l := range left {
		if !strings.HasPrefix(l, "bal/") {
			stuck = append(stuck, l)
		}
	}
	return after.Sub(before), strings.Join(log, ";") + " left:" + strings.Join(stuck, ",")
}

// stakingView lists the staking-store entries that carry a delegator address. With from/to set, every occurrence of
// from (raw bytes in keys, bech32 text in values) is rewritten to to, so that the un-migrated source's records can be
// compared with the migrated target's. Queue values are reduced to sorted entry lists (their order is not observable).
func (e *env) stakingView(ctx sdk.Context, from, to sdk.AccAddress) map[string]string {
	names := map[byte]string{0x31: "delegation", 0x32: "unbonding", 0x33: "unbonding-by-validator-index", 0x34: "redelegation", 0x35: "redelegation-by-source-validator-index",
		0x36: "redelegation-by-destination-validator-index", 0x41: "unbonding-queue", 0x42: "redelegation-queue", 0x71: "delegation-by-validator-index"}
	sub := func(b []byte) []byte {
		if from == nil {
			return b
		}
		b = bytes.ReplaceAll(b, from.Bytes(), to.Bytes())
		return bytes.ReplaceAll(b, []byte(from.String()), []byte(to.String()))
	}
	out := map[string]string{}
	st := scen.Store(e.w, ctx, stakingtypes.StoreKey)
	it := st.Iterator(nil, nil)
	defer it.Close()
	cdc := e.w.App.AppCodec()
	for ; it.Valid(); it.Next() {
		k := it.Key()
		n, ok := names[k[0]]
		if !ok {
			continue
		}
		key := fmt.Sprintf("%s %x", n, sub(k))
		switch k[0] {
		case 0x41:
			var ps stakingtypes.DVPairs
			cdc.MustUnmarshal(it.Value(), &ps)
			var l []string
			for _, p := range ps.Pairs {
				l = append(l, string(sub([]byte(p.DelegatorAddress+"/"+p.ValidatorAddress))))
			}
			sort.Strings(l)
			out[key] = strings.Join(l, ",")
		case 0x42:
			var ts stakingtypes.DVVTriplets
			cdc.MustUnmarshal(it.Value(), &ts)
			var l []string
			for _, p := range ts.Triplets {
				l = append(l, string(sub([]byte(p.DelegatorAddress+"/"+p.ValidatorSrcAddress+"/"+p.ValidatorDstAddress))))
			}
			sort.Strings(l)
			out[key] = strings.Join(l, ",")
		default:
			out[key] = fmt.Sprintf("%x", sub(it.Value()))
		}
	}
	return out
}

func diffStaking(want, got map[string]string) []string {
	var out []string
	for k, v := range want {
		if g, ok := got[k]; !ok {
			out = append(out, k+" missing after migration")
		} else if g != v {
			out = append(out, k+" differs after migration")
		}
	}
	for k := range got {
		if _, ok := want[k]; !ok {
			out = append(out, k+" exists only after migration")
		}
	}
	sort.Strings(out)
	return out
}

func run(thorough bool) func(shard, shards int, deadline time.Time) *explore.Result {
	return func(shard, shards int, deadline time.Time) *explore.Result {
		start := time.Now()
		res := &explore.Result{Spec: "c14", Outcomes: map[string]int{}, Counters: map[string]int{}, ViolationCounts: map[string]int{}, Exhaustive: true, DeterminismOK: true, Extra: map[string]float64{}}
		viol := func(sig, oracle, detail string, path ...string) {
			res.ViolationCounts[sig]++
			for _, v := range res.Violations {
				if v.Signature == sig {
					return
				}
			}
			res.Violations = append(res.Violations, explore.Violation{Oracle: oracle, Signature: sig, Detail: detail, Path: path})
		}
		e := setup()
		w := e.w
		caseNo := 0
		distinct := map[string]bool{}
		// ---------------- family A: every portfolio shape migrates completely
		var shapes []shape
		for dels := 1; dels <= 2; dels++ {
			for ubd := 0; ubd <= 1; ubd++ {
				for _, red := range []bool{false, true} {
					shapes = append(shapes, shape{dels: dels, ubd: ubd, red: red, exit: true})
				}
			}
		}
		for _, usdt := range []bool{false, true} {
			for dels := 0; dels <= 2; dels++ {
				for ubd := 0; ubd <= 2; ubd++ {
					for _, shared := range []bool{false, true} {
						for _, red := range []bool{false, true} {
							for _, rew := range []bool{false, true} {
								if dels == 0 && (ubd > 0 || red || rew || shared) {
									continue
								}
								if ubd == 0 && shared {
									continue
								}
								shapes = append(shapes, shape{usdt: usdt, dels: dels, ubd: ubd, shared: shared, red: red, rewards: rew})
								if dels == 2 && ubd > 0 && !usdt {
									shapes = append(shapes, shape{dels: dels, ubd: ubd, shared: shared, red: red, rewards: rew, ubdV2: true})
								}
								if red && !usdt && !rew {
									shapes = append(shapes, shape{dels: dels, ubd: ubd, shared: shared, red: red, redRed: true})
								}
							}
						}
					}
				}
			}
		}
		for _, s := range shapes {
			caseNo++
			if caseNo%shards != shard {
				continue
			}
			ctx := world.Branch(e.ctx)
			src := newLegacy(e, ctx, "src", 1000)
			other := newLegacy(e, ctx, "otherdel", 1000)
			tgt := w.A("t1")
			// the target is a fresh address (drop its genesis funds)
			if err := w.App.BankKeeper.SendCoins(ctx, tgt.Acc(), w.A("bank").Acc(), w.App.BankKeeper.GetAllBalances(ctx, tgt.Acc())); err != nil {
				panic(err)
			}
			ctx = e.buildPortfolio(ctx, s, src, other)
			name := "migrate " + s.String()
			before := e.portfolio(ctx, src.Acc())
			supplyBefore := w.App.BankKeeper.GetSupply(ctx, "FX").Amount
			valsBefore := ""
			for _, v := range w.Vals {
				val, _ := w.App.StakingKeeper.GetValidator(ctx, v.ValAddr())
				valsBefore += val.Tokens.String() + "/" + val.DelegatorShares.String() + ";"
			}
			// twin: the un-migrated source lives on a sibling branch (the common parent is not written to any more)
			twin := world.Branch(ctx)
			ctx = world.Branch(ctx)
			r := w.Deliver(ctx, migratetypes.NewMsgMigrateAccount(src.Acc(), tgt.Hex(), sign(tgt, src.Acc(), tgt.Hex().Bytes())))
			res.Transitions++
			res.Extra["evaluations"]++
			res.Outcomes[fmt.Sprintf("portfolio-migration/accepted=%v", r.OK())]++
			distinct[name] = true
			if !r.OK() {
				viol("C14/valid-migration-refused", "migration-accepted-when-conditions-hold", name+": "+r.String(), name)
				continue
			}
			after := e.portfolio(ctx, tgt.Acc())
			if d := diffPort(before, after); len(d) > 0 {
				viol("C14/target-portfolio-differs-from-source-portfolio/"+firstKey(d), "everything-moves", fmt.Sprintf("%s: %v", name, d), name)
			}
			if left := nonEmpty(e.portfolio(ctx, src.Acc())); len(left) > 0 {
				viol("C14/source-keeps-something/"+strings.Split(left[0], "/")[0], "source-left-with-nothing", fmt.Sprintf("%s: %v", name, left), name)
			}
			valsAfter := ""
			for _, v := range w.Vals {
				val, _ := w.App.StakingKeeper.GetValidator(ctx, v.ValAddr())
				valsAfter += val.Tokens.String() + "/" + val.DelegatorShares.String() + ";"
			}
			if valsAfter != valsBefore || !w.App.BankKeeper.GetSupply(ctx, "FX").Amount.Equal(supplyBefore) {
				viol("C14/totals-changed-by-migration", "no-total-changes", name, name)
			}
			for _, rt := range w.App.CrisisKeeper.Routes() {
				func() {
					defer func() {
						if x := recover(); x != nil {
							viol("C14/invariant-panics-after-migration/"+rt.FullRoute(), "sdk-invariants-hold", fmt.Sprintf("%s: %v", name, x), name)
						}
					}()
					if msg, broken := rt.Invar(world.Branch(ctx)); broken {
						viol("C14/invariant-broken-after-migration/"+rt.FullRoute(), "sdk-invariants-hold", name+": "+msg, name)
					}
				}()
			}
			// staking records and indexes: what the target has now is what the un-migrated source has on the twin branch,
			// key by key (delegations, unbondings, redelegations, their by-validator indexes and the maturation queues)
			if d := diffStaking(e.stakingView(twin, src.Acc(), tgt.Acc()), e.stakingView(ctx, nil, nil)); len(d) > 0 {
				viol("C14/staking-records-differ-from-unmigrated-twin/"+strings.SplitN(d[0], " ", 2)[0], "everything-moves", fmt.Sprintf("%s: %v", name, d), name)
			}
			// a second migration of either address is refused
			if r2 := w.Deliver(ctx, migratetypes.NewMsgMigrateAccount(src.Acc(), w.A("t2").Hex(), sign(w.A("t2"), src.Acc(), w.A("t2").Hex().Bytes()))); r2.OK() {
				viol("C14/address-migrated-twice/source", "address-used-once", name, name)
			}
			// aftermath: twin run
			gotT, logT := e.aftermath(ctx, tgt.Acc())
			gotS, logS := e.aftermath(twin, src.Acc())
			if !gotT.Equal(gotS) || strings.Contains(logT, "ERR") != strings.Contains(logS, "ERR") || afterLeft(logT) != "" {
				viol("C14/aftermath-differs-from-unmigrated-twin", "target-can-do-what-the-source-could", fmt.Sprintf("%s: migrated target received %s (%s); the un-migrated source would have received %s (%s)", name, gotT, logT, gotS, logS), name)
			}
			if len(res.Samples) < 4 {
				res.Samples = append(res.Samples, []string{name, fmt.Sprintf("portfolio keys %d, aftermath payout %s", len(before), gotT)})
			}
		}
		// ---------------- family B: refusal conditions
		type refusal struct {
			name   string
			prep   func(ctx sdk.Context, src legacy, tgt world.Actor) (sdk.Context, legacy, world.Actor, string)
			reject bool
		}
		// regime: how the proposal's end time relates to the periods configured when the migration is attempted -
		//   default        periods unchanged, migration attempted right after the involvement
		//   late           13 days later (the proposal is still open)
		//   shortened      governance shortened the deposit and voting periods to one hour after the proposal was opened
		//   custom-long    the message type has its own 30-day voting period (longer than the default) and 20 days have passed
		govCase := func(role, phase, who, regime string) refusal {
			reject := phase != "ended"
			nm := fmt.Sprintf("gov/%s/%s/%s", who, role, phase)
			if regime != "default" {
				nm += "/" + regime
			}
			return refusal{nm, func(ctx sdk.Context, src legacy, tgt world.Actor) (sdk.Context, legacy, world.Actor, string) {
				if regime == "custom-long" {
					month := 30 * 24 * time.Hour
					e.deliverOK(ctx, &fxgovtypes.MsgUpdateCustomParams{Authority: world.GovAuthority(), MsgUrl: sdk.MsgTypeURL(&fxgovtypes.MsgUpdateSwitchParams{}), CustomParams: fxgovtypes.CustomParams{DepositRatio: "0", VotingPeriod: &month, Quorum: "0.4"}})
				}
				actor := src.Acc()
				if who == "target" {
					actor = tgt.Acc()
					scen.Fund(w, ctx, actor, sdk.NewCoins(world.FXCoin(20000)))
				} else {
					scen.Fund(w, ctx, actor, sdk.NewCoins(world.FXCoin(20000)))
				}
				proposer := w.A("other").Acc()
				if role == "proposer" {
					proposer = actor
				}
				a, _ := codectypes.NewAnyWithValue(&fxgovtypes.MsgUpdateSwitchParams{Authority: world.GovAuthority(), Params: fxgovtypes.SwitchParams{}})
				initial := int64(1000)
				if phase != "deposit" && role != "depositor" {
					initial = 10000
				}
				e.deliverOK(ctx, &govv1.MsgSubmitProposal{Messages: []*codectypes.Any{a}, InitialDeposit: sdk.NewCoins(world.FXCoin(initial)), Proposer: proposer.String(), Title: "t", Summary: "s", Metadata: "m"})
				id, _ := w.App.GovKeeper.ProposalID.Peek(ctx)
				id--
				if role == "depositor" {
					amt := int64(100)
					if phase != "deposit" {
						amt = 10000
					}
					e.deliverOK(ctx, &govv1.MsgDeposit{ProposalId: id, Depositor: actor.String(), Amount: sdk.NewCoins(world.FXCoin(amt))})
				}
				if role == "voter" {
					if phase == "deposit" {
						return ctx, src, tgt, "skip" // nobody can vote in the deposit period
					}
					// voters need stake to be recorded; a vote is stored regardless
					e.deliverOK(ctx, govv1.NewMsgVote(actor, id, govv1.OptionYes, ""))
				}
				switch regime {
				case "late":
					ctx = e.block(ctx, 13*24*time.Hour)
				case "custom-long":
					ctx = e.block(ctx, 20*24*time.Hour)
				case "shortened":
					gp, err := w.App.GovKeeper.Params.Get(ctx)
					if err != nil {
						panic(err)
					}
					hour, half := time.Hour, 30*time.Minute
					gp.MaxDepositPeriod, gp.VotingPeriod, gp.ExpeditedVotingPeriod = &hour, &hour, &half
					e.deliverOK(ctx, &govv1.MsgUpdateParams{Authority: world.GovAuthority(), Params: gp})
					ctx = e.block(ctx, 5*time.Second)
				}
				if regime != "default" {
					// the harness's own precondition: the proposal is still open
					if pr, err := w.App.GovKeeper.Proposals.Get(ctx, id); err != nil || (pr.Status != govv1.StatusDepositPeriod && pr.Status != govv1.StatusVotingPeriod) {
						panic(fmt.Sprintf("c14: %s: the proposal is not open any more (%v %v)", nm, pr.Status, err))
					}
				}
				if phase == "ended" {
					ctx = e.block(ctx, 15*24*time.Hour)
					ctx = e.block(ctx, 5*time.Second)
					ctx = e.block(ctx, 15*24*time.Hour)
					ctx = e.block(ctx, 5*time.Second)
				}
				return ctx, src, tgt, ""
			}, reject}
		}
		var refs []refusal
		for _, who := range []string{"source", "target"} {
			for _, role := range []string{"proposer", "depositor", "voter"} {
				for _, phase := range []string{"deposit", "voting", "ended"} {
					refs = append(refs, govCase(role, phase, who, "default"))
					if phase != "ended" {
						refs = append(refs, govCase(role, phase, who, "late"), govCase(role, phase, who, "shortened"))
					}
					if phase == "voting" {
						refs = append(refs, govCase(role, phase, who, "custom-long"))
					}
				}
			}
		}
		refs = append(refs,
			refusal{"control/no-involvement", func(ctx sdk.Context, src legacy, tgt world.Actor) (sdk.Context, legacy, world.Actor, string) {
				return ctx, src, tgt, ""
			}, false},
			refusal{"target/has-delegation", func(ctx sdk.Context, src legacy, tgt world.Actor) (sdk.Context, legacy, world.Actor, string) {
				scen.Fund(w, ctx, tgt.Acc(), sdk.NewCoins(world.FXCoin(100)))
				e.deliverOK(ctx, stakingtypes.NewMsgDelegate(tgt.Bech(), w.Vals[0].ValAddr().String(), world.FXCoin(10)))
				return ctx, src, tgt, ""
			}, true},
			refusal{"target/has-unbonding", func(ctx sdk.Context, src legacy, tgt world.Actor) (sdk.Context, legacy, world.Actor, string) {
				scen.Fund(w, ctx, tgt.Acc(), sdk.NewCoins(world.FXCoin(100)))
				e.deliverOK(ctx, stakingtypes.NewMsgDelegate(tgt.Bech(), w.Vals[0].ValAddr().String(), world.FXCoin(10)))
				e.deliverOK(ctx, stakingtypes.NewMsgUndelegate(tgt.Bech(), w.Vals[0].ValAddr().String(), world.FXCoin(10)))
				return ctx, src, tgt, ""
			}, true},
			refusal{"target/is-validator-operator", func(ctx sdk.Context, src legacy, tgt world.Actor) (sdk.Context, legacy, world.Actor, string) {
				return ctx, src, w.Vals[1].Operator, ""
			}, true},
			refusal{"target/already-used-as-target", func(ctx sdk.Context, src legacy, tgt world.Actor) (sdk.Context, legacy, world.Actor, string) {
				s2 := newLegacy(e, ctx, "src2", 10)
				e.deliverOK(ctx, migratetypes.NewMsgMigrateAccount(s2.Acc(), tgt.Hex(), sign(tgt, s2.Acc(), tgt.Hex().Bytes())))
				return ctx, src, tgt, ""
			}, true},
			refusal{"source/already-used-as-target", func(ctx sdk.Context, src legacy, tgt world.Actor) (sdk.Context, legacy, world.Actor, string) {
				// an address that received a migration cannot be a source later: needs a legacy key whose address equals a target; not constructible
				return ctx, src, tgt, "skip"
			}, true},
		)
		for _, rf := range refs {
			for _, sigKind := range []string{"by-target", "by-other-key", "over-swapped-pair", "valid-for-another-source"} {
				if sigKind != "by-target" && rf.name != "control/no-involvement" {
					continue
				}
				caseNo++
				if caseNo%shards != shard {
					continue
				}
				ctx := world.Branch(e.ctx)
				src := newLegacy(e, ctx, "src", 1000)
				tgt := w.A("t1")
				if err := w.App.BankKeeper.SendCoins(ctx, tgt.Acc(), w.A("bank").Acc(), w.App.BankKeeper.GetAllBalances(ctx, tgt.Acc())); err != nil {
					panic(err)
				}
				e.deliverOK(ctx, stakingtypes.NewMsgDelegate(src.Bech(), w.Vals[0].ValAddr().String(), world.FXCoin(100)))
				var skip string
				ctx, src, tgt, skip = rf.prep(ctx, src, tgt)
				if skip != "" {
					continue
				}
				var sg string
				reject := rf.reject
				switch sigKind {
				case "by-target":
					sg = sign(tgt, src.Acc(), tgt.Hex().Bytes())
				case "by-other-key":
					sg = sign(w.A("other"), src.Acc(), tgt.Hex().Bytes())
					reject = true
				case "over-swapped-pair":
					sg = sign(tgt, tgt.Acc(), src.Acc())
					reject = true
				case "valid-for-another-source":
					// the target authorised the migration of another account; that message has already been looked at by this
					// node (stateless validation, a run that was not kept) before the signature is presented for this source
					s2 := newLegacy(e, ctx, "srcX", 10)
					sg = sign(tgt, s2.Acc(), tgt.Hex().Bytes())
					if pr := w.Deliver(world.Branch(ctx), migratetypes.NewMsgMigrateAccount(s2.Acc(), tgt.Hex(), sg)); !pr.OK() {
						panic("c14: the migration the signature belongs to is refused: " + pr.String())
					}
					reject = true
				}
				name := rf.name + "/sig=" + sigKind
				pre := w.Digest(ctx)
				r := w.Deliver(ctx, migratetypes.NewMsgMigrateAccount(src.Acc(), tgt.Hex(), sg))
				res.Transitions++
				res.Extra["evaluations"]++
				res.Outcomes[fmt.Sprintf("condition/%s/accepted=%v", rf.name, r.OK())]++
				distinct[name] = true
				if reject && r.OK() {
					viol("C14/migration-accepted-although-forbidden/"+rf.name+"/"+sigKind, "refusal-conditions", name+" was accepted", name)
				}
				if !reject && !r.OK() {
					viol("C14/valid-migration-refused/"+rf.name, "migration-accepted-when-conditions-hold", name+": "+r.String(), name)
				}
				if !r.OK() && w.Digest(ctx) != pre {
					viol("C14/refused-migration-changed-state", "refusal-changes-nothing", name, name)
				}
			}
		}
		res.States = len(distinct)
		res.Extra["distinct_nontrivial"] = float64(len(distinct))
		res.WallS = time.Since(start).Seconds()
		_ = authtypes.ModuleName
		return res
	}
}

func firstKey(d []string) string {
	if len(d) == 0 {
		return ""
	}
	return strings.Split(d[0], "/")[0]
}

func afterLeft(log string) string {
	i := strings.LastIndex(log, " left:")
	if i < 0 {
		return ""
	}
	return log[i+6:]
}

func init() {
	registry.Register(&registry.Check{
		ID:    "C14",
		Level: "model_checking",
		Rule:  "family A: every source portfolio in {second denom} x {no delegation, V1, V1+V2} x {0,1,2 unbonding entries on V1} x {entry shares / does not share its completion time with another delegator} x {redelegation} x {pending rewards} (and the same after the source undelegated everything: no delegation left, only unbonding / redelegation entries) is built through ordinary messages and migrated to a fresh target; oracles: portfolio(target) after = portfolio(source) before, source empty, validator totals and supply unchanged, all crisis invariants, second migration refused, and a twin run - withdraw, fully undelegate, wait 22 days - gives the migrated target exactly what the un-migrated source gets on a sibling branch. Family B: governance involvement {proposer, depositor, voter} x {deposit period, voting period, ended} x {source, target} x {attempted at once, 13 days later, after governance shortened both periods to one hour, under a 30-day per-type voting period 20 days in}, target with delegation / unbonding / validator operator / already migrated, signature by another key / over the swapped pair / valid for another source and already seen by the node: accepted iff the statement's conditions hold, refusals change no byte. states = distinct configurations",
		Assumptions: []string{"source accounts are legacy secp256k1 accounts whose public key is on record (the module requires it)", "stake unit 100 FX; validators never slashed here"},
		Jobs: func(tier string) []registry.Job {
			return []registry.Job{{Name: "portfolios+conditions", Custom: run(tier == "thorough"), Shards: 16}}
		},
	})
}
