// Package c08: coin<->ERC-20 conversion conserves value and keeps token-pair books balanced.
package c08

import (
	"fmt"
	"math/big"
	"sort"
	"strings"
	"time"

	sdkmath "cosmossdk.io/math"
	sdk "github.com/cosmos/cosmos-sdk/types"
	authtypes "github.com/cosmos/cosmos-sdk/x/auth/types"
	"github.com/ethereum/go-ethereum/common"

	"github.com/functionx/fx-core/v8/contract"
	fxtypes "github.com/functionx/fx-core/v8/types"
	cctypes "github.com/functionx/fx-core/v8/x/crosschain/types"
	erc20types "github.com/functionx/fx-core/v8/x/erc20/types"

	"fxmc/evmasm"
	"fxmc/explore"
	"fxmc/props/registry"
	"fxmc/scen"
	"fxmc/world"
)

type base struct {
	w       *world.World
	toks    map[string]scen.Token
	os      map[string][]scen.Oracle
	holders []common.Address // every address whose ERC-20 balance may be non-zero
}

func erc20Module() common.Address {
	return common.BytesToAddress(authtypes.NewModuleAddress(erc20types.ModuleName))
}

func setupBase(b *base) sdk.Context {
	w := world.New(world.Config{Validators: 2, Actors: []string{"bank", "u1", "u2", "rel"}})
	b.w = w
	ctx := w.Root
	b.os = map[string][]scen.Oracle{"eth": scen.SetupOracles(w, ctx, "eth", []string{"eth-o1"}, []int64{10000})}
	nonces := map[string]uint64{}
	b.toks = map[string]scen.Token{}
	b.toks["FX"] = scen.RegisterFX(w, ctx, b.os, nonces, 1000)
	b.toks["usdt"] = scen.RegisterModuleToken(w, ctx, "USDT", b.os, nonces, 1000)
	b.toks["tok"] = scen.RegisterExternalToken(w, ctx, w.A("u1"), "TOK", 1000, b.os, nonces, 1000)
	// an externally-owned pair whose token is of the pre-standard kind: transfer answers false instead of reverting
	lgc := w.Deploy(ctx, w.A("u1"), evmasm.LegacyTokenInit("Legacy Token", "LGC"))
	w.MustDeliver(ctx, &erc20types.MsgRegisterERC20{Authority: world.GovAuthority(), Erc20Address: lgc.String(), Aliases: []string{"eth" + scen.ExtAddr("eth", "lgc-token")}})
	b.toks["lgc"] = scen.Token{Name: "lgc", Base: "lgc", Kind: "external", ERC20: lgc, Ext: map[string]string{}, Bridge: map[string]string{}, Decimals: 18}
	// an externally-owned pair whose token can destroy itself; u1 holds 5 units of its coin
	mrt := w.Deploy(ctx, w.A("u1"), evmasm.MortalTokenInit("Mortal Token", "MRT"))
	w.MustDeliver(ctx, &erc20types.MsgRegisterERC20{Authority: world.GovAuthority(), Erc20Address: mrt.String(), Aliases: []string{"eth" + scen.ExtAddr("eth", "mrt-token")}})
	b.toks["mrt"] = scen.Token{Name: "mrt", Base: "mrt", Kind: "external", ERC20: mrt, Ext: map[string]string{}, Bridge: map[string]string{}, Decimals: 18}
	w.MustDeliver(ctx, &erc20types.MsgConvertERC20{ContractAddress: mrt.String(), Amount: sdkmath.NewInt(5), Receiver: w.A("u1").Bech(), Sender: w.A("u1").Hex().String()})
	n := nonces["eth"]
	for _, u := range []string{"u1", "u2"} {
		n++
		scen.Observe(w, ctx, "eth", b.os["eth"], scen.SendToFxClaim("eth", n, 1000, b.toks["usdt"].Ext["eth"], 100, scen.ExtAddr("eth", "depositor"), w.A(u).Acc(), "", ""))
		if r := w.CallABI(ctx, w.A("rel"), cctypes.GetAddress(), cctypes.GetABI(), nil, 800000, "executeClaim", "eth", new(big.Int).SetUint64(n)); !r.Success() {
			panic(r.String())
		}
	}
	// the bank module already knows the metadata (with its alias) of a coin that is registered as a pair only later
	// (bank genesis, or a coin the crosschain module described first)
	w.App.BankKeeper.SetDenomMetaData(ctx, fxtypes.GetCrossChainMetadataManyToOne("Dai", "DAI", 18, "eth"+scen.ExtAddr("eth", "dai")))
	// u1 also holds five units of usdt in eth's bridge denomination (what a deposit leaves before it is converted to
	// the base denom; balances of this kind exist from earlier versions)
	if err := scen.Keeper(w, "eth").DepositBridgeToken(ctx, sdk.NewInt64Coin(b.toks["usdt"].Bridge["eth"], 5), w.A("u1").Acc()); err != nil {
		panic(err)
	}
	b.holders = []common.Address{w.A("u1").Hex(), w.A("u2").Hex(), w.A("rel").Hex(), erc20Module(), cctypes.GetAddress(), b.toks["FX"].ERC20}
	for _, t := range b.toks {
		if t.Name != "FX" {
			b.holders = append(b.holders, t.ERC20) // a token contract can be named as receiver of a conversion
		}
	}
	return ctx
}

func sig(x string) string { return "C08/" + x }

// pairInvariants checks the books of every registered pair; extra lists further ERC-20 holders (program contracts).
func (b *base) pairInvariants(ctx sdk.Context, extra []common.Address, report func(oracle, sig, detail string)) {
	w := b.w
	ek := w.App.Erc20Keeper
	bank := w.App.BankKeeper
	holders := append(append([]common.Address{}, b.holders...), extra...)
	pairs := ek.GetAllTokenPairs(ctx)
	for _, p := range pairs {
		tokenAddr := p.GetERC20Contract()
		if acc := w.App.EvmKeeper.GetAccount(ctx, tokenAddr); acc == nil || !acc.IsContract() {
			// the token contract destroyed itself: its books are gone with it; the pair is removed at the next conversion
			continue
		}
		supply := scen.TotalSupply(w, ctx, tokenAddr)
		sum := sdkmath.ZeroInt()
		seen := map[common.Address]bool{}
		for _, h := range holders {
			if seen[h] {
				continue
			}
			seen[h] = true
			sum = sum.Add(scen.BalanceOf(w, ctx, tokenAddr, h))
		}
		if !sum.Equal(supply) {
			report("erc20-balances-sum-to-supply", sig("erc20-balances-do-not-sum-to-total-supply/"+kind(p)), fmt.Sprintf("%s (%s): balances of all known holders sum to %s, totalSupply %s", p.Denom, tokenAddr, sum, supply))
		}
		switch {
		case p.IsNativeCoin() && p.Denom == fxtypes.DefaultDenom:
			esc := bank.GetBalance(ctx, tokenAddr.Bytes(), fxtypes.DefaultDenom).Amount
			if !esc.Equal(supply) {
				report("escrow-equals-supply", sig("wrapped-native-coin-escrow-differs-from-supply"), fmt.Sprintf("WFX holds %s FX, totalSupply %s", esc, supply))
			}
		case p.IsNativeCoin():
			esc := bank.GetBalance(ctx, authtypes.NewModuleAddress(erc20types.ModuleName), p.Denom).Amount
			if !esc.Equal(supply) {
				report("escrow-equals-supply", sig("module-owned-escrow-differs-from-supply"), fmt.Sprintf("%s: erc20 module escrows %s, ERC-20 totalSupply %s", p.Denom, esc, supply))
			}
		case p.IsNativeERC20():
			coins := bank.GetSupply(ctx, p.Denom).Amount
			if md, ok := bank.GetDenomMetaData(ctx, p.Denom); ok && len(md.DenomUnits) > 0 {
				for _, a := range md.DenomUnits[0].Aliases {
					coins = coins.Add(bank.GetSupply(ctx, a).Amount)
				}
			}
			esc := scen.BalanceOf(w, ctx, tokenAddr, erc20Module())
			if !esc.Equal(coins) {
				report("escrow-equals-supply", sig("externally-owned-escrow-differs-from-coin-supply"), fmt.Sprintf("%s: erc20 module holds %s tokens, coin supply over base + bridge denominations %s", p.Denom, esc, coins))
			}
		}
		// indexes describe the same pair
		if q, ok := ek.GetTokenPair(ctx, p.Denom); !ok || q.Erc20Address != p.Erc20Address {
			report("indexes-agree", sig("denom-index-disagrees"), fmt.Sprintf("%s -> %v", p.Denom, q))
		}
		if q, ok := ek.GetTokenPair(ctx, p.Erc20Address); !ok || q.Denom != p.Denom {
			report("indexes-agree", sig("contract-index-disagrees"), fmt.Sprintf("%s -> %v", p.Erc20Address, q))
		}
		if md, ok := bank.GetDenomMetaData(ctx, p.Denom); ok && len(md.DenomUnits) > 0 {
			for _, a := range md.DenomUnits[0].Aliases {
				if d, ok := ek.GetAliasDenom(ctx, a); !ok || d != p.Denom {
					report("indexes-agree", sig("metadata-alias-missing-in-alias-index"), fmt.Sprintf("alias %s of %s -> (%s,%v)", a, p.Denom, d, ok))
				}
			}
		}
	}
	// every alias index entry is backed by metadata of a registered pair; every by-denom / by-contract index entry
	// points to a stored pair of that denom / contract
	st := scen.Store(w, ctx, erc20types.StoreKey)
	it := st.Iterator(nil, nil)
	defer it.Close()
	for ; it.Valid(); it.Next() {
		if len(it.Key()) > 1 && (it.Key()[0] == erc20types.KeyPrefixTokenPairByDenom[0] || it.Key()[0] == erc20types.KeyPrefixTokenPairByERC20[0]) {
			bz := st.Get(append(append([]byte{}, erc20types.KeyPrefixTokenPair...), it.Value()...))
			okEntry := false
			if bz != nil {
				var tp erc20types.TokenPair
				if err := w.App.AppCodec().Unmarshal(bz, &tp); err == nil {
					if it.Key()[0] == erc20types.KeyPrefixTokenPairByDenom[0] {
						okEntry = tp.Denom == string(it.Key()[1:])
					} else {
						okEntry = tp.GetERC20Contract() == common.BytesToAddress(it.Key()[1:])
					}
				}
			}
			if !okEntry {
				report("indexes-agree", sig("index-entry-without-pair"), fmt.Sprintf("index key %x -> pair id %x: no stored pair of that denom / contract", it.Key(), it.Value()))
			}
		}
		if len(it.Key()) > 0 && it.Key()[0] == erc20types.KeyPrefixAliasDenom[0] && len(erc20types.KeyPrefixAliasDenom) == 1 {
			alias := string(it.Key()[1:])
			denom := string(it.Value())
			md, ok := bank.GetDenomMetaData(ctx, denom)
			found := false
			if ok && len(md.DenomUnits) > 0 {
				for _, a := range md.DenomUnits[0].Aliases {
					if a == alias {
						found = true
					}
				}
			}
			if !found || !ek.IsDenomRegistered(ctx, denom) {
				report("indexes-agree", sig("alias-index-entry-without-metadata-alias"), fmt.Sprintf("alias index %s -> %s, metadata aliases do not list it (pair registered: %v)", alias, denom, ek.IsDenomRegistered(ctx, denom)))
			}
		}
	}
}

func kind(p erc20types.TokenPair) string {
	switch {
	case p.Denom == fxtypes.DefaultDenom:
		return "FX"
	case p.IsNativeCoin():
		return "module-owned"
	}
	return "externally-owned"
}

// ---------------------------------------------------------------- message half (DFS)

type Spec struct {
	Thorough bool
	b        base
}

func (s *Spec) Name() string { return fmt.Sprintf("c08/messages/thorough=%v", s.Thorough) }

func (s *Spec) Init() *explore.State {
	ctx := setupBase(&s.b)
	return &explore.State{W: s.b.w, Ctx: ctx, Model: explore.NoModel{}}
}

func (s *Spec) convOp(user, tok string, toERC20 bool, amt int64, receiver string) explore.Op {
	name := fmt.Sprintf("ConvertCoin(%s,%s,%d->%s)", user, tok, amt, receiver)
	if !toERC20 {
		name = fmt.Sprintf("ConvertERC20(%s,%s,%d->%s)", user, tok, amt, receiver)
	}
	return explore.Op{Name: name, Run: func(c *explore.State) {
		w := s.b.w
		tk := s.b.toks[tok]
		u, rcv := w.A(user), w.A(receiver)
		coinBal := func(a world.Actor) sdkmath.Int { return w.App.BankKeeper.GetBalance(c.Ctx, a.Acc(), tk.Base).Amount }
		ercBal := func(a world.Actor) sdkmath.Int { return scen.BalanceOf(w, c.Ctx, tk.ERC20, a.Hex()) }
		c0s, e0s, c0r, e0r := coinBal(u), ercBal(u), coinBal(rcv), ercBal(rcv)
		var r world.MsgResult
		if toERC20 {
			r = w.Deliver(c.Ctx, &erc20types.MsgConvertCoin{Coin: sdk.NewInt64Coin(tk.Base, amt), Receiver: rcv.Hex().String(), Sender: u.Bech()})
		} else {
			r = w.Deliver(c.Ctx, &erc20types.MsgConvertERC20{ContractAddress: tk.ERC20.String(), Amount: sdkmath.NewInt(amt), Receiver: rcv.Bech(), Sender: u.Hex().String()})
		}
		c.Accepted = r.OK()
		c.Outcome = map[bool]string{true: "ok", false: "rejected"}[r.OK()]
		if !r.OK() {
			return
		}
		a := sdkmath.NewInt(amt)
		dcs, des, dcr, der := coinBal(u).Sub(c0s), ercBal(u).Sub(e0s), coinBal(rcv).Sub(c0r), ercBal(rcv).Sub(e0r)
		bad := false
		if tk.Kind == "fx" {
			// gas price is zero; FX coin of the sender drops by amt, receiver's WFX rises by amt (and vice versa)
		}
		if toERC20 {
			if user == receiver {
				bad = !dcs.Equal(a.Neg()) || !des.Equal(a)
			} else {
				bad = !dcs.Equal(a.Neg()) || !des.IsZero() || !dcr.IsZero() || !der.Equal(a)
			}
		} else {
			if user == receiver {
				bad = !des.Equal(a.Neg()) || !dcs.Equal(a)
			} else {
				bad = !des.Equal(a.Neg()) || !dcs.IsZero() || !der.IsZero() || !dcr.Equal(a)
			}
		}
		if bad {
			c.Violate("conversion-moves-exactly-the-amount", sig("conversion-moved-wrong-amounts/"+tk.Kind), fmt.Sprintf("%s: sender coin %s erc20 %s; receiver coin %s erc20 %s", name, dcs, des, dcr, der))
		}
	}}
}

// convToAddrOp converts to an unusual receiver given by address (a module account, the token contract itself).
// Whether such a conversion is admitted is the implementation's choice; if it is, the sender must lose exactly the
// amount in the source form and the receiver must gain exactly the amount in the target form.
func (s *Spec) convToAddrOp(tok string, toERC20 bool, amt int64, rname string, raddr common.Address) explore.Op {
	name := fmt.Sprintf("ConvertCoin(u1,%s,%d->%s)", tok, amt, rname)
	if !toERC20 {
		name = fmt.Sprintf("ConvertERC20(u1,%s,%d->%s)", tok, amt, rname)
	}
	return explore.Op{Name: name, Run: func(c *explore.State) {
		w := s.b.w
		tk := s.b.toks[tok]
		u := w.A("u1")
		coinBal := func(a sdk.AccAddress) sdkmath.Int { return w.App.BankKeeper.GetBalance(c.Ctx, a, tk.Base).Amount }
		ercBal := func(a common.Address) sdkmath.Int { return scen.BalanceOf(w, c.Ctx, tk.ERC20, a) }
		c0s, e0s, c0r, e0r := coinBal(u.Acc()), ercBal(u.Hex()), coinBal(raddr.Bytes()), ercBal(raddr)
		var r world.MsgResult
		if toERC20 {
			r = w.Deliver(c.Ctx, &erc20types.MsgConvertCoin{Coin: sdk.NewInt64Coin(tk.Base, amt), Receiver: raddr.String(), Sender: u.Bech()})
		} else {
			r = w.Deliver(c.Ctx, &erc20types.MsgConvertERC20{ContractAddress: tk.ERC20.String(), Amount: sdkmath.NewInt(amt), Receiver: sdk.AccAddress(raddr.Bytes()).String(), Sender: u.Hex().String()})
		}
		c.Accepted = r.OK()
		c.Outcome = map[bool]string{true: "ok", false: "rejected"}[r.OK()]
		if !r.OK() {
			return
		}
		a := sdkmath.NewInt(amt)
		dcs, des, dcr, der := coinBal(u.Acc()).Sub(c0s), ercBal(u.Hex()).Sub(e0s), coinBal(raddr.Bytes()).Sub(c0r), ercBal(raddr).Sub(e0r)
		bad := false
		if toERC20 {
			bad = !dcs.Equal(a.Neg()) || !des.IsZero() || !der.Equal(a)
		} else {
			bad = !des.Equal(a.Neg()) || !dcs.IsZero() || !dcr.Equal(a)
		}
		if bad {
			c.Violate("conversion-moves-exactly-the-amount", sig("conversion-to-special-receiver-moved-wrong-amounts/"+tk.Kind), fmt.Sprintf("%s: sender coin %s erc20 %s; receiver coin %s erc20 %s", name, dcs, des, dcr, der))
		}
	}}
}

func (s *Spec) Ops(st *explore.State) []explore.Op {
	w := s.b.w
	ctx := st.Ctx
	var ops []explore.Op
	toks := []string{"usdt", "tok", "FX"}
	for _, t := range toks {
		ops = append(ops, s.convOp("u1", t, true, 3, "u1"), s.convOp("u1", t, false, 2, "u1"))
		ops = append(ops, s.convOp("u1", t, true, 3, "u2"), s.convOp("u2", t, false, 2, "u1"))
		ops = append(ops, s.convToAddrOp(t, true, 1, "erc20-module", erc20Module()), s.convToAddrOp(t, false, 1, "erc20-module", erc20Module()))
		ops = append(ops, s.convToAddrOp(t, true, 1, "token-contract", s.b.toks[t].ERC20), s.convToAddrOp(t, true, 1, "precompile", cctypes.GetAddress()))
	}
	// the pre-standard token: its holder converts, and an account that holds none of it tries to (transfer answers false)
	ops = append(ops, s.convOp("u1", "lgc", false, 2, "u1"), s.convOp("u1", "lgc", true, 3, "u1"), s.convOp("u2", "lgc", false, 2, "u2"), s.convOp("u1", "lgc", true, 1, "u2"))
	// the self-destructible token: anyone kills it; the next conversion finds the contract gone and removes the pair -
	// accepted or refused, it moves nothing, and afterwards no index names the pair any more
	mrt := s.b.toks["mrt"]
	if acc := w.App.EvmKeeper.GetAccount(st.Ctx, mrt.ERC20); acc != nil && acc.IsContract() {
		ops = append(ops, explore.Op{Name: "Kill(mrt)", Run: func(c *explore.State) {
			r := w.EthTx(c.Ctx, w.A("u2"), &mrt.ERC20, []byte{0x41, 0xc0, 0xe1, 0xb5}, nil, 300000)
			c.Accepted = r.Success()
			c.Outcome = map[bool]string{true: "ok", false: "failed"}[r.Success()]
		}})
		ops = append(ops, s.convOp("u1", "mrt", true, 2, "u1"))
	} else if w.App.Erc20Keeper.IsDenomRegistered(st.Ctx, "mrt") {
		for _, toERC20 := range []bool{true, false} {
			toERC20 := toERC20
			ops = append(ops, explore.Op{Name: fmt.Sprintf("ConvertAfterKill(mrt,to-erc20=%v)", toERC20), Run: func(c *explore.State) {
				u1 := w.A("u1")
				before := w.App.BankKeeper.GetAllBalances(c.Ctx, u1.Acc()).String()
				var r world.MsgResult
				if toERC20 {
					r = w.Deliver(c.Ctx, &erc20types.MsgConvertCoin{Coin: sdk.NewInt64Coin("mrt", 1), Receiver: u1.Hex().String(), Sender: u1.Bech()})
				} else {
					r = w.Deliver(c.Ctx, &erc20types.MsgConvertERC20{ContractAddress: mrt.ERC20.String(), Amount: sdkmath.NewInt(1), Receiver: u1.Bech(), Sender: u1.Hex().String()})
				}
				c.Accepted = r.OK()
				c.Outcome = map[bool]string{true: "pair-removed", false: "rejected"}[r.OK()]
				if r.Panic != nil {
					c.Outcome = "panic"
				}
				if after := w.App.BankKeeper.GetAllBalances(c.Ctx, u1.Acc()).String(); after != before {
					c.Violate("conversion-moves-exactly-the-amount", sig("conversion-with-destroyed-token-moved-coins"), fmt.Sprintf("u1's coins %s -> %s although the token contract is gone", before, after))
				}
				if r.OK() && (w.App.Erc20Keeper.IsDenomRegistered(c.Ctx, "mrt") || w.App.Erc20Keeper.IsERC20Registered(c.Ctx, mrt.ERC20)) {
					c.Violate("indexes-agree", sig("destroyed-token-pair-still-registered-after-accepted-conversion"), "")
				}
			}})
		}
	}
	gov := func(name string, msg sdk.Msg) explore.Op {
		return explore.Op{Name: name, Run: func(c *explore.State) {
			r := w.Deliver(c.Ctx, msg)
			c.Accepted = r.OK()
			c.Outcome = map[bool]string{true: "ok", false: "rejected"}[r.OK()]
			if r.Panic != nil {
				c.Outcome = "panic"
			}
		}}
	}
	for _, t := range []string{"usdt", "tok"} {
		ops = append(ops, gov("Toggle("+t+")", &erc20types.MsgToggleTokenConversion{Authority: world.GovAuthority(), Token: s.b.toks[t].Base}))
		alias := "bsc" + scen.ExtAddr("bsc", t+"-alias")
		ops = append(ops, gov("UpdateAlias("+t+",bsc)", &erc20types.MsgUpdateDenomAlias{Authority: world.GovAuthority(), Denom: s.b.toks[t].Base, Alias: alias}))
		// removing the eth alias as well (the only / last alias for tok)
		ops = append(ops, gov("UpdateAlias("+t+",eth)", &erc20types.MsgUpdateDenomAlias{Authority: world.GovAuthority(), Denom: s.b.toks[t].Base, Alias: s.b.toks[t].Bridge["eth"]}))
	}
	// convert denom between base and bridge denomination (user level)
	ops = append(ops, gov("ConvertDenom(u1,usdt->eth)", &erc20types.MsgConvertDenom{Sender: w.A("u1").Bech(), Receiver: w.A("u1").Bech(), Coin: sdk.NewInt64Coin("usdt", 2), Target: "eth"}))
	ops = append(ops, gov("ConvertDenom(u1,eth-usdt->base)", &erc20types.MsgConvertDenom{Sender: w.A("u1").Bech(), Receiver: w.A("u2").Bech(), Coin: sdk.NewInt64Coin(s.b.toks["usdt"].Bridge["eth"], 1), Target: "erc20"}))
	// a coin in the pair's bridge denomination (not its base denom) offered for conversion to the ERC-20
	ops = append(ops, gov("ConvertCoin(u1,eth-usdt,1)", &erc20types.MsgConvertCoin{Coin: sdk.NewInt64Coin(s.b.toks["usdt"].Bridge["eth"], 1), Receiver: w.A("u1").Hex().String(), Sender: w.A("u1").Bech()}))
	if !w.App.Erc20Keeper.IsDenomRegistered(ctx, "dai") {
		ops = append(ops, gov("RegisterCoin(dai)", &erc20types.MsgRegisterCoin{Authority: world.GovAuthority(), Metadata: fxtypes.GetCrossChainMetadataManyToOne("Dai", "DAI", 18, "eth"+scen.ExtAddr("eth", "dai"))}))
	}
	// bridge operations that convert
	ops = append(ops, explore.Op{Name: "SendEVM(u1,usdt,2+1)", Run: func(c *explore.State) {
		tk := s.b.toks["usdt"]
		u := w.A("u1")
		if scen.BalanceOf(w, c.Ctx, tk.ERC20, u.Hex()).LT(sdkmath.NewInt(3)) {
			c.Outcome = "no-erc20"
			return
		}
		if ar := w.CallABI(c.Ctx, u, tk.ERC20, contract.GetFIP20().ABI, nil, 300000, "approve", cctypes.GetAddress(), big.NewInt(3)); !ar.Success() {
			c.Outcome = "approve-failed"
			return
		}
		var target [32]byte
		copy(target[:], "eth")
		r := w.CallABI(c.Ctx, u, cctypes.GetAddress(), cctypes.GetABI(), nil, 1_500_000, "crossChain", tk.ERC20, scen.ExtAddr("eth", "u1-ext"), big.NewInt(2), big.NewInt(1), target, "")
		c.Accepted = r.Success()
		c.Outcome = map[bool]string{true: "ok", false: "reverted"}[r.Success()]
	}})
	for id := uint64(1); id <= scen.LastTxPoolID(w, ctx, "eth") && id <= 2; id++ {
		id := id
		ops = append(ops, explore.Op{Name: fmt.Sprintf("CancelEVM(%d)", id), Run: func(c *explore.State) {
			r := w.CallABI(c.Ctx, w.A("u1"), cctypes.GetAddress(), cctypes.GetABI(), nil, 1_500_000, "cancelSendToExternal", "eth", new(big.Int).SetUint64(id))
			c.Accepted = r.Success()
			c.Outcome = map[bool]string{true: "ok", false: "reverted"}[r.Success()]
		}})
	}
	ops = append(ops, explore.Op{Name: "Block", Run: func(c *explore.State) {
		next, r := w.NextBlock(c.Ctx, 5*time.Second)
		c.Ctx = next
		c.Accepted = r.Err == nil && r.Panic == nil
		c.Outcome = "ok"
	}})
	return ops
}

func (s *Spec) Check(st *explore.State) {
	s.b.pairInvariants(st.Ctx, nil, func(o, sg, d string) { st.Violate(o, sg, d) })
}

func (s *Spec) Counters(st *explore.State) []string {
	var out []string
	for _, t := range []string{"usdt", "tok"} {
		if scen.TotalSupply(s.b.w, st.Ctx, s.b.toks[t].ERC20).IsPositive() {
			out = append(out, "erc20-supply/"+t)
		}
	}
	if scen.LastTxPoolID(s.b.w, st.Ctx, "eth") > 0 {
		out = append(out, "pool-entry-from-erc20")
	}
	return out
}

// ---------------------------------------------------------------- program half

type actionKind struct {
	name string
	mk   func(b *base, tok scen.Token, self common.Address) evmasm.Action
}

func erc(name string, args ...interface{}) []byte {
	d, err := contract.GetFIP20().ABI.Pack(name, args...)
	if err != nil {
		panic(err)
	}
	return d
}

func ccall(name string, args ...interface{}) []byte {
	d, err := cctypes.GetABI().Pack(name, args...)
	if err != nil {
		panic(err)
	}
	return d
}

func alphabet() []actionKind {
	var target [32]byte
	copy(target[:], "eth")
	pre := cctypes.GetAddress()
	return []actionKind{
		{"transfer(u2,1)", func(b *base, t scen.Token, self common.Address) evmasm.Action {
			return evmasm.CallOf(evmasm.CALL, t.ERC20, erc("transfer", b.w.A("u2").Hex(), big.NewInt(1)), evmasm.Ignore)
		}},
		{"approve(precompile,10)", func(b *base, t scen.Token, self common.Address) evmasm.Action {
			return evmasm.CallOf(evmasm.CALL, t.ERC20, erc("approve", pre, big.NewInt(10)), evmasm.Ignore)
		}},
		{"transferFrom(u1,self,1)", func(b *base, t scen.Token, self common.Address) evmasm.Action {
			return evmasm.CallOf(evmasm.CALL, t.ERC20, erc("transferFrom", b.w.A("u1").Hex(), self, big.NewInt(1)), evmasm.Ignore)
		}},
		{"crossChain(2+1)", func(b *base, t scen.Token, self common.Address) evmasm.Action {
			return evmasm.CallOf(evmasm.CALL, pre, ccall("crossChain", t.ERC20, scen.ExtAddr("eth", "p-ext"), big.NewInt(2), big.NewInt(1), target, ""), evmasm.Ignore)
		}},
		{"bridgeCall(2)", func(b *base, t scen.Token, self common.Address) evmasm.Action {
			return evmasm.CallOf(evmasm.CALL, pre, ccall("bridgeCall", "eth", self, []common.Address{t.ERC20}, []*big.Int{big.NewInt(2)}, common.HexToAddress(scen.ExtAddr("eth", "callee")), []byte{1}, big.NewInt(0), []byte{}), evmasm.Ignore)
		}},
		{"cancelSendToExternal(next)", func(b *base, t scen.Token, self common.Address) evmasm.Action {
			return evmasm.CallOf(evmasm.CALL, pre, ccall("cancelSendToExternal", "eth", big.NewInt(1)), evmasm.Ignore)
		}},
		{"increaseBridgeFee(next,+1)", func(b *base, t scen.Token, self common.Address) evmasm.Action {
			return evmasm.CallOf(evmasm.CALL, pre, ccall("increaseBridgeFee", "eth", big.NewInt(1), t.ERC20, big.NewInt(1)), evmasm.Ignore)
		}},
	}
}

func programs(maxLen int) [][]int {
	n := len(alphabet())
	var out [][]int
	var rec func(cur []int)
	rec = func(cur []int) {
		if len(cur) > 0 {
			out = append(out, append([]int(nil), cur...))
		}
		if len(cur) == maxLen {
			return
		}
		for i := 0; i < n; i++ {
			rec(append(cur, i))
		}
	}
	rec(nil)
	return out
}

func runPrograms(thorough bool) func(shard, shards int, deadline time.Time) *explore.Result {
	return func(shard, shards int, deadline time.Time) *explore.Result {
		start := time.Now()
		res := &explore.Result{Spec: "c08/programs", Outcomes: map[string]int{}, Counters: map[string]int{}, ViolationCounts: map[string]int{}, Exhaustive: true, DeterminismOK: true, Extra: map[string]float64{}}
		var b base
		root := setupBase(&b)
		w := b.w
		// u1 approves nothing yet; give u1 ERC-20 of both tokens and an allowance to the future program address
		for _, t := range []string{"usdt"} {
			w.MustDeliver(root, &erc20types.MsgConvertCoin{Coin: sdk.NewInt64Coin(b.toks[t].Base, 50), Receiver: w.A("u1").Hex().String(), Sender: w.A("u1").Bech()})
		}
		maxLen := 3
		alpha := alphabet()
		progs := programs(maxLen)
		distinct := map[string]bool{}
		for pi, prog := range progs {
			if pi%shards != shard {
				continue
			}
			for _, tn := range []string{"usdt", "tok"} {
				tk := b.toks[tn]
				ctx := world.Branch(root)
				self := crypto_CreateAddress(w.A("u2").Hex(), w.App.EvmKeeper.GetNonce(ctx, w.A("u2").Hex()))
				var p evmasm.Program
				var names []string
				for _, ai := range prog {
					p.Actions = append(p.Actions, alpha[ai].mk(&b, tk, self))
					names = append(names, alpha[ai].name)
				}
				addr := w.Deploy(ctx, w.A("u2"), p.InitCode())
				if addr != self {
					panic("address prediction")
				}
				// the program owns 20 tokens and may pull from u1
				if r := w.CallABI(ctx, w.A("u1"), tk.ERC20, contract.GetFIP20().ABI, nil, 300000, "transfer", addr, big.NewInt(20)); !r.Success() {
					panic(r.String())
				}
				if r := w.CallABI(ctx, w.A("u1"), tk.ERC20, contract.GetFIP20().ABI, nil, 300000, "approve", addr, big.NewInt(5)); !r.Success() {
					panic(r.String())
				}
				scen.Fund(w, ctx, sdk.AccAddress(addr.Bytes()), sdk.NewCoins(world.FXCoin(10)))
				// sanity: the books are balanced before the program runs
				preBad := 0
				b.pairInvariants(ctx, []common.Address{addr}, func(o, sg, d string) { preBad++ })
				if preBad > 0 {
					panic("books unbalanced before the program: harness error")
				}
				r := w.EthTx(ctx, w.A("u2"), &addr, nil, nil, 8_000_000)
				res.Transitions++
				res.Extra["evaluations"]++
				name := tn + ": " + strings.Join(names, " ; ")
				res.Outcomes[fmt.Sprintf("%s/tx-success=%v", tn, r.Success())]++
				poolAfter := scen.LastTxPoolID(w, ctx, "eth")
				callAfter := scen.LastBridgeCallID(w, ctx, "eth")
				cls := fmt.Sprintf("%s|pool=%d|calls=%d|ok=%v", name, poolAfter, callAfter, r.Success())
				distinct[cls] = true
				if poolAfter > 0 || callAfter > 0 {
					res.Counters["program-converted-through-precompile"]++
				}
				if len(res.Samples) < 4 && (poolAfter > 0 || callAfter > 0) {
					res.Samples = append(res.Samples, []string{name, r.String(), fmt.Sprintf("pool entries %d, bridge calls %d", poolAfter, callAfter)})
				}
				b.pairInvariants(ctx, []common.Address{addr}, func(o, sg, d string) {
					// classify by the first converting precompile method of the program
					// classify by the precompile method that converts through a keeper-level (nested) EVM execution
					first := "token-calls-only"
					for _, cls := range []string{"crossChain", "increaseBridgeFee", "cancelSendToExternal", "bridgeCall"} {
						for _, n := range names {
							if strings.HasPrefix(n, cls) {
								first = cls
							}
						}
					}
					_ = sg
					// ... and by whether the program had already written the token's storage in the running transaction when
					// that method was called (the lost-update mechanism of the known findings needs such an earlier write)
					where := "/without-earlier-token-write"
					written := false // some earlier action wrote the token's storage through the running EVM
					for _, n := range names {
						if strings.HasPrefix(n, first) && written {
							where = "/after-earlier-token-write"
						}
						if !strings.HasPrefix(n, "bridgeCall") && !strings.HasPrefix(n, "cancelSendToExternal") && !strings.HasPrefix(n, "increaseBridgeFee") {
							written = true
						}
					}
					if first == "token-calls-only" {
						where = ""
					}
					s := "C08/books-unbalanced-after-program-calling-" + first + where
					d = o + ": " + d
					res.ViolationCounts[s]++
					for _, v := range res.Violations {
						if v.Signature == s && len(v.Path) <= len(names)+1 {
							return
						}
					}
					nv := explore.Violation{Oracle: o, Signature: s, Detail: name + " -> " + d, Path: append([]string{tn}, names...)}
					for i, v := range res.Violations {
						if v.Signature == s {
							res.Violations[i] = nv
							return
						}
					}
					res.Violations = append(res.Violations, nv)
				})
			}
		}
		res.States = len(distinct)
		res.Extra["distinct_nontrivial"] = float64(len(distinct))
		res.Extra["programs"] = float64(len(progs))
		res.WallS = time.Since(start).Seconds()
		sort.Slice(res.Violations, func(i, j int) bool { return res.Violations[i].Signature < res.Violations[j].Signature })
		return res
	}
}

func init() {
	registry.Register(&registry.Check{
		ID:          "C08",
		Level:       "model_checking",
		Rule:        "message half: explicit-state DFS over ConvertCoin / ConvertERC20 (self and third-party receiver, FX, module-owned and externally-owned pair), ConvertDenom, toggle, alias add/remove, RegisterCoin, crossChain from ERC-20 and its cancel, blocks; every state: module-owned escrow = ERC-20 totalSupply (WFX: contract's FX balance), externally-owned: tokens held by the module = coin supply over base + bridge denominations, ERC-20 balances of all known holders sum to totalSupply, denom / contract / alias indexes and bank-metadata aliases agree; every conversion moves exactly the amount between exactly sender and receiver. Program half: every program of <= 3 actions over {transfer, approve, transferFrom, crossChain, bridgeCall, cancelSendToExternal, increaseBridgeFee} on one token (both pair kinds), executed as one EVM transaction by a contract that owns tokens; same invariants afterwards",
		Assumptions: []string{"known ERC-20 holders: users, relayer, erc20 module, precompile address, WFX contract, the program contract", "amounts 1-3 units"},
		Jobs: func(tier string) []registry.Job {
			d := 4
			if tier == "thorough" {
				d = 5
			}
			return []registry.Job{
				{Name: "messages", Spec: &Spec{Thorough: tier == "thorough"}, Depth: d, ShardDepth: 2},
				{Name: "programs", Custom: runPrograms(tier == "thorough"), Shards: 16},
			}
		},
	})
}
