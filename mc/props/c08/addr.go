package c08

import (
	"github.com/ethereum/go-ethereum/common"
	"github.com/ethereum/go-ethereum/crypto"
)

func crypto_CreateAddress(from common.Address, nonce uint64) common.Address {
	return crypto.CreateAddress(from, nonce)
}
