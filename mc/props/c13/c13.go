// Package c13: oracle registry one-to-one; stake recoverable; only missed signing is slashed.
package c13

import (
	"bytes"
	"fmt"
	ethcrypto "github.com/ethereum/go-ethereum/crypto"
	"sort"
	"time"

	sdkmath "cosmossdk.io/math"
	sdk "github.com/cosmos/cosmos-sdk/types"

	cctypes "github.com/functionx/fx-core/v8/x/crosschain/types"

	"fxmc/explore"
	"fxmc/props/registry"
	"fxmc/scen"
	"fxmc/world"
)

const window = 2

type Spec struct {
	Chain   string
	Collide bool // offer colliding bridger / external addresses and out-of-bounds stakes
	Rewards bool // offer redelegate / withdraw-reward / edit-bridger
	Objects bool // batches and outgoing bridge calls as objects to be confirmed, a late-joining oracle (o3), confirms by o1 only
	// SecondChain: oracle o1 is also approved and bonded on this other bridge chain (same account, same keys); its
	// stake there is held by its own delegate address, derived from (oracle, module)
	SecondChain string
	Restart     bool // offer a restart of the module from its exported genesis (real ExportGenesis / InitGenesis)
	Focus       bool // narrowed alphabet (o2's life cycle only: blocks, removal, top-up, unbond; o1 confirms) for deeper histories
	w           *world.World
	os          []scen.Oracle // o1 (big stake), o2 (to be removed), o3 (approved later)
}

func (s *Spec) Name() string {
	return fmt.Sprintf("c13/%s/collide=%v/rewards=%v/focus=%v/objects=%v/restart=%v/second=%s", s.Chain, s.Collide, s.Rewards, s.Focus, s.Objects, s.Restart, s.SecondChain)
}

// Model: what each oracle transferred net of penalties paid, and how often it was paid out.
type Model struct {
	Staked  map[string]string // oracle -> DelegateAmount the model expects
	Paid    map[string]int    // oracle -> number of successful unbonds
	Removed map[string]bool
	// RemovedAt: block time (unix seconds) at which governance removed the oracle; Due: an end-blocker has run at a
	// block time past RemovedAt + unbonding time, i.e. whatever was unbonding has matured
	RemovedAt map[string]int64
	Due       map[string]bool
}

func (m *Model) Clone() explore.Model {
	c := &Model{Staked: map[string]string{}, Paid: map[string]int{}, Removed: map[string]bool{}, RemovedAt: map[string]int64{}, Due: map[string]bool{}}
	for k, v := range m.RemovedAt {
		c.RemovedAt[k] = v
	}
	for k, v := range m.Due {
		c.Due[k] = v
	}
	for k, v := range m.Staked {
		c.Staked[k] = v
	}
	for k, v := range m.Paid {
		c.Paid[k] = v
	}
	for k, v := range m.Removed {
		c.Removed[k] = v
	}
	return c
}

func (m *Model) Canon() []byte {
	var b bytes.Buffer
	var ks []string
	for k := range m.Staked {
		ks = append(ks, k)
	}
	sort.Strings(ks)
	for _, k := range ks {
		fmt.Fprintf(&b, "%s=%s/%d/%v|", k, m.Staked[k], m.Paid[k], m.Removed[k])
	}
	for _, k := range []string{"o1", "o2", "o3"} {
		fmt.Fprintf(&b, "%s@%d/%v|", k, m.RemovedAt[k], m.Due[k])
	}
	return b.Bytes()
}

func (s *Spec) Init() *explore.State {
	w := world.New(world.Config{Validators: 2, Actors: []string{"bank", "u1"}})
	s.w = w
	ctx := w.Root
	s.os = []scen.Oracle{scen.NewOracle(s.Chain, "o1"), scen.NewOracle(s.Chain, "o2"), scen.NewOracle(s.Chain, "o3")}
	for _, o := range s.os {
		scen.Fund(w, ctx, o.Acct.Acc(), sdk.NewCoins(world.FXCoin(300000)))
	}
	if r := scen.Approve(w, ctx, s.Chain, s.os[:2]); !r.OK() {
		panic(r.String())
	}
	w.MustDeliver(ctx, scen.BondMsg(s.Chain, s.os[0], w.Vals[0].ValAddr(), world.FX(40000)))
	w.MustDeliver(ctx, scen.BondMsg(s.Chain, s.os[1], w.Vals[0].ValAddr(), world.FX(10000)))
	scen.SetParams(w, ctx, s.Chain, func(p *cctypes.Params) { p.SignedWindow = window })
	if s.SecondChain != "" {
		o1b := scen.NewOracle(s.SecondChain, "o1")
		if r := scen.Approve(w, ctx, s.SecondChain, []scen.Oracle{o1b}); !r.OK() {
			panic(r.String())
		}
		w.MustDeliver(ctx, scen.BondMsg(s.SecondChain, o1b, w.Vals[0].ValAddr(), world.FX(20000)))
	}
	if s.Objects {
		scen.Observe(w, ctx, s.Chain, s.os[:2], scen.BridgeTokenClaim(s.Chain, 1, 100, scen.ExtAddr(s.Chain, s.Chain+"-fx-token"), "Function X", "FX", 18, ""))
	}
	m := &Model{Staked: map[string]string{"o1": world.FX(40000).String(), "o2": world.FX(10000).String()}, Paid: map[string]int{}, Removed: map[string]bool{}, RemovedAt: map[string]int64{}, Due: map[string]bool{}}
	return &explore.State{W: w, Ctx: ctx, Model: m}
}

func sig(x string) string { return "C13/" + x }

// delegateAddress is the account that holds an oracle's stake: the last 20 bytes of keccak256(oracle address | module
// name) - written out here, independent of the code under test.
func delegateAddress(oracle sdk.AccAddress, module string) sdk.AccAddress {
	return sdk.AccAddress(ethcrypto.Keccak256(append(append([]byte(nil), oracle...), []byte(module)...))[12:])
}

func (s *Spec) idx(name string) scen.Oracle {
	for _, o := range s.os {
		if o.Name == name {
			return o
		}
	}
	panic(name)
}

func (s *Spec) bondOp(name string, o scen.Oracle, amt sdkmath.Int, bridger world.Actor, ext string, mustReject string) explore.Op {
	return explore.Op{Name: name, Run: func(st *explore.State) {
		k := scen.Keeper(s.w, s.Chain)
		m := st.Model.(*Model)
		approved := k.IsProposalOracle(st.Ctx, o.Acct.Bech())
		msg := scen.BondMsg(s.Chain, o, s.w.Vals[0].ValAddr(), amt)
		msg.BridgerAddress = bridger.Bech()
		msg.ExternalAddress = ext
		r := s.w.Deliver(st.Ctx, msg)
		st.Accepted = r.OK()
		st.Outcome = map[bool]string{true: "ok", false: "rejected"}[r.OK()]
		if r.OK() {
			if !approved {
				st.Violate("bond-needs-approval", sig("bonded-without-governance-approval"), name)
			}
			if mustReject != "" {
				st.Violate("bond-rules", sig("bond-accepted-"+mustReject), name+" was accepted")
			}
			if mustReject != "by-an-oracle-that-is-bonded-already" {
				m.Staked[o.Name] = amt.String()
			}
		}
	}}
}

func (s *Spec) Ops(st *explore.State) []explore.Op {
	k := scen.Keeper(s.w, s.Chain)
	ctx := st.Ctx
	m := st.Model.(*Model)
	o1, o2, o3 := s.os[0], s.os[1], s.os[2]
	var ops []explore.Op
	thr := k.GetOracleDelegateThreshold(ctx).Amount
	max := thr.MulRaw(k.GetOracleDelegateMultiple(ctx))

	if s.Objects {
		ops = append(ops, s.objectOps(st)...)
	}
	if s.Restart {
		ops = append(ops, explore.Op{Name: "RestartFromExportedGenesis", Run: func(c *explore.State) {
			defer func() {
				if r := recover(); r != nil {
					c.Outcome = "panic"
					c.Violate("genesis-round-trip", "C13/export-import-panics", fmt.Sprint(r))
				}
			}()
			scen.RestartFromExportedGenesis(s.w, c.Ctx, s.Chain)
			c.Accepted = true
			c.Outcome = "ok"
		}})
	}
	// governance list updates
	if !k.IsProposalOracle(ctx, o3.Acct.Bech()) && !s.Focus {
		ops = append(ops, explore.Op{Name: "ApproveO3", Run: func(c *explore.State) {
			list := []scen.Oracle{o1, o3}
			if k.IsProposalOracle(c.Ctx, o2.Acct.Bech()) {
				list = []scen.Oracle{o1, o2, o3}
			}
			r := scen.Approve(s.w, c.Ctx, s.Chain, list)
			c.Accepted, c.Outcome = r.OK(), map[bool]string{true: "ok", false: "rejected"}[r.OK()]
		}})
	}
	if k.IsProposalOracle(ctx, o2.Acct.Bech()) && !s.Objects {
		ops = append(ops, explore.Op{Name: "RemoveO2", Run: func(c *explore.State) {
			list := []scen.Oracle{o1}
			if k.IsProposalOracle(c.Ctx, o3.Acct.Bech()) {
				list = []scen.Oracle{o1, o3}
			}
			_, had := k.GetOracle(c.Ctx, o2.Acct.Acc())
			r := scen.Approve(s.w, c.Ctx, s.Chain, list)
			c.Accepted, c.Outcome = r.OK(), map[bool]string{true: "ok", false: "rejected"}[r.OK()]
			if r.OK() && had {
				c.Model.(*Model).Removed["o2"] = true
				c.Model.(*Model).RemovedAt["o2"] = c.Ctx.BlockTime().Unix()
			}
		}})
	}
	// bonding of o3
	if !k.HasOracle(ctx, o3.Acct.Acc()) && m.Paid["o3"] == 0 && !s.Focus {
		ops = append(ops, s.bondOp("Bond(o3,min)", o3, thr, o3.Bridger, o3.ExtAddr, ""))
		if s.Collide {
			ops = append(ops, s.bondOp("Bond(o3,min-1)", o3, thr.SubRaw(1), o3.Bridger, o3.ExtAddr, "below-minimum"))
			ops = append(ops, s.bondOp("Bond(o3,max+1)", o3, max.AddRaw(1), o3.Bridger, o3.ExtAddr, "above-maximum"))
			ops = append(ops, s.bondOp("Bond(o3,min,bridger=o1's)", o3, thr, o1.Bridger, o3.ExtAddr, "with-bridger-of-another-oracle"))
			ops = append(ops, s.bondOp("Bond(o3,min,external=o1's)", o3, thr, o3.Bridger, o1.ExtAddr, "with-external-address-of-another-oracle"))
		}
	}
	if s.Collide {
		// an oracle that is bonded already bonds again (other bridger, other external address): one record per oracle
		if k.HasOracle(ctx, o1.Acct.Acc()) {
			ops = append(ops, s.bondOp("Bond(o1,again,new-bridger,new-external)", o1, thr, world.NewActor("o1-bridger-again"), scen.ExtAddr(s.Chain, "o1-external-again"), "by-an-oracle-that-is-bonded-already"))
		}
	}
	for _, o := range s.os {
		o := o
		orc, ok := k.GetOracle(ctx, o.Acct.Acc())
		if !ok {
			continue
		}
		// top-up (pays pending penalty, re-onlines)
		if orc.DelegateAmount.LT(max.QuoRaw(2)) && (o.Name != "o1" || !orc.Online) && !(s.Focus && o.Name != "o2") && !s.Objects {
			ops = append(ops, explore.Op{Name: "AddDelegate(" + o.Name + ")", Run: func(c *explore.State) {
				pre, _ := k.GetOracle(c.Ctx, o.Acct.Acc())
				penalty := pre.GetSlashAmount(k.GetSlashFraction(c.Ctx))
				amt := thr
				bal := s.w.App.BankKeeper.GetBalance(c.Ctx, o.Acct.Acc(), "FX").Amount
				r := s.w.Deliver(c.Ctx, &cctypes.MsgAddDelegate{ChainName: s.Chain, OracleAddress: o.Acct.Bech(), Amount: cctypes.NewDelegateAmount(amt)})
				c.Accepted, c.Outcome = r.OK(), map[bool]string{true: "ok", false: "rejected"}[r.OK()]
				if r.OK() {
					mm := c.Model.(*Model)
					old, _ := sdkmath.NewIntFromString(mm.Staked[o.Name])
					mm.Staked[o.Name] = old.Add(amt).Sub(penalty).String()
					if penalty.GT(pre.DelegateAmount) {
						c.Violate("penalty-within-stake", sig("penalty-exceeds-stake"), fmt.Sprintf("penalty %s > stake %s", penalty, pre.DelegateAmount))
					}
					nb := s.w.App.BankKeeper.GetBalance(c.Ctx, o.Acct.Acc(), "FX").Amount
					if !bal.Sub(nb).Equal(amt) {
						c.Violate("add-delegate-costs-amount", sig("add-delegate-cost-mismatch"), fmt.Sprintf("oracle paid %s for an add-delegate of %s", bal.Sub(nb), amt))
					}
					post, _ := k.GetOracle(c.Ctx, o.Acct.Acc())
					if post.SlashTimes != 0 {
						c.Violate("penalty-charged-once", sig("penalty-not-cleared"), "slash times not reset after the penalty was paid")
					}
				}
			}})
		}
		if s.Rewards && orc.Online {
			if orc.DelegateValidator == s.w.Vals[0].ValAddr().String() {
				ops = append(ops, s.simple("ReDelegate("+o.Name+")", &cctypes.MsgReDelegate{ChainName: s.Chain, OracleAddress: o.Acct.Bech(), ValidatorAddress: s.w.Vals[1].ValAddr().String()}))
			}
			ops = append(ops, s.simple("WithdrawReward("+o.Name+")", &cctypes.MsgWithdrawReward{ChainName: s.Chain, OracleAddress: o.Acct.Bech()}))
			nb := world.NewActor(o.Name + "-bridger2")
			if orc.BridgerAddress != nb.Bech() {
				ops = append(ops, s.simple("EditBridger("+o.Name+",new)", &cctypes.MsgEditBridger{ChainName: s.Chain, OracleAddress: o.Acct.Bech(), BridgerAddress: nb.Bech()}))
			}
			if s.Collide && o.Name != "o1" {
				ops = append(ops, explore.Op{Name: "EditBridger(" + o.Name + ",o1's)", Run: func(c *explore.State) {
					r := s.w.Deliver(c.Ctx, &cctypes.MsgEditBridger{ChainName: s.Chain, OracleAddress: o.Acct.Bech(), BridgerAddress: o1.Bridger.Bech()})
					c.Accepted, c.Outcome = r.OK(), map[bool]string{true: "ok", false: "rejected"}[r.OK()]
					if o1r, ok := k.GetOracle(c.Ctx, o1.Acct.Acc()); r.OK() && ok && o1r.BridgerAddress == o1.Bridger.Bech() {
						c.Violate("bridger-unique", sig("bridger-shared-by-two-oracles"), "edit-bridger to another oracle's bridger accepted")
					}
				}})
			}
		}
		// confirm the latest oracle set
		if osn := k.GetLatestOracleSet(ctx); osn != nil && orc.Online && k.GetOracleSetConfirm(ctx, osn.Nonce, o.Acct.Acc()) == nil && !((s.Focus || s.Objects) && o.Name != "o1") {
			bridger := orc.BridgerAddress
			ops = append(ops, explore.Op{Name: "ConfirmOS(" + o.Name + ")", Run: func(c *explore.State) {
				r := s.w.Deliver(c.Ctx, &cctypes.MsgOracleSetConfirm{ChainName: s.Chain, BridgerAddress: bridger, ExternalAddress: o.ExtAddr, Nonce: osn.Nonce,
					Signature: scen.Sign(s.Chain, o.ExtKey, scen.OracleSetCheckpoint(s.Chain, k.GetGravityID(c.Ctx), osn))})
				c.Accepted, c.Outcome = r.OK(), map[bool]string{true: "ok", false: "rejected"}[r.OK()]
			}})
		}
		// unbond (only meaningful once governance removed the oracle)
		if !k.IsProposalOracle(ctx, o.Acct.Bech()) {
			ops = append(ops, s.unbondOp(o))
		}
	}
	ops = append(ops, s.blockOp("Block", 5*time.Second))
	if !s.Objects {
		ops = append(ops, s.blockOp("Block22d", 22*24*time.Hour))
	}
	return ops
}

func (s *Spec) simple(name string, msg sdk.Msg) explore.Op {
	return explore.Op{Name: name, Run: func(c *explore.State) {
		r := s.w.Deliver(c.Ctx, msg)
		c.Accepted, c.Outcome = r.OK(), map[bool]string{true: "ok", false: "rejected"}[r.OK()]
		if r.Panic != nil {
			c.Outcome = "panic"
		}
	}}
}

func (s *Spec) unbondOp(o scen.Oracle) explore.Op {
	return explore.Op{Name: "Unbond(" + o.Name + ")", Run: func(c *explore.State) {
		k := scen.Keeper(s.w, s.Chain)
		m := c.Model.(*Model)
		pre, _ := k.GetOracle(c.Ctx, o.Acct.Acc())
		dAddr := delegateAddress(pre.GetOracle(), s.Chain)
		_, ubdErr := s.w.App.StakingKeeper.GetUnbondingDelegation(c.Ctx, dAddr, pre.GetValidator())
		stillUnbonding := ubdErr == nil
		_, delErr := s.w.App.StakingKeeper.GetDelegation(c.Ctx, dAddr, pre.GetValidator())
		stillDelegated := delErr == nil
		dBal := s.w.App.BankKeeper.GetBalance(c.Ctx, dAddr, "FX").Amount
		oBal := s.w.App.BankKeeper.GetBalance(c.Ctx, o.Acct.Acc(), "FX").Amount
		penalty := pre.GetSlashAmount(k.GetSlashFraction(c.Ctx))
		r := s.w.Deliver(c.Ctx, &cctypes.MsgUnbondedOracle{ChainName: s.Chain, OracleAddress: o.Acct.Bech()})
		c.Accepted, c.Outcome = r.OK(), map[bool]string{true: "ok", false: "rejected"}[r.OK()]
		matured := !stillUnbonding && !stillDelegated && !pre.Online
		if r.OK() {
			m.Paid[o.Name]++
			if m.Paid[o.Name] > 1 {
				c.Violate("stake-paid-once", sig("unbond-paid-twice"), "second successful unbond of "+o.Name)
			}
			got := s.w.App.BankKeeper.GetBalance(c.Ctx, o.Acct.Acc(), "FX").Amount.Sub(oBal)
			if !matured {
				// the records are deleted although the stake has not come back: it can never be withdrawn
				c.Outcome = "ok-premature"
				c.Violate("stake-recoverable", sig("unbond-before-maturity-strands-stake"), fmt.Sprintf("unbond of %s accepted while its stake is still unbonding (delegate account balance %s): records deleted, oracle received %s, the stake matures into an account nobody controls", o.Name, dBal, got))
			} else if want := dBal.Sub(penalty); !got.Equal(want) {
				c.Violate("unbond-pays-stake-minus-penalty", sig("unbond-payout-mismatch"), fmt.Sprintf("oracle received %s, expected balance %s - penalty %s", got, dBal, penalty))
			}
			if k.HasOracle(c.Ctx, o.Acct.Acc()) {
				c.Violate("unbond-deletes-records", sig("unbond-kept-record"), o.Name)
			}
			delete(m.Staked, o.Name)
		} else if m.Removed[o.Name] && m.Due[o.Name] && !matured {
			c.Outcome = "rejected-stake-never-released"
			c.Violate("removed-oracle-can-withdraw-after-unbonding", sig("removed-oracle-stake-not-released"), fmt.Sprintf("oracle %s was removed by governance more than the unbonding time ago, but its stake never came back (still delegated: %v, still unbonding: %v, delegate account holds %s) and unbond is refused: %v", o.Name, stillDelegated, stillUnbonding, dBal, r.Err))
		} else if matured && m.Removed[o.Name] {
			c.Outcome = "rejected-after-maturity"
			c.Violate("removed-oracle-can-withdraw-after-unbonding", sig("unbond-refused-after-unbonding-period"), fmt.Sprintf("oracle %s was removed by governance, its unbonding completed (delegate account holds %s) but unbond is refused: %v", o.Name, dBal, r.Err))
		}
	}}
}

type objInfo struct {
	kind      string
	height    uint64
	confirmed map[string]bool // by oracle name
}

func (s *Spec) objects(ctx sdk.Context) []objInfo {
	k := scen.Keeper(s.w, s.Chain)
	var out []objInfo
	last := k.GetLastSlashedOracleSetNonce(ctx)
	k.IterateOracleSets(ctx, false, func(set *cctypes.OracleSet) bool {
		if set.Nonce <= last {
			return false
		}
		oi := objInfo{kind: fmt.Sprintf("oracle-set#%d", set.Nonce), height: set.Height, confirmed: map[string]bool{}}
		for _, o := range s.os {
			oi.confirmed[o.Name] = k.GetOracleSetConfirm(ctx, set.Nonce, o.Acct.Acc()) != nil
		}
		out = append(out, oi)
		return false
	})
	for _, b := range k.GetOutgoingTxBatches(ctx) {
		oi := objInfo{kind: fmt.Sprintf("batch#%d", b.BatchNonce), height: b.Block, confirmed: map[string]bool{}}
		for _, o := range s.os {
			oi.confirmed[o.Name] = k.GetBatchConfirm(ctx, b.TokenContract, b.BatchNonce, o.Acct.Acc()) != nil
		}
		out = append(out, oi)
	}
	k.IterateOutgoingBridgeCalls(ctx, func(c *cctypes.OutgoingBridgeCall) bool {
		oi := objInfo{kind: fmt.Sprintf("bridge-call#%d", c.Nonce), height: c.BlockHeight, confirmed: map[string]bool{}}
		for _, o := range s.os {
			oi.confirmed[o.Name] = k.HasBridgeCallConfirm(ctx, c.Nonce, o.Acct.Acc())
		}
		out = append(out, oi)
		return false
	})
	return out
}

// objectOps: things to confirm other than oracle sets, and o1's confirmations of them.
func (s *Spec) objectOps(st *explore.State) []explore.Op {
	k := scen.Keeper(s.w, s.Chain)
	ctx := st.Ctx
	ch := s.Chain
	u1 := s.w.A("u1")
	o1 := s.os[0]
	var ops []explore.Op
	if scen.LastTxPoolID(s.w, ctx, ch) < 1 {
		ops = append(ops, s.simple("SendExt", &cctypes.MsgSendToExternal{ChainName: ch, Sender: u1.Bech(), Dest: scen.ExtAddr(ch, "u1-ext"), Amount: sdk.NewInt64Coin("FX", 2), BridgeFee: sdk.NewInt64Coin("FX", 1)}))
	}
	if len(k.GetUnbatchedTransactions(ctx)) > 0 {
		ops = append(ops, s.simple("RequestBatch", &cctypes.MsgRequestBatch{ChainName: ch, Sender: o1.Bridger.Bech(), Denom: "FX", MinimumFee: sdkmath.NewInt(1), FeeReceive: scen.ExtAddr(ch, "feercv"), BaseFee: sdkmath.ZeroInt()}))
	}
	if scen.LastBridgeCallID(s.w, ctx, ch) < 1 {
		ops = append(ops, s.simple("BridgeCallOut", &cctypes.MsgBridgeCall{ChainName: ch, Sender: u1.Bech(), Refund: u1.Bech(), Coins: sdk.NewCoins(sdk.NewInt64Coin("FX", 2)), To: scen.ExtAddr(ch, "callee"), Data: "01", Value: sdkmath.ZeroInt()}))
	}
	if orc, ok := k.GetOracle(ctx, o1.Acct.Acc()); ok && orc.Online {
		gid := k.GetGravityID(ctx)
		for _, b := range k.GetOutgoingTxBatches(ctx) {
			if k.GetBatchConfirm(ctx, b.TokenContract, b.BatchNonce, o1.Acct.Acc()) == nil {
				b := b
				ops = append(ops, s.simple("ConfirmBatch(o1)", &cctypes.MsgConfirmBatch{ChainName: ch, BridgerAddress: orc.BridgerAddress, ExternalAddress: o1.ExtAddr, Nonce: b.BatchNonce, TokenContract: b.TokenContract,
					Signature: scen.Sign(ch, o1.ExtKey, scen.BatchCheckpoint(ch, gid, b))}))
				break
			}
		}
		k.IterateOutgoingBridgeCalls(ctx, func(c *cctypes.OutgoingBridgeCall) bool {
			if !k.HasBridgeCallConfirm(ctx, c.Nonce, o1.Acct.Acc()) {
				ops = append(ops, s.simple("ConfirmBC(o1)", &cctypes.MsgBridgeCallConfirm{ChainName: ch, BridgerAddress: orc.BridgerAddress, ExternalAddress: o1.ExtAddr, Nonce: c.Nonce,
					Signature: scen.Sign(ch, o1.ExtKey, scen.BridgeCallCheckpoint(ch, gid, c))}))
				return true
			}
			return false
		})
	}
	return ops
}

func (s *Spec) blockOp(name string, dt time.Duration) explore.Op {
	return explore.Op{Name: name, Run: func(c *explore.State) {
		k := scen.Keeper(s.w, s.Chain)
		pre := map[string]cctypes.Oracle{}
		for _, o := range s.os {
			if orc, ok := k.GetOracle(c.Ctx, o.Acct.Acc()); ok {
				pre[o.Name] = orc
			}
		}
		objs := s.objects(c.Ctx)
		h := uint64(c.Ctx.BlockHeight())
		if ut, err := s.w.App.StakingKeeper.UnbondingTime(c.Ctx); err == nil {
			mm := c.Model.(*Model)
			for name, at := range mm.RemovedAt {
				if c.Ctx.BlockTime().Unix() > at+int64(ut.Seconds()) {
					mm.Due[name] = true // the end-blocker about to run matures everything that started unbonding at removal
				}
			}
		}
		next, res := s.w.NextBlock(c.Ctx, dt)
		c.Ctx = next
		if res.Panic != nil || res.Err != nil {
			c.Outcome = "halt"
			c.Violate("block-never-halts", sig("block-halt"), fmt.Sprintf("%v %v\n%s", res.Panic, res.Err, res.Stack))
			return
		}
		c.Accepted, c.Outcome = true, "ok"
		for _, o := range s.os {
			p, ok := pre[o.Name]
			if !ok || !p.Online {
				continue
			}
			post, _ := k.GetOracle(c.Ctx, o.Acct.Acc())
			if post.Online {
				continue
			}
			c.Outcome = "slashed"
			justified := false
			for _, x := range objs {
				if !x.confirmed[o.Name] && x.height >= uint64(p.StartHeight) && h >= x.height+window {
					justified = true
				}
			}
			if !justified {
				c.Violate("only-missed-signing-is-slashed", sig("slashed-without-missed-confirmation"), fmt.Sprintf("oracle %s (start height %d) taken offline at height %d; objects: %+v", o.Name, p.StartHeight, h, objs))
			}
			if post.SlashTimes != p.SlashTimes+1 {
				c.Violate("penalty-charged-once", sig("slash-times-jump"), fmt.Sprintf("%d -> %d", p.SlashTimes, post.SlashTimes))
			}
		}
	}}
}

func (s *Spec) Check(st *explore.State) {
	k := scen.Keeper(s.w, s.Chain)
	ctx := st.Ctx
	m := st.Model.(*Model)
	store := scen.Store(s.w, ctx, s.Chain)
	// records and both reverse indexes are mutual inverses
	byBridger, byExt := map[string]string{}, map[string]string{}
	recs := k.GetAllOracles(ctx, false)
	for _, o := range recs {
		if prev, dup := byBridger[o.BridgerAddress]; dup {
			st.Violate("bridger-unique", sig("bridger-shared-by-two-oracles"), prev+" and "+o.OracleAddress)
		}
		byBridger[o.BridgerAddress] = o.OracleAddress
		if prev, dup := byExt[o.ExternalAddress]; dup {
			st.Violate("external-unique", sig("external-address-shared-by-two-oracles"), prev+" and "+o.OracleAddress)
		}
		byExt[o.ExternalAddress] = o.OracleAddress
		if a, ok := k.GetOracleAddrByBridgerAddr(ctx, o.GetBridger()); !ok || a.String() != o.OracleAddress {
			st.Violate("index-agrees-with-records", sig("bridger-index-missing-or-wrong"), fmt.Sprintf("oracle %s bridger %s -> %v", o.OracleAddress, o.BridgerAddress, a))
		}
		if a, ok := k.GetOracleAddrByExternalAddr(ctx, o.ExternalAddress); !ok || a.String() != o.OracleAddress {
			st.Violate("index-agrees-with-records", sig("external-index-missing-or-wrong"), fmt.Sprintf("oracle %s external %s -> %v", o.OracleAddress, o.ExternalAddress, a))
		}
	}
	nB, nE := 0, 0
	it := store.Iterator(nil, nil)
	for ; it.Valid(); it.Next() {
		if bytes.HasPrefix(it.Key(), cctypes.OracleAddressByBridgerKey) {
			nB++
		}
		if bytes.HasPrefix(it.Key(), cctypes.OracleAddressByExternalKey) {
			nE++
		}
	}
	it.Close()
	if nB != len(recs) || nE != len(recs) {
		st.Violate("index-agrees-with-records", sig("stale-index-entry"), fmt.Sprintf("%d oracle records, %d bridger index entries, %d external index entries", len(recs), nB, nE))
	}
	// recorded stake = what the model saw transferred net of penalties = what is delegated on the oracle's behalf
	for _, o := range s.os {
		orc, ok := k.GetOracle(ctx, o.Acct.Acc())
		if !ok {
			continue
		}
		if want, has := m.Staked[o.Name]; !has || want != orc.DelegateAmount.String() {
			st.Violate("recorded-stake-is-what-was-transferred", sig("recorded-stake-mismatch"), fmt.Sprintf("%s: record says %s, transfers net of penalties %s", o.Name, orc.DelegateAmount, want))
		}
		if m.Removed[o.Name] {
			continue
		}
		tok, err := k.GetOracleDelegateToken(ctx, delegateAddress(orc.GetOracle(), s.Chain), orc.GetValidator())
		if err != nil || !tok.Equal(orc.DelegateAmount) {
			st.Violate("stake-is-delegated-on-behalf", sig("delegation-differs-from-recorded-stake"), fmt.Sprintf("%s: recorded %s, delegated %s (%v)", o.Name, orc.DelegateAmount, tok, err))
		}
	}
	if s.SecondChain != "" {
		// the same account's stake on the other chain sits in that chain's own delegate address, whatever happens here
		k2 := scen.Keeper(s.w, s.SecondChain)
		if orc, ok := k2.GetOracle(ctx, s.os[0].Acct.Acc()); ok && orc.Online {
			tok, err := k2.GetOracleDelegateToken(ctx, delegateAddress(orc.GetOracle(), s.SecondChain), orc.GetValidator())
			if err != nil || !tok.Equal(orc.DelegateAmount) {
				st.Violate("stake-is-delegated-on-behalf", sig("delegation-differs-from-recorded-stake/"+s.SecondChain), fmt.Sprintf("o1 on %s: recorded %s, delegated by its delegate address %s (%v)", s.SecondChain, orc.DelegateAmount, tok, err))
			}
		}
	}
}

func (s *Spec) Counters(st *explore.State) []string {
	k := scen.Keeper(s.w, s.Chain)
	m := st.Model.(*Model)
	var out []string
	if m.Removed["o2"] {
		out = append(out, "o2-removed")
	}
	for _, c := range m.Paid {
		if c > 0 {
			out = append(out, "unbonded")
		}
	}
	for _, o := range k.GetAllOracles(st.Ctx, false) {
		if o.SlashTimes > 0 {
			out = append(out, "slashed")
			break
		}
	}
	if k.HasOracle(st.Ctx, s.os[2].Acct.Acc()) {
		out = append(out, "o3-bonded")
	}
	return out
}

func init() {
	registry.Register(&registry.Check{
		ID:          "C13",
		Level:       "model_checking",
		Rule:        "explicit-state DFS over oracle life-cycle operations (approve, bond with in/out-of-bounds stakes and colliding bridger/external addresses, add-delegate, redelegate, edit-bridger, withdraw-reward, oracle-set confirmations, blocks of 5 s and of 22 days, governance removal, unbond) for 3 oracles / 2 validators with signed window 2; oracles: registry and both indexes are mutual inverses, bond only if approved and inside bounds, recorded stake = transfers net of penalties = delegation, slashing only for an unconfirmed object older than the window created after the oracle's start height, removed oracle can unbond after maturity exactly once for balance - penalty, unbond never strands stake",
		Assumptions: []string{"objects that must be confirmed are oracle sets (batches / bridge calls share the slashing code path shape and are exercised in C07)", "validator-level slashing is outside this alphabet"},
		Jobs: func(tier string) []registry.Job {
			if tier == "thorough" {
				return []registry.Job{
					{Name: "eth-full", Spec: &Spec{Chain: "eth", Collide: true, Rewards: true}, Depth: 6, ShardDepth: 2},
					{Name: "bsc-lifecycle", Spec: &Spec{Chain: "bsc"}, Depth: 8, ShardDepth: 2},
					{Name: "eth-lifecycle-with-restarts", Spec: &Spec{Chain: "eth", Rewards: true, Restart: true}, Depth: 7, ShardDepth: 2, NoConform: true},
					{Name: "eth-o2-life-cycle-deep", Spec: &Spec{Chain: "eth", Focus: true}, Depth: 13, ShardDepth: 2},
					{Name: "eth-batches-and-bridge-calls-to-confirm", Spec: &Spec{Chain: "eth", Objects: true}, Depth: 10, ShardDepth: 2},
				}
			}
			return []registry.Job{
				{Name: "eth-lifecycle", Spec: &Spec{Chain: "eth", SecondChain: "bsc"}, Depth: 7, ShardDepth: 2},
				{Name: "eth-collide-rewards", Spec: &Spec{Chain: "eth", Collide: true, Rewards: true}, Depth: 5, ShardDepth: 2},
				{Name: "eth-lifecycle-with-restarts", Spec: &Spec{Chain: "eth", Rewards: true, Restart: true}, Depth: 5, ShardDepth: 2, NoConform: true},
				{Name: "eth-o2-life-cycle-deep", Spec: &Spec{Chain: "eth", Focus: true}, Depth: 9, ShardDepth: 2},
				{Name: "eth-batches-and-bridge-calls-to-confirm", Spec: &Spec{Chain: "eth", Objects: true}, Depth: 8, ShardDepth: 2},
			}
		},
	})
}
