package c15

import (
	"cosmossdk.io/collections"
	sdk "github.com/cosmos/cosmos-sdk/types"
)

type collectionsPair = collections.Pair[uint64, sdk.AccAddress]

func collectionsJoin(id uint64, a sdk.AccAddress) collectionsPair { return collections.Join(id, a) }
