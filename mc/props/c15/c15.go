// Package c15: governance deposits are conserved and proposals follow their message-type rules.
package c15

import (
	"encoding/json"
	"fmt"
	"math/big"
	"sort"
	"time"

	sdkmath "cosmossdk.io/math"
	codectypes "github.com/cosmos/cosmos-sdk/codec/types"
	sdk "github.com/cosmos/cosmos-sdk/types"
	authtypes "github.com/cosmos/cosmos-sdk/x/auth/types"
	distrtypes "github.com/cosmos/cosmos-sdk/x/distribution/types"
	govtypes "github.com/cosmos/cosmos-sdk/x/gov/types"
	govv1 "github.com/cosmos/cosmos-sdk/x/gov/types/v1"

	cctypes "github.com/functionx/fx-core/v8/x/crosschain/types"
	erc20types "github.com/functionx/fx-core/v8/x/erc20/types"
	fxgovtypes "github.com/functionx/fx-core/v8/x/gov/types"
	fxstakingtypes "github.com/functionx/fx-core/v8/x/staking/types"

	"fxmc/explore"
	"fxmc/props/registry"
	"fxmc/world"
)

type Spec struct {
	Custom bool // offer custom-parameter changes
	w      *world.World
}

func (s *Spec) Name() string { return fmt.Sprintf("c15/custom=%v", s.Custom) }

type PInfo struct {
	Type   string // message type url ("" for text)
	Kind   string // toggle | params | spendSmall | spendLarge
	Spend  string // requested community-pool amount (FX base units)
	Period int64  // voting period (ns) the reference expects, fixed at activation (0 = not active yet)
	Quorum string // quorum configured for the type at activation
	Ended  bool
}

type Model struct {
	Init   map[string]string // depositor -> initial FX balance
	Props  map[uint64]*PInfo
	Burned map[string]string // depositor -> deposits the reference expects to have been burned (vetoed proposals)
}

func (m *Model) Clone() explore.Model {
	bz, _ := json.Marshal(m)
	var c Model
	_ = json.Unmarshal(bz, &c)
	return &c
}
func (m *Model) Canon() []byte { bz, _ := json.Marshal(m); return bz }

const day = 24 * time.Hour

var depositors = []string{"u1", "u2"}

func (s *Spec) Init() *explore.State {
	w := world.New(world.Config{Validators: 2, Actors: []string{"bank", "u1", "u2", "d1"}})
	s.w = w
	ctx := w.Root
	// d1 delegates as much as each validator holds: three equal voting blocks
	if r := w.CallABI(ctx, w.A("d1"), fxstakingtypes.GetAddress(), fxstakingtypes.GetABI(), nil, 3_000_000, "delegateV2", w.Vals[0].ValAddr().String(), new(big.Int).Mul(big.NewInt(100), big.NewInt(1e18))); !r.Success() {
		panic(r.String())
	}
	// the community pool can pay the requested spends
	if err := w.App.DistrKeeper.FundCommunityPool(ctx, sdk.NewCoins(world.FXCoin(600000)), w.A("bank").Acc()); err != nil {
		panic(err)
	}
	m := &Model{Init: map[string]string{}, Props: map[uint64]*PInfo{}, Burned: map[string]string{}}
	for _, d := range depositors {
		m.Init[d] = w.App.BankKeeper.GetBalance(ctx, w.A(d).Acc(), "FX").Amount.String()
	}
	return &explore.State{W: w, Ctx: ctx, Model: m}
}

func sig(x string) string { return "C15/" + x }

func (s *Spec) msgsOf(ctx sdk.Context, kind string) []sdk.Msg {
	w := s.w
	switch kind {
	case "toggle":
		return []sdk.Msg{&erc20types.MsgToggleTokenConversion{Authority: world.GovAuthority(), Token: "FX"}}
	case "params":
		return []sdk.Msg{&fxgovtypes.MsgUpdateSwitchParams{Authority: world.GovAuthority(), Params: fxgovtypes.SwitchParams{DisableMsgTypes: []string{"/x.y.Z"}}}}
	case "spendSmall":
		return []sdk.Msg{&distrtypes.MsgCommunityPoolSpend{Authority: world.GovAuthority(), Recipient: w.A("u2").Bech(), Amount: sdk.NewCoins(world.FXCoin(1000))}}
	case "spendLarge":
		return []sdk.Msg{&distrtypes.MsgCommunityPoolSpend{Authority: world.GovAuthority(), Recipient: w.A("u2").Bech(), Amount: sdk.NewCoins(world.FXCoin(200000))},
			&distrtypes.MsgCommunityPoolSpend{Authority: world.GovAuthority(), Recipient: w.A("u1").Bech(), Amount: sdk.NewCoins(world.FXCoin(300000))}}
	case "spendSecondFails":
		// same type, accepted at submission; the second message is refused when executed (the recipient is a module
		// account that may not receive funds), so nothing of the proposal may take effect
		return []sdk.Msg{&distrtypes.MsgCommunityPoolSpend{Authority: world.GovAuthority(), Recipient: w.A("u2").Bech(), Amount: sdk.NewCoins(world.FXCoin(1000))},
			&distrtypes.MsgCommunityPoolSpend{Authority: world.GovAuthority(), Recipient: authtypes.NewModuleAddress(distrtypes.ModuleName).String(), Amount: sdk.NewCoins(world.FXCoin(1000))}}
	case "mixed":
		p := w.App.EthKeeper.GetParams(ctx)
		return []sdk.Msg{&erc20types.MsgToggleTokenConversion{Authority: world.GovAuthority(), Token: "FX"}, &cctypes.MsgUpdateParams{ChainName: "eth", Authority: world.GovAuthority(), Params: p}}
	}
	panic(kind)
}

// reference rules -------------------------------------------------------------------------------

func (s *Spec) customOf(ctx sdk.Context, typeURL string) (fxgovtypes.CustomParams, bool) {
	return s.w.App.GovKeeper.GetCustomParams(ctx, typeURL)
}

// minDeposit is the reference for "the minimum applicable to its message type".
func (s *Spec) minDeposit(ctx sdk.Context, p *PInfo) sdkmath.Int {
	params, _ := s.w.App.GovKeeper.Params.Get(ctx)
	def := sdk.NewCoins(params.MinDeposit...).AmountOf("FX")
	if p.Kind != "spendSmall" && p.Kind != "spendLarge" && p.Kind != "spendSecondFails" {
		return def
	}
	cp, ok := s.customOf(ctx, sdk.MsgTypeURL(&distrtypes.MsgCommunityPoolSpend{}))
	if !ok {
		return def
	}
	ratio, err := sdkmath.LegacyNewDecFromStr(cp.DepositRatio)
	if err != nil || ratio.IsZero() {
		return def
	}
	spend, _ := sdkmath.NewIntFromString(p.Spend)
	share := sdkmath.LegacyNewDecFromInt(spend).Mul(ratio).RoundInt()
	if share.GT(def) {
		return share
	}
	return def
}

func (s *Spec) periodAndQuorum(ctx sdk.Context, p *PInfo) (time.Duration, string) {
	params, _ := s.w.App.GovKeeper.Params.Get(ctx)
	if cp, ok := s.customOf(ctx, p.Type); ok && cp.VotingPeriod != nil {
		return *cp.VotingPeriod, cp.Quorum
	}
	return *params.VotingPeriod, params.Quorum
}

// afterDepositStep checks activation against the reference and records the rules in force at activation.
func (s *Spec) afterDepositStep(c *explore.State, id uint64, name string) {
	gk := s.w.App.GovKeeper
	m := c.Model.(*Model)
	p := m.Props[id]
	prop, err := gk.Proposals.Get(c.Ctx, id)
	if err != nil {
		return
	}
	total := sdk.NewCoins(prop.TotalDeposit...).AmountOf("FX")
	min := s.minDeposit(c.Ctx, p)
	active := prop.Status == govv1.StatusVotingPeriod
	if p.Period == 0 { // was not active before this step
		if active != total.GTE(min) {
			c.Violate("voting-starts-iff-deposit-reaches-type-minimum", sig("activation-differs-from-type-minimum/"+p.Kind), fmt.Sprintf("%s: proposal %d (%s) total deposit %s, minimum for its type %s, status %s", name, id, p.Kind, total, min, prop.Status))
		}
		if active {
			per, q := s.periodAndQuorum(c.Ctx, p)
			p.Period, p.Quorum = int64(per), q
			if got := prop.VotingEndTime.Sub(*prop.VotingStartTime); got != per {
				c.Violate("voting-period-of-message-type", sig("voting-period-differs-from-type-configuration/"+p.Kind), fmt.Sprintf("%s: proposal %d (%s) got a voting period of %s, configured for its message type: %s", name, id, p.Type, got, per))
			}
		}
	}
}

func (s *Spec) submitOp(kind string, initial int64) explore.Op {
	name := fmt.Sprintf("Submit(%s,%d)", kind, initial)
	return explore.Op{Name: name, Run: func(c *explore.State) {
		w := s.w
		msgs := s.msgsOf(c.Ctx, kind)
		var anys []*codectypes.Any
		for _, m := range msgs {
			a, _ := codectypes.NewAnyWithValue(m)
			anys = append(anys, a)
		}
		r := w.Deliver(c.Ctx, &govv1.MsgSubmitProposal{Messages: anys, InitialDeposit: sdk.NewCoins(world.FXCoin(initial)), Proposer: w.A("u1").Bech(), Title: "t", Summary: "s", Metadata: "m"})
		c.Accepted = r.OK()
		c.Outcome = map[bool]string{true: "ok", false: "rejected"}[r.OK()]
		if kind == "mixed" {
			if r.OK() {
				c.Violate("one-message-type-per-proposal", sig("mixed-type-proposal-accepted"), name)
			}
			return
		}
		if !r.OK() {
			return
		}
		id, _ := w.App.GovKeeper.ProposalID.Peek(c.Ctx)
		id--
		spend := sdkmath.ZeroInt()
		for _, m := range msgs {
			if sp, ok := m.(*distrtypes.MsgCommunityPoolSpend); ok {
				spend = spend.Add(sp.Amount.AmountOf("FX"))
			}
		}
		c.Model.(*Model).Props[id] = &PInfo{Type: sdk.MsgTypeURL(msgs[0]), Kind: kind, Spend: spend.String()}
		s.afterDepositStep(c, id, name)
	}}
}

func (s *Spec) Ops(st *explore.State) []explore.Op {
	w := s.w
	gk := w.App.GovKeeper
	m := st.Model.(*Model)
	var ops []explore.Op
	if len(m.Props) < 2 {
		for _, k := range []string{"toggle", "params", "spendSmall", "spendLarge"} {
			ops = append(ops, s.submitOp(k, 1000), s.submitOp(k, 10000))
		}
		ops = append(ops, s.submitOp("mixed", 10000), s.submitOp("spendSecondFails", 10000))
	}
	var ids []uint64
	for id := range m.Props {
		ids = append(ids, id)
	}
	sort.Slice(ids, func(i, j int) bool { return ids[i] < ids[j] })
	for _, id := range ids {
		id := id
		p := m.Props[id]
		if p.Ended {
			// a deposit for a proposal that has ended (or was dropped) must be refused: the module holds open deposits only
			ops = append(ops, explore.Op{Name: fmt.Sprintf("DepositEnded(%d)", id), Run: func(c *explore.State) {
				r := w.Deliver(c.Ctx, &govv1.MsgDeposit{ProposalId: id, Depositor: w.A(depositors[0]).Bech(), Amount: sdk.NewCoins(world.FXCoin(9000))})
				c.Accepted = r.OK()
				c.Outcome = map[bool]string{true: "ok", false: "rejected"}[r.OK()]
				if r.OK() {
					c.Violate("module-holds-open-deposits-only", sig("deposit-accepted-for-ended-proposal"), fmt.Sprintf("proposal %d has ended; a deposit of 9000 FX was accepted", id))
				}
			}})
			continue
		}
		prop, err := gk.Proposals.Get(st.Ctx, id)
		if err != nil {
			continue
		}
		for _, who := range depositors {
			for _, amt := range []int64{9000, 40000} {
				who, amt := who, amt
				name := fmt.Sprintf("Deposit(%d,%s,%d)", id, who, amt)
				ops = append(ops, explore.Op{Name: name, Run: func(c *explore.State) {
					r := w.Deliver(c.Ctx, &govv1.MsgDeposit{ProposalId: id, Depositor: w.A(who).Bech(), Amount: sdk.NewCoins(world.FXCoin(amt))})
					c.Accepted = r.OK()
					c.Outcome = map[bool]string{true: "ok", false: "rejected"}[r.OK()]
					if r.OK() {
						s.afterDepositStep(c, id, name)
					}
				}})
			}
		}
		if prop.Status == govv1.StatusVotingPeriod {
			voters := map[string]world.Actor{"val1": w.Vals[0].Operator, "val2": w.Vals[1].Operator, "d1": w.A("d1")}
			for _, vn := range []string{"d1", "val1", "val2"} {
				if has, _ := gk.HasVote(st.Ctx, id, voters[vn].Acc()); has {
					continue
				}
				for _, opt := range []govv1.VoteOption{govv1.OptionYes, govv1.OptionNo, govv1.OptionNoWithVeto} {
					vn, opt := vn, opt
					if vn != "d1" && opt == govv1.OptionNo {
						continue
					}
					if vn == "val1" && opt == govv1.OptionNoWithVeto {
						continue // vetoes come from the delegator and the second validator (1/3 and 2/3 of the votes)
					}
					if vn == "d1" && opt == govv1.OptionNoWithVeto {
						// a split vote: half yes, half veto
						ops = append(ops, explore.Op{Name: fmt.Sprintf("Vote(%d,d1,half-YES-half-VETO)", id), Run: func(c *explore.State) {
							half := sdkmath.LegacyNewDecWithPrec(5, 1).String()
							r := w.Deliver(c.Ctx, govv1.NewMsgVoteWeighted(voters[vn].Acc(), id, govv1.WeightedVoteOptions{{Option: govv1.OptionYes, Weight: half}, {Option: govv1.OptionNoWithVeto, Weight: half}}, ""))
							c.Accepted = r.OK()
							c.Outcome = map[bool]string{true: "ok", false: "rejected"}[r.OK()]
						}})
					}
					ops = append(ops, explore.Op{Name: fmt.Sprintf("Vote(%d,%s,%s)", id, vn, opt.String()[12:]), Run: func(c *explore.State) {
						r := w.Deliver(c.Ctx, govv1.NewMsgVote(voters[vn].Acc(), id, opt, ""))
						c.Accepted = r.OK()
						c.Outcome = map[bool]string{true: "ok", false: "rejected"}[r.OK()]
					}})
				}
			}
		}
	}
	for _, dt := range []time.Duration{7*day + time.Second, 14*day + time.Second} {
		dt := dt
		ops = append(ops, explore.Op{Name: fmt.Sprintf("Advance(%dd)", int(dt/day)), Run: func(c *explore.State) { s.advance(c, dt) }})
	}
	if s.Custom {
		one := day
		ops = append(ops, explore.Op{Name: "SetCustom(params,1d,0.9)", Run: func(c *explore.State) {
			r := w.Deliver(c.Ctx, &fxgovtypes.MsgUpdateCustomParams{Authority: world.GovAuthority(), MsgUrl: sdk.MsgTypeURL(&fxgovtypes.MsgUpdateSwitchParams{}), CustomParams: fxgovtypes.CustomParams{DepositRatio: "0", VotingPeriod: &one, Quorum: "0.9"}})
			c.Accepted, c.Outcome = r.OK(), map[bool]string{true: "ok", false: "rejected"}[r.OK()]
		}})
		// a quorum that the first validator's vote alone meets exactly (the boundary of "at least")
		ops = append(ops, explore.Op{Name: "SetCustom(toggle,7d,quorum=exactly-validator-1)", Run: func(c *explore.State) {
			week := 7 * day
			v1, err := w.App.StakingKeeper.GetValidator(c.Ctx, w.Vals[0].ValAddr())
			if err != nil {
				panic(err)
			}
			bonded, err := w.App.StakingKeeper.TotalBondedTokens(c.Ctx)
			if err != nil {
				panic(err)
			}
			q := sdkmath.LegacyNewDecFromInt(v1.BondedTokens()).Quo(sdkmath.LegacyNewDecFromInt(bonded))
			r := w.Deliver(c.Ctx, &fxgovtypes.MsgUpdateCustomParams{Authority: world.GovAuthority(), MsgUrl: sdk.MsgTypeURL(&erc20types.MsgToggleTokenConversion{}), CustomParams: fxgovtypes.CustomParams{DepositRatio: "0", VotingPeriod: &week, Quorum: q.String()}})
			c.Accepted, c.Outcome = r.OK(), map[bool]string{true: "ok", false: "rejected"}[r.OK()]
		}})
		ops = append(ops, explore.Op{Name: "RemoveCustom(toggle)", Run: func(c *explore.State) {
			r := w.Deliver(c.Ctx, &fxgovtypes.MsgUpdateCustomParams{Authority: world.GovAuthority(), MsgUrl: sdk.MsgTypeURL(&erc20types.MsgToggleTokenConversion{})})
			c.Accepted, c.Outcome = r.OK(), map[bool]string{true: "ok", false: "rejected"}[r.OK()]
		}})
	}
	return ops
}

// advance moves time forward and lets the end-blocker run at the new time; checks how ended proposals were tallied.
func (s *Spec) advance(c *explore.State, dt time.Duration) {
	w := s.w
	gk := w.App.GovKeeper
	m := c.Model.(*Model)
	type snap struct {
		status  govv1.ProposalStatus
		end     time.Time
		turnout sdkmath.LegacyDec
		yesShare sdkmath.LegacyDec
		vetoShare sdkmath.LegacyDec
		deposits map[string]sdkmath.Int // depositor name -> stored deposit
	}
	before := map[uint64]snap{}
	bonded, _ := w.App.StakingKeeper.TotalBondedTokens(c.Ctx)
	for id, p := range m.Props {
		if p.Ended {
			continue
		}
		prop, err := gk.Proposals.Get(c.Ctx, id)
		if err != nil {
			continue
		}
		sn := snap{status: prop.Status}
		if prop.VotingEndTime != nil {
			sn.end = *prop.VotingEndTime
		}
		// turnout computed by the reference from the raw votes and delegations
		voted := sdkmath.ZeroInt()
		yes := sdkmath.LegacyZeroDec()
		veto := sdkmath.LegacyZeroDec()
		counted := map[string]sdkmath.Int{}
		weightOf := func(v govv1.Vote, o govv1.VoteOption) sdkmath.LegacyDec {
			t := sdkmath.LegacyZeroDec()
			for _, wo := range v.Options {
				if wo.Option == o {
					t = t.Add(sdkmath.LegacyMustNewDecFromStr(wo.Weight))
				}
			}
			return t
		}
		sn.deposits = map[string]sdkmath.Int{}
		for _, d := range depositors {
			if dep, err := gk.Deposits.Get(c.Ctx, collectionsJoin(id, w.A(d).Acc())); err == nil {
				sn.deposits[d] = sdk.NewCoins(dep.Amount...).AmountOf("FX")
			}
		}
		// delegator d1 overrides its share of val1's vote
		power := map[string]sdkmath.Int{"val1": world.FX(100), "val2": world.FX(100), "d1": world.FX(100)}
		voters := map[string]world.Actor{"val1": w.Vals[0].Operator, "val2": w.Vals[1].Operator, "d1": w.A("d1")}
		for n, a := range voters {
			v, err := gk.Votes.Get(c.Ctx, collectionsJoin(id, a.Acc()))
			if err != nil {
				continue
			}
			counted[n] = power[n]
			voted = voted.Add(power[n])
			yes = yes.Add(weightOf(v, govv1.OptionYes).MulInt(power[n]))
			veto = veto.Add(weightOf(v, govv1.OptionNoWithVeto).MulInt(power[n]))
		}
		// a validator that votes also carries the stake of its delegators who did not vote
		if _, ok := counted["val1"]; ok {
			if _, dv := counted["d1"]; !dv {
				voted = voted.Add(power["d1"])
				if v, err := gk.Votes.Get(c.Ctx, collectionsJoin(id, voters["val1"].Acc())); err == nil {
					yes = yes.Add(weightOf(v, govv1.OptionYes).MulInt(power["d1"]))
					veto = veto.Add(weightOf(v, govv1.OptionNoWithVeto).MulInt(power["d1"]))
				}
			}
		}
		sn.turnout = sdkmath.LegacyNewDecFromInt(voted).Quo(sdkmath.LegacyNewDecFromInt(bonded))
		if voted.IsPositive() {
			sn.yesShare = yes.Quo(sdkmath.LegacyNewDecFromInt(voted))
			sn.vetoShare = veto.Quo(sdkmath.LegacyNewDecFromInt(voted))
		} else {
			sn.yesShare = sdkmath.LegacyZeroDec()
			sn.vetoShare = sdkmath.LegacyZeroDec()
		}
		before[id] = sn
	}
	preBal := map[string]sdkmath.Int{} // the block boundary writes into the same store branch: balances are read first
	for _, d := range depositors {
		preBal[d] = w.App.BankKeeper.GetBalance(c.Ctx, w.A(d).Acc(), "FX").Amount
	}
	mid, r1 := w.NextBlock(c.Ctx, dt)
	next, r2 := w.NextBlock(mid, 5*time.Second)
	c.Ctx = next
	if r1.Err != nil || r1.Panic != nil || r2.Err != nil || r2.Panic != nil {
		c.Outcome = "halt"
		c.Violate("block-never-halts", sig("block-halt"), fmt.Sprintf("%v %v %v %v\n%s%s", r1.Err, r1.Panic, r2.Err, r2.Panic, r1.Stack, r2.Stack))
		return
	}
	c.Accepted, c.Outcome = true, "ok"
	now := next.BlockTime()
	// proposals in id order, so that the step's outcome label (the last proposal's fate) does not depend on map order
	ids := make([]uint64, 0, len(before))
	for id := range before {
		ids = append(ids, id)
	}
	sort.Slice(ids, func(i, j int) bool { return ids[i] < ids[j] })
	var ambiguous []map[string]sdkmath.Int // deposits of proposals whose refund-or-burn the text leaves open
	defer func() {
		if len(ambiguous) == 0 || c.Ctx.IsZero() {
			return
		}
		// what each depositor's books lack after this step must be a sum of some of its ambiguous deposits (burned)
		open := map[string]sdkmath.Int{}
		_ = gk.Deposits.Walk(next, nil, func(key collectionsPair, d govv1.Deposit) (bool, error) {
			cur, ok := open[d.Depositor]
			if !ok {
				cur = sdkmath.ZeroInt()
			}
			open[d.Depositor] = cur.Add(sdk.NewCoins(d.Amount...).AmountOf("FX"))
			return false, nil
		})
		received := s.receivedSpends(next, m)
		for _, d := range depositors {
			init, _ := sdkmath.NewIntFromString(m.Init[d])
			op, ok := open[w.A(d).Bech()]
			if !ok {
				op = sdkmath.ZeroInt()
			}
			burned, ok := sdkmath.NewIntFromString(m.Burned[d])
			if !ok {
				burned = sdkmath.ZeroInt()
			}
			resid := init.Add(received[d]).Sub(w.App.BankKeeper.GetBalance(next, w.A(d).Acc(), "FX").Amount).Sub(op).Sub(burned)
			for mask := 0; mask < 1<<len(ambiguous); mask++ {
				sum := sdkmath.ZeroInt()
				for i, deps := range ambiguous {
					if mask&(1<<i) != 0 {
						if a, ok := deps[d]; ok {
							sum = sum.Add(a)
						}
					}
				}
				if sum.Equal(resid) {
					m.Burned[d] = burned.Add(resid).String()
					break
				}
			}
		}
	}()
	for _, id := range ids {
		sn := before[id]
		p := m.Props[id]
		prop, err := gk.Proposals.Get(next, id)
		if err != nil {
			// dropped in the deposit period: deleted
			p.Ended = true
			c.Outcome = "dropped"
			continue
		}
		if sn.status != govv1.StatusVotingPeriod {
			continue
		}
		ended := prop.Status != govv1.StatusVotingPeriod
		shouldEnd := !now.Before(sn.end.Add(5 * time.Second)) // the end-blocker of a block at or after the end time has run
		expectedEnd := c.Ctx.BlockTime()
		_ = expectedEnd
		refEnd := time.Unix(0, 0)
		if prop.VotingStartTime != nil {
			refEnd = prop.VotingStartTime.Add(time.Duration(p.Period))
		}
		refShouldEnd := !mid.BlockTime().Before(refEnd)
		if ended != refShouldEnd {
			c.Violate("tallied-after-the-period-of-its-type", sig("voting-end-differs-from-type-period/"+p.Kind), fmt.Sprintf("proposal %d (%s): voting started %s, period for its type %s, block time %s, ended=%v", id, p.Type, prop.VotingStartTime, time.Duration(p.Period), mid.BlockTime(), ended))
		}
		_ = shouldEnd
		if !ended {
			continue
		}
		p.Ended = true
		c.Outcome = "tallied"
		// the text does not say as of when the per-type quorum is read: the value at activation and the value at tally time are both accepted
		q, _ := sdkmath.LegacyNewDecFromStr(p.Quorum)
		_, qNowStr := s.periodAndQuorum(mid, p)
		qNow, _ := sdkmath.LegacyNewDecFromStr(qNowStr)
		third := sdkmath.LegacyOneDec().QuoInt64(3)
		vetoed := sn.vetoShare.GT(third)
		yesOK := sn.yesShare.GT(sdkmath.LegacyNewDecWithPrec(5, 1)) && !vetoed
		// a vetoed proposal (quorum reached, more than a third of the votes veto) burns its deposits; every other
		// outcome refunds them (default parameters: burn_vote_veto on, burn_vote_quorum and burn_proposal_deposit_prevote off)
		burn := vetoed && sn.turnout.GTE(q) && sn.turnout.GTE(qNow)
		if vetoed && sn.turnout.GTE(q) != sn.turnout.GTE(qNow) {
			// the quorum in force changed between activation and tally and the turnout lies in between: the text does not
			// say which value counts, so the implementation's choice (refund or burn) is adopted - read off the depositors'
			// books after all proposals of this step have been looked at (several can end in one step)
			burn = false
			ambiguous = append(ambiguous, sn.deposits)
		}
		if burn {
			for d, amt := range sn.deposits {
				old, ok := sdkmath.NewIntFromString(m.Burned[d])
				if !ok {
					old = sdkmath.ZeroInt()
				}
				m.Burned[d] = old.Add(amt).String()
			}
			c.Outcome = "vetoed"
		}
		refPass := sn.turnout.GTE(q) && yesOK
		refPassNow := sn.turnout.GTE(qNow) && yesOK
		passed := prop.Status == govv1.StatusPassed || prop.Status == govv1.StatusFailed
		if passed != refPass && passed != refPassNow {
			c.Violate("quorum-of-message-type", sig("tally-differs-from-type-quorum/"+p.Kind), fmt.Sprintf("proposal %d (%s): turnout %s, yes share %s, quorum configured for the type %s -> reference pass=%v, status %s", id, p.Type, sn.turnout, sn.yesShare, p.Quorum, refPass, prop.Status))
		}
	}
}

// receivedSpends: what the community-spend proposals that have passed paid to the depositors.
func (s *Spec) receivedSpends(ctx sdk.Context, m *Model) map[string]sdkmath.Int {
	received := map[string]sdkmath.Int{"u1": sdkmath.ZeroInt(), "u2": sdkmath.ZeroInt()}
	for id, p := range m.Props {
		prop, err := s.w.App.GovKeeper.Proposals.Get(ctx, id)
		if err == nil && prop.Status == govv1.StatusPassed {
			switch p.Kind {
			case "spendSmall":
				received["u2"] = received["u2"].Add(world.FX(1000))
			case "spendLarge":
				received["u2"] = received["u2"].Add(world.FX(200000))
				received["u1"] = received["u1"].Add(world.FX(300000))
			}
		}
	}
	return received
}

func (s *Spec) Check(st *explore.State) {
	w := s.w
	gk := w.App.GovKeeper
	m := st.Model.(*Model)
	ctx := st.Ctx
	// module balance = sum of stored deposits; stored deposits only for open proposals
	sum := sdkmath.ZeroInt()
	per := map[string]sdkmath.Int{}
	_ = gk.Deposits.Walk(ctx, nil, func(key collectionsPair, d govv1.Deposit) (bool, error) {
		amt := sdk.NewCoins(d.Amount...).AmountOf("FX")
		sum = sum.Add(amt)
		cur, ok := per[d.Depositor]
		if !ok {
			cur = sdkmath.ZeroInt()
		}
		per[d.Depositor] = cur.Add(amt)
		prop, err := gk.Proposals.Get(ctx, d.ProposalId)
		if err != nil || (prop.Status != govv1.StatusDepositPeriod && prop.Status != govv1.StatusVotingPeriod) {
			st.Violate("deposits-only-for-open-proposals", sig("deposit-record-of-closed-proposal"), fmt.Sprintf("deposit of %s for proposal %d", d.Depositor, d.ProposalId))
		}
		return false, nil
	})
	bal := w.App.BankKeeper.GetBalance(ctx, authtypes.NewModuleAddress(govtypes.ModuleName), "FX").Amount
	if !bal.Equal(sum) {
		st.Violate("module-holds-exactly-open-deposits", sig("gov-balance-differs-from-open-deposits"), fmt.Sprintf("gov module holds %s FX, open deposits sum to %s", bal, sum))
	}
	// every depositor: balance + own open deposits = initial (+ community spends received); nothing refunded twice, nothing lost
	received := map[string]sdkmath.Int{"u1": sdkmath.ZeroInt(), "u2": sdkmath.ZeroInt()}
	for id, p := range m.Props {
		prop, err := gk.Proposals.Get(ctx, id)
		if err == nil && prop.Status == govv1.StatusPassed {
			switch p.Kind {
			case "spendSmall":
				received["u2"] = received["u2"].Add(world.FX(1000))
			case "spendLarge":
				received["u2"] = received["u2"].Add(world.FX(200000))
				received["u1"] = received["u1"].Add(world.FX(300000))
			case "spendSecondFails":
				st.Violate("messages-all-or-nothing", sig("proposal-passed-although-a-message-failed"), fmt.Sprintf("proposal %d is PASSED although its second message cannot execute", id))
			}
		}
	}
	for _, d := range depositors {
		init, _ := sdkmath.NewIntFromString(m.Init[d])
		open, ok := per[w.A(d).Bech()]
		if !ok {
			open = sdkmath.ZeroInt()
		}
		have := w.App.BankKeeper.GetBalance(ctx, w.A(d).Acc(), "FX").Amount
		burned, ok := sdkmath.NewIntFromString(m.Burned[d])
		if !ok {
			burned = sdkmath.ZeroInt()
		}
		if !have.Add(open).Add(burned).Equal(init.Add(received[d])) {
			st.Violate("each-deposit-returned-exactly-once", sig("depositor-balance-plus-open-deposits-differs-from-initial"), fmt.Sprintf("%s: balance %s + open deposits %s + burned (vetoed) %s != initial %s + received spends %s", d, have, open, burned, init, received[d]))
		}
	}
}

func (s *Spec) Counters(st *explore.State) []string {
	m := st.Model.(*Model)
	var out []string
	for _, p := range m.Props {
		if p.Period != 0 {
			out = append(out, "proposal-activated")
		}
		if p.Ended {
			out = append(out, "proposal-ended")
		}
	}
	if len(m.Props) > 1 {
		out = append(out, "two-proposals")
	}
	return out
}

func init() {
	registry.Register(&registry.Check{
		ID:    "C15",
		Level: "model_checking",
		Rule:  "explicit-state DFS over submit (erc20 toggle with custom 7d/0.25 rules, switch-params update with default rules, community spends below and above the default deposit, mixed types; initial deposit 1000 or 10000 FX), deposits by two accounts, votes by two validators and a delegator (turnout 33% separates quorum 0.25 from 0.4), time advances of 7 and 14 days, custom-parameter add / remove; reference rules written from the property: gov balance = sum of stored deposits of open proposals, depositor balance + open deposits = initial, activation iff total >= minimum for the type (max(default, share of the requested spend)), voting period and quorum = those configured for the message type at activation, mixed types refused",
		Assumptions: []string{"expedited proposals are not in the alphabet", "three equal voting blocks (two validators, one delegator)"},
		Jobs: func(tier string) []registry.Job {
			if tier == "thorough" {
				return []registry.Job{{Name: "custom", Spec: &Spec{Custom: true}, Depth: 6, ShardDepth: 2}}
			}
			return []registry.Job{{Name: "custom", Spec: &Spec{Custom: true}, Depth: 4, ShardDepth: 2}}
		},
	})
}
