// Package c16: privileged messages take effect only when issued by the governance authority.
package c16

import (
	"encoding/hex"
	"fmt"
	"math/big"
	"reflect"
	"sort"
	"strings"
	"time"

	sdkmath "cosmossdk.io/math"
	sdk "github.com/cosmos/cosmos-sdk/types"
	authtypes "github.com/cosmos/cosmos-sdk/x/auth/types"

	"github.com/functionx/fx-core/v8/contract"
	fxtypes "github.com/functionx/fx-core/v8/types"
	cctypes "github.com/functionx/fx-core/v8/x/crosschain/types"
	erc20types "github.com/functionx/fx-core/v8/x/erc20/types"
	fxevmtypes "github.com/functionx/fx-core/v8/x/evm/types"
	fxgovtypes "github.com/functionx/fx-core/v8/x/gov/types"

	"fxmc/explore"
	"fxmc/props/registry"
	"fxmc/scen"
	"fxmc/world"
)

type variant struct {
	name string
	msg  sdk.Msg
	// derived: a payload obtained by zeroing one field; it need not be acceptable to the governance authority,
	// but a non-governance authority must still be refused without any state change
	derived bool
}

// zeroed returns one copy of m per top-level field other than the authority, with that field set to its zero value.
func zeroed(v variant) []variant {
	var out []variant
	t := reflect.TypeOf(v.msg).Elem()
	for i := 0; i < t.NumField(); i++ {
		f := t.Field(i)
		if f.Name == "Authority" || !f.IsExported() || strings.HasPrefix(f.Name, "XXX_") {
			continue
		}
		if reflect.ValueOf(v.msg).Elem().Field(i).IsZero() {
			continue
		}
		c := reflect.New(t)
		c.Elem().Set(reflect.ValueOf(v.msg).Elem())
		c.Elem().Field(i).Set(reflect.Zero(f.Type))
		out = append(out, variant{name: v.name + "[" + f.Name + "=zero]", msg: c.Interface().(sdk.Msg), derived: true})
	}
	return out
}

// payloads returns hand-built payloads that the governance authority gets accepted, per message type url.
func payloads(w *world.World, ctx sdk.Context, tokenERC20 string) map[string][]variant {
	out := map[string][]variant{}
	add := func(name string, m sdk.Msg) {
		u := sdk.MsgTypeURL(m)
		out[u] = append(out[u], variant{name: name, msg: m})
	}
	for _, ch := range scen.AllChains {
		p := scen.Keeper(w, ch).GetParams(ctx)
		p.AverageBlockTime++
		add("UpdateParams("+ch+")", &cctypes.MsgUpdateParams{ChainName: ch, Params: p})
		oracles := []string{world.NewActor("cand-" + ch).Bech()}
		for _, o := range scen.Keeper(w, ch).GetAllOracles(ctx, false) {
			oracles = append(oracles, o.OracleAddress)
		}
		add("UpdateChainOracles("+ch+")", &cctypes.MsgUpdateChainOracles{ChainName: ch, Oracles: oracles})
	}
	ep := w.App.Erc20Keeper.GetParams(ctx)
	ep.IbcTimeout += time.Second
	add("erc20.UpdateParams", &erc20types.MsgUpdateParams{Params: ep})
	add("RegisterCoin", &erc20types.MsgRegisterCoin{Metadata: fxtypes.GetCrossChainMetadataManyToOne("Dai", "DAI", 18, "eth"+scen.ExtAddr("eth", "dai"))})
	add("RegisterERC20", &erc20types.MsgRegisterERC20{Erc20Address: tokenERC20, Aliases: []string{"eth" + scen.ExtAddr("eth", "ext-token")}})
	add("Toggle(FX)", &erc20types.MsgToggleTokenConversion{Token: "FX"})
	add("UpdateDenomAlias(FX)", &erc20types.MsgUpdateDenomAlias{Denom: "FX", Alias: "bsc" + scen.ExtAddr("bsc", "fx-alias")})
	data, _ := contract.GetFIP20().ABI.Pack("approve", world.NewActor("u1").Hex(), big.NewInt(1))
	add("CallContract", &fxevmtypes.MsgCallContract{ContractAddress: w.App.Erc20Keeper.GetAllTokenPairs(ctx)[0].Erc20Address, Data: hex.EncodeToString(data)})
	add("UpdateSwitchParams", &fxgovtypes.MsgUpdateSwitchParams{Params: fxgovtypes.SwitchParams{DisableMsgTypes: []string{"/a.b.C"}}})
	day := 24 * time.Hour
	add("UpdateCustomParams", &fxgovtypes.MsgUpdateCustomParams{MsgUrl: "/a.b.C", CustomParams: fxgovtypes.CustomParams{DepositRatio: "0.1", VotingPeriod: &day, Quorum: "0.3"}})
	return out
}

func setAuthority(m sdk.Msg, a string) sdk.Msg {
	c := reflect.New(reflect.TypeOf(m).Elem()) // shallow copy: only the authority string is replaced
	c.Elem().Set(reflect.ValueOf(m).Elem())
	c.Elem().FieldByName("Authority").SetString(a)
	return c.Interface().(sdk.Msg)
}

func run(thorough bool) func(shard, shards int, deadline time.Time) *explore.Result {
	return func(shard, shards int, deadline time.Time) *explore.Result {
		start := time.Now()
		res := &explore.Result{Spec: "c16", Outcomes: map[string]int{}, Counters: map[string]int{}, ViolationCounts: map[string]int{}, Exhaustive: true, DeterminismOK: true, Extra: map[string]float64{}}
		viol := func(sig, oracle, detail string, path ...string) {
			res.ViolationCounts[sig]++
			for _, v := range res.Violations {
				if v.Signature == sig {
					return
				}
			}
			res.Violations = append(res.Violations, explore.Violation{Oracle: oracle, Signature: sig, Detail: detail, Path: path})
		}
		w := world.New(world.Config{Validators: 2, Actors: []string{"bank", "u1", "rel"}})
		ctx := w.Root
		osm := map[string][]scen.Oracle{"eth": scen.SetupOracles(w, ctx, "eth", []string{"eth-o1"}, []int64{10000})}
		nonces := map[string]uint64{}
		scen.RegisterFX(w, ctx, osm, nonces, 1000)
		// an unregistered ERC-20 for RegisterERC20
		fip := contract.GetFIP20()
		tok, err := w.App.EvmKeeper.DeployUpgradableContract(ctx, w.A("u1").Hex(), fip.Address, nil, &fip.ABI, "Ext Token", "EXT", uint8(18), w.A("u1").Hex())
		if err != nil {
			panic(err)
		}
		built := payloads(w, ctx, tok.String())
		// every registered message type with an authority field and a handler
		var urls []string
		for _, u := range w.App.InterfaceRegistry().ListImplementations(sdk.MsgInterfaceProtoName) {
			m, err := w.App.InterfaceRegistry().Resolve(u)
			if err != nil {
				continue
			}
			sm, ok := m.(sdk.Msg)
			if !ok {
				continue
			}
			f := reflect.ValueOf(sm).Elem().FieldByName("Authority")
			if !f.IsValid() || f.Kind() != reflect.String {
				continue
			}
			if w.App.MsgServiceRouter().Handler(sm) == nil {
				continue
			}
			urls = append(urls, u)
		}
		sort.Strings(urls)
		gov := world.GovAuthority()
		govAcc := sdk.MustAccAddressFromBech32(gov)
		wrong := map[string]string{
			"user":          w.A("u1").Bech(),
			"empty":         "",
			"gov-hex":       "0x" + hex.EncodeToString(govAcc),
			"addr-32-bytes": sdk.AccAddress(append(append([]byte{}, govAcc...), make([]byte, 12)...)).String(),
			"gov-prefix":    gov[:len(gov)-1],
			"gov-uppercase": strings.ToUpper(gov),
			// other accounts whose bytes merely contain the governance address
			"32-bytes-ending-in-gov":       sdk.AccAddress(append(make([]byte, 12), govAcc...)).String(),
			"32-bytes-ending-in-gov/other": sdk.MustBech32ifyAddressBytes("cosmos", append([]byte{1, 2, 3, 4, 5, 6, 7, 8, 9, 10, 11, 12}, govAcc...)),
			"gov-bytes-other-prefix":       sdk.MustBech32ifyAddressBytes("cosmos", govAcc),
			"gov-with-spaces":              " " + gov + " ",
		}
		for _, mod := range []string{"erc20", "evm", "eth", "bsc", "distribution", "bonded_tokens_pool", "fee_collector", "mint", "transfer", "crosschain"} {
			wrong["module:"+mod] = authtypes.NewModuleAddress(mod).String()
		}
		var wn []string
		for k := range wrong {
			wn = append(wn, k)
		}
		sort.Strings(wn)
		res.Counters["privileged-message-types"] = len(urls)
		for _, u := range urls {
			vs := built[u]
			if len(vs) == 0 {
				m, _ := w.App.InterfaceRegistry().Resolve(u)
				vs = []variant{{name: "zero-payload", msg: m.(sdk.Msg)}}
				res.Counters["types-with-generic-payload-only"]++
			}
			for _, v := range append([]variant(nil), vs...) {
				vs = append(vs, zeroed(v)...)
			}
			for _, v := range vs {
				// control: the governance authority gets this payload accepted (else the rejection below is vacuous)
				cctx := world.Branch(ctx)
				cr := w.Deliver(cctx, setAuthority(v.msg, gov))
				res.Transitions++
				res.Extra["evaluations"]++
				accepted := cr.OK()
				res.Outcomes[fmt.Sprintf("gov-authority/accepted=%v", accepted)]++
				if accepted {
					res.Counters["payloads-accepted-with-gov-authority"]++
					res.Counters["accepted-with-gov-authority/"+v.name]++
					if w.Digest(cctx) == w.Digest(ctx) {
						res.Counters["accepted-payload-without-state-change"]++
					}
				} else if len(built[u]) > 0 && !v.derived {
					viol("C16/harness/control-payload-rejected/"+v.name, "harness", fmt.Sprintf("%s with the governance authority: %s", v.name, cr), v.name)
				}
				for _, k := range wn {
					for _, direct := range []bool{false, true} {
						if direct && (!accepted || k == "gov-uppercase") {
							continue // handler-level pass: only payloads the handler is known to apply
						}
						bctx := world.Branch(ctx)
						pre := w.Digest(bctx)
						var r world.MsgResult
						if direct {
							// straight to the handler, as an executed proposal message or another module would reach it
							r = w.DeliverToHandler(bctx, setAuthority(v.msg, wrong[k]))
						} else {
							r = w.Deliver(bctx, setAuthority(v.msg, wrong[k]))
						}
						res.Transitions++
						res.Extra["evaluations"]++
						name := fmt.Sprintf("%s %s authority=%s", u, v.name, k)
						if direct {
							name += " (handler called without stateless validation)"
						}
						if k == "gov-uppercase" {
							// the same account in another spelling: accepted or rejected, both are fine, but then like the governance account
							res.Outcomes[fmt.Sprintf("gov-uppercase/accepted=%v", r.OK())]++
							if !r.OK() && w.Digest(bctx) != pre {
								viol("C16/rejected-privileged-message-changed-state/"+u, "rejection-changes-nothing", name, name)
							}
							continue
						}
						res.Outcomes[fmt.Sprintf("wrong-authority/accepted=%v", r.OK())]++
						if r.Panic != nil && !r.OK() {
							res.Outcomes["wrong-authority/panic-before-any-effect"]++ // hostile payloads are C20's subject; nothing was written
							continue
						}
						if r.OK() {
							viol("C16/privileged-message-accepted-from-non-governance-authority/"+u, "only-governance-authority", fmt.Sprintf("%s -> %s", name, r), name)
							continue
						}
						if w.Digest(bctx) != pre {
							viol("C16/rejected-privileged-message-changed-state/"+u, "rejection-changes-nothing", name+": "+strings.Join(world.DiffDumps(w.Dump(ctx), w.Dump(bctx)), "; "), name)
						}
					}
				}
				if len(res.Samples) < 5 && accepted {
					res.Samples = append(res.Samples, []string{u, v.name, fmt.Sprintf("%d non-governance authorities tried", len(wn))})
				}
			}
		}
		// raw store update: compare-and-set in all four old/new/empty combinations, with the governance authority
		key := hex.EncodeToString([]byte("fxmc-c16-key"))
		for _, stored := range []string{"", "aa"} {
			for _, old := range []string{"", "aa", "bb"} {
				bctx := world.Branch(ctx)
				if stored != "" {
					sb, _ := hex.DecodeString(stored)
					kb, _ := hex.DecodeString(key)
					scen.Store(w, bctx, "eth").Set(kb, sb)
				}
				pre := w.Digest(bctx)
				r := w.Deliver(bctx, &fxgovtypes.MsgUpdateStore{Authority: gov, UpdateStores: []fxgovtypes.UpdateStore{{Space: "eth", Key: key, OldValue: old, Value: "cc"}}})
				res.Transitions++
				res.Extra["evaluations"]++
				name := fmt.Sprintf("UpdateStore stored=%q old=%q", stored, old)
				res.Outcomes[fmt.Sprintf("update-store/applied=%v", r.OK())]++
				want := stored == old
				if r.OK() != want {
					viol("C16/raw-store-update-ignores-old-value", "compare-and-set", fmt.Sprintf("%s -> %s", name, r), name)
				}
				if !r.OK() && w.Digest(bctx) != pre {
					viol("C16/rejected-raw-store-update-changed-state", "rejection-changes-nothing", name, name)
				}
				if r.OK() {
					kb, _ := hex.DecodeString(key)
					if got := hex.EncodeToString(scen.Store(w, bctx, "eth").Get(kb)); got != "cc" {
						viol("C16/raw-store-update-wrote-wrong-value", "compare-and-set", name+" -> "+got, name)
					}
				}
			}
		}
		// several updates in one message: each applies only if the value current at that moment (i.e. after the entries
		// before it) equals its stated old value - reference: a sequential compare-and-set over a map
		type upd struct{ key, old, val string }
		k1, k2 := hex.EncodeToString([]byte("fxmc-c16-k1")), hex.EncodeToString([]byte("fxmc-c16-k2"))
		vals := []string{"", "aa", "bb"}
		var lists [][]upd
		for _, o1 := range vals {
			for _, o2 := range vals {
				lists = append(lists, []upd{{k1, o1, "bb"}, {k1, o2, "cc"}}, []upd{{k1, o1, "bb"}, {k2, o2, "cc"}}, []upd{{k1, o1, ""}, {k1, o2, "cc"}})
			}
		}
		for _, l := range lists {
			bctx := world.Branch(ctx)
			ref := map[string]string{k1: "aa", k2: ""}
			kb1, _ := hex.DecodeString(k1)
			scen.Store(w, bctx, "eth").Set(kb1, []byte{0xaa})
			pre := w.Digest(bctx)
			msg := &fxgovtypes.MsgUpdateStore{Authority: gov}
			refOK := true
			name := "UpdateStore["
			for _, u := range l {
				msg.UpdateStores = append(msg.UpdateStores, fxgovtypes.UpdateStore{Space: "eth", Key: u.key, OldValue: u.old, Value: u.val})
				name += fmt.Sprintf(" %s:%q->%q", u.key[len(u.key)-2:], u.old, u.val)
				if refOK && ref[u.key] == u.old {
					ref[u.key] = u.val
				} else {
					refOK = false
				}
			}
			name += " ] on k1=aa"
			r := w.Deliver(bctx, msg)
			res.Transitions++
			res.Extra["evaluations"]++
			res.Outcomes[fmt.Sprintf("update-store-list/applied=%v", r.OK())]++
			if r.Panic != nil {
				continue
			}
			if r.OK() != refOK {
				viol("C16/raw-store-update-list-ignores-current-value", "compare-and-set", fmt.Sprintf("%s: reference (sequential compare-and-set) accepts=%v, implementation %s", name, refOK, r), name)
				continue
			}
			if !r.OK() {
				if w.Digest(bctx) != pre {
					viol("C16/rejected-raw-store-update-changed-state", "rejection-changes-nothing", name, name)
				}
				continue
			}
			for k, want := range ref {
				kb, _ := hex.DecodeString(k)
				if got := hex.EncodeToString(scen.Store(w, bctx, "eth").Get(kb)); got != want {
					viol("C16/raw-store-update-wrote-wrong-value", "compare-and-set", fmt.Sprintf("%s: key %s holds %q, expected %q", name, k[len(k)-2:], got, want), name)
				}
			}
		}
		res.States = res.Counters["payloads-accepted-with-gov-authority"] + res.Counters["privileged-message-types"]
		res.Extra["distinct_nontrivial"] = float64(res.Counters["payloads-accepted-with-gov-authority"])
		res.WallS = time.Since(start).Seconds()
		_ = sdkmath.ZeroInt
		return res
	}
}

func init() {
	registry.Register(&registry.Check{
		ID:          "C16",
		Level:       "exploration",
		Rule:        "every message type registered on the interface registry that has an Authority field and a handler on the message router (found by reflection; crosschain messages for all 8 chain names) x hand-built payloads that are checked to be accepted with the governance authority (generic zero payload for types without one) x 16 non-governance authorities (user, empty, 10 module accounts, governance address as hex, 32-byte address, truncated, upper-case spelling); oracle: error and the whole-store digest unchanged. Raw store update: all stored/old-value combinations. distinct_nontrivial = payloads whose governance-authority control was accepted",
		Assumptions: []string{"message types that only have the generic zero payload may be rejected by validation before the authority check is reached (counted in types-with-generic-payload-only)", "the upper-case bech32 spelling is the governance account (DESIGN 6b)"},
		Jobs: func(tier string) []registry.Job {
			return []registry.Job{{Name: "router-x-authorities", Custom: run(tier == "thorough"), Shards: 1}}
		},
	})
}
