package c12

import (
	"math/big"

	"github.com/ethereum/go-ethereum/crypto"
	"golang.org/x/crypto/sha3"
)

// An independent implementation of Solidity's abi.encode for the argument lists used by FxBridgeLogic.sol.
// It is written from the ABI specification (head / tail layout) and does not use go-ethereum's abi package.

type arg struct {
	kind  string // bytes32 | uint | address | address[] | uint[] | bytes
	b32   [32]byte
	u     *big.Int
	addr  [20]byte
	addrs [][20]byte
	us    []*big.Int
	bs    []byte
}

func word(u *big.Int) []byte {
	out := make([]byte, 32)
	b := u.Bytes()
	copy(out[32-len(b):], b)
	return out
}

func wordN(n int) []byte { return word(big.NewInt(int64(n))) }

func addrWord(a [20]byte) []byte {
	out := make([]byte, 32)
	copy(out[12:], a[:])
	return out
}

func encode(args []arg) []byte {
	headSize := 32 * len(args)
	var head, tail []byte
	for _, a := range args {
		switch a.kind {
		case "bytes32":
			head = append(head, a.b32[:]...)
		case "uint":
			head = append(head, word(a.u)...)
		case "address":
			head = append(head, addrWord(a.addr)...)
		case "address[]":
			head = append(head, wordN(headSize+len(tail))...)
			tail = append(tail, wordN(len(a.addrs))...)
			for _, x := range a.addrs {
				tail = append(tail, addrWord(x)...)
			}
		case "uint[]":
			head = append(head, wordN(headSize+len(tail))...)
			tail = append(tail, wordN(len(a.us))...)
			for _, x := range a.us {
				tail = append(tail, word(x)...)
			}
		case "bytes":
			head = append(head, wordN(headSize+len(tail))...)
			tail = append(tail, wordN(len(a.bs))...)
			tail = append(tail, a.bs...)
			if pad := (32 - len(a.bs)%32) % 32; pad > 0 {
				tail = append(tail, make([]byte, pad)...)
			}
		}
	}
	return append(head, tail...)
}

func keccak(b []byte) []byte {
	h := sha3.NewLegacyKeccak256()
	h.Write(b)
	return h.Sum(nil)
}

func b32(s string) [32]byte {
	var o [32]byte
	copy(o[:], s)
	return o
}

var _ = crypto.Keccak256
