// Package c12: a confirmation is stored only with the oracle's signature over the exact object.
package c12

import (
	"bytes"
	"crypto/ecdsa"
	"encoding/hex"
	"fmt"
	"math/big"
	"strings"
	"time"

	sdkmath "cosmossdk.io/math"
	sdk "github.com/cosmos/cosmos-sdk/types"
	"github.com/ethereum/go-ethereum/common"
	"github.com/ethereum/go-ethereum/crypto"
	tronaddress "github.com/fbsobreira/gotron-sdk/pkg/address"

	cctypes "github.com/functionx/fx-core/v8/x/crosschain/types"

	"fxmc/explore"
	"fxmc/props/registry"
	"fxmc/scen"
	"fxmc/world"
)

func u64(v uint64) *big.Int { return new(big.Int).SetUint64(v) }

// addr20 converts an external address of chain to its 20 bytes.
func addr20(chain, a string) [20]byte {
	var out [20]byte
	if chain == "tron" {
		t, err := tronaddress.Base58ToAddress(a)
		if err != nil {
			panic(err)
		}
		copy(out[:], t.Bytes()[1:])
		return out
	}
	copy(out[:], common.HexToAddress(a).Bytes())
	return out
}

func refOracleSet(chain, gid string, o *cctypes.OracleSet) []byte {
	var as [][20]byte
	var ps []*big.Int
	for _, m := range o.Members {
		as = append(as, addr20(chain, m.ExternalAddress))
		ps = append(ps, u64(m.Power))
	}
	return keccak(encode([]arg{{kind: "bytes32", b32: b32(gid)}, {kind: "bytes32", b32: b32("checkpoint")}, {kind: "uint", u: u64(o.Nonce)}, {kind: "address[]", addrs: as}, {kind: "uint[]", us: ps}}))
}

func refBatch(chain, gid string, b *cctypes.OutgoingTxBatch) []byte {
	var amts, fees []*big.Int
	var ds [][20]byte
	for _, tx := range b.Transactions {
		amts = append(amts, tx.Token.Amount.BigInt())
		fees = append(fees, tx.Fee.Amount.BigInt())
		ds = append(ds, addr20(chain, tx.DestAddress))
	}
	return keccak(encode([]arg{{kind: "bytes32", b32: b32(gid)}, {kind: "bytes32", b32: b32("transactionBatch")}, {kind: "uint[]", us: amts}, {kind: "address[]", addrs: ds}, {kind: "uint[]", us: fees},
		{kind: "uint", u: u64(b.BatchNonce)}, {kind: "address", addr: addr20(chain, b.TokenContract)}, {kind: "uint", u: u64(b.BatchTimeout)}, {kind: "address", addr: addr20(chain, b.FeeReceive)}}))
}

func refBridgeCall(chain, gid string, c *cctypes.OutgoingBridgeCall) []byte {
	var ts [][20]byte
	var amts []*big.Int
	for _, t := range c.Tokens {
		ts = append(ts, addr20(chain, t.Contract))
		amts = append(amts, t.Amount.BigInt())
	}
	data, _ := hex.DecodeString(c.Data)
	memo, _ := hex.DecodeString(c.Memo)
	return keccak(encode([]arg{{kind: "bytes32", b32: b32(gid)}, {kind: "bytes32", b32: b32("bridgeCall")}, {kind: "address", addr: addr20(chain, c.Sender)}, {kind: "address", addr: addr20(chain, c.Refund)},
		{kind: "address[]", addrs: ts}, {kind: "uint[]", us: amts}, {kind: "address", addr: addr20(chain, c.To)}, {kind: "bytes", bs: data}, {kind: "bytes", bs: memo},
		{kind: "uint", u: u64(c.Nonce)}, {kind: "uint", u: u64(c.Timeout)}, {kind: "uint", u: u64(c.EventNonce)}}))
}

var boundary = []uint64{1, 0, 1<<32 - 1, 1<<63 - 1, 1 << 63, 1<<64 - 1}
var blobs = []string{"", "01", strings.Repeat("ab", 32), strings.Repeat("cd", 33)}
var gids = []string{"fx-gravity-id", "x", strings.Repeat("g", 31), strings.Repeat("h", 32)}

type result struct {
	res      *explore.Result
	distinct map[string]string // checkpoint -> canonical object
}

func (r *result) viol(sig, oracle, detail string, path ...string) {
	r.res.ViolationCounts[sig]++
	for _, v := range r.res.Violations {
		if v.Signature == sig {
			return
		}
	}
	r.res.Violations = append(r.res.Violations, explore.Violation{Oracle: oracle, Signature: sig, Detail: detail, Path: path})
}

func (r *result) compare(kind, chain, field, desc string, got []byte, err error, want []byte, canon string) {
	r.res.Extra["evaluations"]++
	if err != nil {
		r.viol(fmt.Sprintf("C12/checkpoint-cannot-be-computed/%s/%s", kind, field), "checkpoint-defined-for-every-object", fmt.Sprintf("%s %s: %v", chain, desc, err), desc)
		return
	}
	if !bytes.Equal(got, want) {
		r.viol(fmt.Sprintf("C12/checkpoint-differs-from-contract-digest/%s/%s", kind, field), "checkpoint-equals-contract-digest", fmt.Sprintf("%s %s %s: fxcore signs %x, the contract recomputes %x", chain, kind, desc, got, want), desc)
	}
	key := kind + "/" + chain + "/" + hex.EncodeToString(got)
	if prev, ok := r.distinct[key]; ok && prev != canon {
		r.viol(fmt.Sprintf("C12/two-objects-one-checkpoint/%s", kind), "checkpoint-injective", fmt.Sprintf("%s and %s", prev, canon), desc)
	}
	r.distinct[key] = canon
}

func (r *result) checkpoints(chain string) {
	ext := func(l string) string { return scen.ExtAddr(chain, l) }
	cpOS := func(o *cctypes.OracleSet, gid string) ([]byte, error) {
		defer func() { recover() }()
		return scen.OracleSetCheckpointE(chain, gid, o)
	}
	// ---- oracle sets
	for _, gid := range gids[:3] {
		for n := 0; n <= 3; n++ {
			for _, nonce := range boundary {
				for _, pw := range boundary {
					o := &cctypes.OracleSet{Nonce: nonce, Height: 5}
					for i := 0; i < n; i++ {
						p := pw
						if i > 0 {
							p = uint64(i)
						}
						o.Members = append(o.Members, cctypes.BridgeValidator{Power: p, ExternalAddress: ext(fmt.Sprintf("m%d", i))})
					}
					desc := fmt.Sprintf("oracle set gid=%q members=%d nonce=%d power0=%d", gid, n, nonce, pw)
					field := "value<2^63"
					if nonce >= 1<<63 {
						field = "nonce>=2^63"
					} else if pw >= 1<<63 && n > 0 {
						field = "power>=2^63"
					}
					got, err := cpOS(o, gid)
					r.compare("oracle-set", chain, field, desc, got, err, refOracleSet(chain, gid, o), fmt.Sprintf("%s|%+v", gid, o))
					if n == 0 {
						break
					}
				}
			}
		}
	}
	// ---- batches
	for _, gid := range gids[:2] {
		for n := 0; n <= 3; n++ {
			for _, nonce := range boundary {
				for _, to := range boundary {
					b := &cctypes.OutgoingTxBatch{BatchNonce: nonce, BatchTimeout: to, TokenContract: ext("tok"), FeeReceive: ext("fee"), Block: 7}
					for i := 0; i < n; i++ {
						amt := sdkmath.NewIntFromBigInt(new(big.Int).Lsh(big.NewInt(int64(i+1)), uint(70*i)))
						b.Transactions = append(b.Transactions, &cctypes.OutgoingTransferTx{Id: uint64(i + 1), Sender: world.NewActor("u1").Bech(), DestAddress: ext(fmt.Sprintf("d%d", i)),
							Token: cctypes.NewERC20Token(amt, ext("tok")), Fee: cctypes.NewERC20Token(sdkmath.NewInt(int64(i+1)), ext("tok"))})
					}
					field := "value<2^63"
					if nonce >= 1<<63 {
						field = "nonce>=2^63"
					} else if to >= 1<<63 {
						field = "timeout>=2^63"
					}
					desc := fmt.Sprintf("batch gid=%q txs=%d nonce=%d timeout=%d", gid, n, nonce, to)
					got, err := scen.BatchCheckpointE(chain, gid, b)
					r.compare("batch", chain, field, desc, got, err, refBatch(chain, gid, b), fmt.Sprintf("%s|%+v", gid, b))
				}
			}
		}
	}
	// ---- bridge calls
	for _, gid := range gids[:2] {
		for n := 0; n <= 2; n++ {
			for _, data := range blobs {
				for _, memo := range blobs {
					for _, v := range boundary {
						for which := 0; which < 3; which++ {
							c := &cctypes.OutgoingBridgeCall{Sender: ext("s"), Refund: ext("r"), To: ext("t"), Data: data, Memo: memo, Nonce: 3, Timeout: 9, EventNonce: 4, BlockHeight: 2}
							name := []string{"nonce", "timeout", "event-nonce"}[which]
							switch which {
							case 0:
								c.Nonce = v
							case 1:
								c.Timeout = v
							case 2:
								c.EventNonce = v
							}
							for i := 0; i < n; i++ {
								c.Tokens = append(c.Tokens, cctypes.NewERC20Token(sdkmath.NewInt(int64(5+i)), ext(fmt.Sprintf("tk%d", i))))
							}
							field := "value<2^63"
							if v >= 1<<63 {
								field = name + ">=2^63"
							}
							desc := fmt.Sprintf("bridge call gid=%q tokens=%d data=%dB memo=%dB %s=%d", gid, n, len(data)/2, len(memo)/2, name, v)
							got, err := scen.BridgeCallCheckpointE(chain, gid, c)
							r.compare("bridge-call", chain, field, desc, got, err, refBridgeCall(chain, gid, c), fmt.Sprintf("%s|%+v", gid, c))
						}
					}
				}
			}
		}
	}
	// a gravity id that does not fit 32 bytes must be refused, not truncated
	if _, err := scen.OracleSetCheckpointE(chain, strings.Repeat("z", 33), &cctypes.OracleSet{Nonce: 1}); err == nil {
		r.viol("C12/over-long-gravity-id-accepted", "checkpoint-defined-for-every-object", "33-byte gravity id", chain)
	}
}

// ---------------------------------------------------------------- confirmations in the real keeper

func malleate(sig []byte) []byte {
	// (r, s, v) -> (r, n-s, v^1): the other valid signature of the same key over the same digest
	n := crypto.S256().Params().N
	s := new(big.Int).SetBytes(sig[32:64])
	s.Sub(n, s)
	out := append([]byte{}, sig...)
	copy(out[32:64], common.LeftPadBytes(s.Bytes(), 32))
	out[64] ^= 1
	return out
}

func (r *result) confirmations(chain string) {
	w := world.New(world.Config{Validators: 2, Actors: []string{"bank", "u1", "mallory"}})
	ctx := w.Root
	os := scen.SetupOracles(w, ctx, chain, []string{"o1", "o2"}, []int64{10000, 10000})
	k := scen.Keeper(w, chain)
	token := scen.ExtAddr(chain, "fx-token")
	scen.Observe(w, ctx, chain, os, scen.BridgeTokenClaim(chain, 1, 100, token, "Function X", "FX", 18, ""))
	// objects: an oracle set (created by the end blocker), a batch and an outgoing bridge call
	next, br := w.NextBlock(ctx, 5*time.Second)
	if br.Err != nil || br.Panic != nil {
		panic("block")
	}
	ctx = next
	u1 := w.A("u1")
	w.MustDeliver(ctx, &cctypes.MsgSendToExternal{ChainName: chain, Sender: u1.Bech(), Dest: scen.ExtAddr(chain, "d"), Amount: sdk.NewInt64Coin("FX", 5), BridgeFee: sdk.NewInt64Coin("FX", 1)})
	w.MustDeliver(ctx, &cctypes.MsgRequestBatch{ChainName: chain, Sender: os[0].Bridger.Bech(), Denom: "FX", MinimumFee: sdkmath.NewInt(1), FeeReceive: scen.ExtAddr(chain, "fee"), BaseFee: sdkmath.ZeroInt()})
	w.MustDeliver(ctx, &cctypes.MsgBridgeCall{ChainName: chain, Sender: u1.Bech(), Refund: u1.Bech(), To: scen.ExtAddr(chain, "callee"), Data: "01", Value: sdkmath.ZeroInt()})
	gid := k.GetGravityID(ctx)
	oset := k.GetLatestOracleSet(ctx)
	batch := k.GetOutgoingTxBatches(ctx)[0]
	call, _ := k.GetOutgoingBridgeCallByNonce(ctx, 1)
	k3, _ := crypto.ToECDSA(keccak([]byte("fxmc/unregistered-key")))

	type object struct {
		kind   string
		cp     []byte
		wrong  map[string][]byte // other digests
		build  func(bridger, ext, sig string) sdk.Msg
		stored func(c sdk.Context, oracle sdk.AccAddress) bool
	}
	osMut := *oset
	osMut.Nonce++
	bMut := *batch
	bMut.BatchTimeout++
	cMut := *call
	cMut.Memo = "ff"
	// a chain whose signatures are made out differently (tron signs with its own prefix, all other modules with eth's)
	otherChain := "tron"
	if chain == "tron" {
		otherChain = "eth"
	}
	objs := []object{
		{"oracle-set", scen.OracleSetCheckpoint(chain, gid, oset), map[string][]byte{"mutated-object": scen.OracleSetCheckpoint(chain, gid, &osMut), "other-gravity-id": scen.OracleSetCheckpoint(chain, "other", oset)},
			func(b, e, s string) sdk.Msg {
				return &cctypes.MsgOracleSetConfirm{ChainName: chain, Nonce: oset.Nonce, BridgerAddress: b, ExternalAddress: e, Signature: s}
			}, func(c sdk.Context, o sdk.AccAddress) bool { return k.GetOracleSetConfirm(c, oset.Nonce, o) != nil }},
		{"batch", scen.BatchCheckpoint(chain, gid, batch), map[string][]byte{"mutated-object": scen.BatchCheckpoint(chain, gid, &bMut), "other-gravity-id": scen.BatchCheckpoint(chain, "other", batch), "other-kind": scen.OracleSetCheckpoint(chain, gid, oset)},
			func(b, e, s string) sdk.Msg {
				return &cctypes.MsgConfirmBatch{ChainName: chain, Nonce: batch.BatchNonce, TokenContract: batch.TokenContract, BridgerAddress: b, ExternalAddress: e, Signature: s}
			}, func(c sdk.Context, o sdk.AccAddress) bool {
				return k.GetBatchConfirm(c, batch.TokenContract, batch.BatchNonce, o) != nil
			}},
		{"bridge-call", scen.BridgeCallCheckpoint(chain, gid, call), map[string][]byte{"mutated-object": scen.BridgeCallCheckpoint(chain, gid, &cMut), "other-gravity-id": scen.BridgeCallCheckpoint(chain, "other", call)},
			func(b, e, s string) sdk.Msg {
				return &cctypes.MsgBridgeCallConfirm{ChainName: chain, Nonce: call.Nonce, BridgerAddress: b, ExternalAddress: e, Signature: s}
			}, func(c sdk.Context, o sdk.AccAddress) bool { return k.HasBridgeCallConfirm(c, call.Nonce, o) }},
	}
	keys := map[string]*ecdsa.PrivateKey{"K1": os[0].ExtKey, "K2": os[1].ExtKey, "K3-unregistered": k3}
	for _, env := range []string{"", "after a parameter update that was not committed"} {
		if env != "" {
			// a governance parameter update naming another gravity id runs on a branch that is thrown away (a failed
			// proposal, a failed or simulated transaction): the stored object and the stored gravity id are untouched
			d := world.Branch(ctx)
			p := k.GetParams(d)
			p.GravityId = "other"
			if r0 := w.Deliver(d, &cctypes.MsgUpdateParams{ChainName: chain, Authority: world.GovAuthority(), Params: p}); !r0.OK() {
				panic("c12: discarded parameter update refused: " + r0.String())
			}
			if k.GetParams(ctx).GravityId != gid {
				panic("c12: the discarded branch leaked into its parent")
			}
		}
		for _, ob := range objs {
			digests := map[string][]byte{"exact": ob.cp}
			for n, d := range ob.wrong {
				digests[n] = d
			}
			for kn, key := range keys {
				for dn, digest := range digests {
					for _, prefixChain := range []string{chain, otherChain} {
						raw, _ := hex.DecodeString(scen.Sign(prefixChain, key, digest))
						encs := map[string][]byte{"v=0/1": raw, "v=27/28": append(append([]byte{}, raw[:64]...), raw[64]+27), "malleated-s": malleate(raw), "64-bytes": raw[:64], "66-bytes": append(append([]byte{}, raw...), 0), "empty": {},
							// recovery bytes the external contract's ecrecover rejects (it accepts 27 / 28 only): such a signature is
							// not usable there, so a confirmation carrying it must not be accepted
							"v=29/30": append(append([]byte{}, raw[:64]...), raw[64]+29), "v=35/36": append(append([]byte{}, raw[:64]...), raw[64]+35), "v=37/38": append(append([]byte{}, raw[:64]...), raw[64]+37),
							"v=147/148": append(append([]byte{}, raw[:64]...), raw[64]+147), "v=2/3": append(append([]byte{}, raw[:64]...), raw[64]+2)}
						for en, sig := range encs {
							for bn, bridger := range map[string]string{"B1": os[0].Bridger.Bech(), "B2": os[1].Bridger.Bech()} {
								for xn, extAddr := range map[string]string{"K1-address": os[0].ExtAddr, "K2-address": os[1].ExtAddr} {
									for _, wrap := range []string{"direct", "wrapped-by-same-bridger", "wrapped-by-mallory"} {
										if wrap != "direct" && (en != "v=0/1" || dn != "exact" || prefixChain != chain) {
											continue
										}
										c := world.Branch(ctx)
										inner := ob.build(bridger, extAddr, hex.EncodeToString(sig))
										var msg sdk.Msg = inner
										switch wrap {
										case "wrapped-by-same-bridger":
											msg = scen.WrapConfirm(chain, bridger, inner.(cctypes.Confirm))
										case "wrapped-by-mallory":
											msg = scen.WrapConfirm(chain, w.A("mallory").Bech(), inner.(cctypes.Confirm))
										}
										name := fmt.Sprintf("%s %s: signed by %s over %s (prefix %s, %s), bridger %s, external %s, %s", chain, ob.kind, kn, dn, prefixChain, en, bn, xn, wrap)
										if env != "" {
											name += ", " + env
										}
										// the confirm is attributed to the oracle that owns the named external address
										owner := os[0]
										if xn == "K2-address" {
											owner = os[1]
										}
										validSig := dn == "exact" && prefixChain == chain && (en == "v=0/1" || en == "v=27/28" || en == "malleated-s") &&
											((kn == "K1" && xn == "K1-address") || (kn == "K2" && xn == "K2-address"))
										rightBridger := (xn == "K1-address" && bn == "B1") || (xn == "K2-address" && bn == "B2")
										want := validSig && rightBridger && wrap != "wrapped-by-mallory"
										r1 := w.Deliver(c, msg)
										r.res.Transitions++
										r.res.Extra["evaluations"]++
										got := ob.stored(c, owner.Acct.Acc())
										r.res.Outcomes[fmt.Sprintf("confirm/%s/stored=%v", ob.kind, got)]++
										if got != r1.OK() {
											r.viol("C12/confirm-verdict-and-store-disagree/"+ob.kind, "stored-iff-accepted", fmt.Sprintf("%s: result %s, stored=%v", name, r1, got), name)
										}
										if got && !want {
											why := "signature-does-not-verify"
											switch {
											case validSig && !rightBridger:
												why = "submitted-by-foreign-bridger"
											case validSig && rightBridger:
												why = "transaction-signed-by-another-account"
											case dn != "exact":
												why = "signature-over-" + dn
											case prefixChain != chain:
												why = "signature-for-other-chain-kind"
											}
											r.viol(fmt.Sprintf("C12/confirmation-stored-although-%s/%s", why, ob.kind), "stored-only-with-valid-signature-by-own-bridger", name, name)
										}
										if !got && want {
											r.viol(fmt.Sprintf("C12/valid-confirmation-refused/%s/%s", ob.kind, en), "valid-confirmation-accepted", name+": "+r1.String(), name)
										}
										if got {
											// at most one confirmation per oracle and object: the same confirm again must be refused
											r2 := w.Deliver(c, msg)
											r.res.Transitions++
											if r2.OK() {
												r.viol("C12/duplicate-confirmation-accepted/"+ob.kind, "one-confirmation-per-oracle-and-object", name+" (repeat)", name)
											}
											if en == "v=0/1" {
												// ... also in its other encodings
												alt := ob.build(bridger, extAddr, hex.EncodeToString(encs["malleated-s"]))
												if r3 := w.Deliver(c, alt); r3.OK() {
													r.viol("C12/duplicate-confirmation-accepted/"+ob.kind, "one-confirmation-per-oracle-and-object", name+" (repeat with malleated signature)", name)
												}
											}
											r.res.Counters["confirmations-stored"]++
										}
										if len(r.res.Samples) < 6 && got {
											r.res.Samples = append(r.res.Samples, []string{name, r1.String()})
										}
									}
								}
							}
						}
					}
				}
			}
		}
	}
}

func run(thorough bool) func(shard, shards int, deadline time.Time) *explore.Result {
	return func(shard, shards int, deadline time.Time) *explore.Result {
		start := time.Now()
		res := &explore.Result{Spec: "c12", Outcomes: map[string]int{}, Counters: map[string]int{}, ViolationCounts: map[string]int{}, Exhaustive: true, DeterminismOK: true, Extra: map[string]float64{}}
		r := &result{res: res, distinct: map[string]string{}}
		chains := []string{"eth", "tron"}
		if thorough {
			chains = scen.AllChains // every bridge module (tron has its own encoding; the others share eth's)
		}
		for i, ch := range chains {
			if shards > 1 && i%shards != shard {
				continue
			}
			r.checkpoints(ch)
			r.confirmations(ch)
		}
		res.States = len(r.distinct)
		res.Extra["distinct_nontrivial"] = float64(len(r.distinct))
		res.WallS = time.Since(start).Seconds()
		return res
	}
}

func init() {
	registry.Register(&registry.Check{
		ID:          "C12",
		Level:       "model_checking",
		Rule:        "checkpoint half: oracle sets (0-3 members), batches (0-3 transfers) and bridge calls (0-2 tokens, data/memo of 0, 1, 32, 33 bytes) with every uint64 field from {0, 1, 2^32-1, 2^63-1, 2^63, 2^64-1} and three gravity ids, for the eth and the tron encoding; fxcore's checkpoint must equal byte for byte the digest of an independent abi.encode implementation written from the argument lists in FxBridgeLogic.sol, and distinct objects must have distinct checkpoints. Confirmation half (real keeper, eth and tron): every candidate (signing key in {oracle 1, oracle 2, unregistered}) x (digest in {exact, mutated object, other gravity id, other kind}) x (chain prefix) x (encoding v=0/1, v=27/28, malleated s, 64, 66, 0 bytes) x (bridger) x (external address) x (direct, wrapped by the same bridger, wrapped by a third account) x (first, repeat) for oracle-set, batch and bridge-call confirms; stored iff the signature verifies under the named oracle's key over the exact checkpoint, the bridger is that oracle's, the transaction signer is that bridger, and no confirm of that oracle exists. states = distinct checkpoints, transitions = confirm messages delivered",
		Assumptions: []string{"signature recovery itself (secp256k1) is trusted", "the reference encoder covers static words, dynamic arrays and bytes as used by the three abi.encode calls"},
		Jobs: func(tier string) []registry.Job {
			if tier == "thorough" {
				return []registry.Job{{Name: "checkpoints+confirmations-all-chains", Custom: run(true), Shards: 8}}
			}
			return []registry.Job{{Name: "checkpoints+confirmations", Custom: run(false), Shards: 2}}
		},
	})
}
