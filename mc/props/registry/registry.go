// Package registry maps property ids to the jobs (scenario x bound) that decide them.
package registry

import (
	"time"

	"fxmc/explore"
)

// Job is one exhaustive run: an E1 spec with a depth bound, or a custom enumerator (E2/E3/E4).
type Job struct {
	Name       string
	Spec       explore.Spec
	Depth      int
	ShardDepth int
	// Custom enumerators receive their shard and must fill an explore.Result.
	Custom func(shard, shards int, deadline time.Time) *explore.Result
	// Shards overrides the default worker count (1 = run in a single worker).
	Shards int
	// NoConform switches the real-block conformance replay of this job's op sequences off.
	NoConform bool
}

type Check struct {
	ID          string
	Level       string // model_checking | fault_enumeration | exploration
	Rule        string
	Assumptions []string
	Jobs        func(tier string) []Job
}

var checks = map[string]*Check{}

func Register(c *Check) { checks[c.ID] = c }

func Get(id string) *Check { return checks[id] }

func IDs() []string {
	var out []string
	for k := range checks {
		out = append(out, k)
	}
	return out
}
