// Package c04: bridge solvency - per-token holdings always equal deposits minus withdrawals.
package c04

import (
	"fxmc/props/bridge"
	"fxmc/props/c19"
	"fxmc/props/registry"
)

func init() {
	registry.Register(&registry.Check{
		ID:          "C04",
		Level:       "model_checking",
		Rule:        "explicit-state DFS over deposits, sends (message and crossChain precompile), cancels, fee increases, batches, batch executions, timeouts, outgoing bridge calls with results, inbound bridge calls and blocks for FX, a module-owned pair with per-chain aliases and an externally-owned pair; a reference ledger predicts every tracked account's holdings (base coin + every bridge denomination + ERC-20) after every step; per token: holders + in flight = seeded + deposits - withdrawals; a send / bridge call within the holder's balance must not be refused",
		Assumptions: []string{"FX holdings are tracked as deltas of the tracked accounts (FX supply inflates every block); amounts 1-2 units", "withdrawability is per destination chain (DESIGN 6b)"},
		Jobs: func(tier string) []registry.Job {
			if tier == "thorough" {
				return []registry.Job{
					{Name: "eth-FX+usdt", Spec: &bridge.Spec{Prop: "C04", Chains: []string{"eth"}, Tokens: []string{"FX", "usdt"}, Ledger: true, Calls: true, Inbound: true, MaxSend: 3}, Depth: 6, ShardDepth: 2},
					{Name: "batch-life-cycle-deep", Spec: &bridge.Spec{Prop: "C04", Chains: []string{"eth"}, Tokens: []string{"usdt", "tok"}, Ledger: true, MaxSend: 4, Focus: "batches"}, Depth: 9, ShardDepth: 2},
					{Name: "inbound-send-call-to", Spec: &bridge.Spec{Prop: "C04", Chains: []string{"eth"}, Tokens: []string{"FX", "usdt", "tok"}, Ledger: true, Calls: true, Inbound: true, SendCallTo: true, MaxSend: 1}, Depth: 5, ShardDepth: 2},
					{Name: "native-coin-lookalike", Spec: &bridge.Spec{Prop: "C04", Chains: []string{"eth"}, Tokens: []string{"FX", "usdt"}, Ledger: true, Lookalike: true, MaxSend: 2}, Depth: 5, ShardDepth: 2},
					{Name: "eth+bsc-usdt+tok-evm", Spec: &bridge.Spec{Prop: "C04", Chains: []string{"eth", "bsc"}, Tokens: []string{"usdt", "tok"}, Ledger: true, Calls: true, EVM: true, Inbound: true, MaxSend: 2}, Depth: 6, ShardDepth: 2},
				}
			}
			return []registry.Job{
				{Name: "eth-FX+usdt", Spec: &bridge.Spec{Prop: "C04", Chains: []string{"eth"}, Tokens: []string{"FX", "usdt"}, Ledger: true, Calls: true, Inbound: true, MaxSend: 2}, Depth: 4, ShardDepth: 2},
				{Name: "eth-usdt+tok-evm", Spec: &bridge.Spec{Prop: "C04", Chains: []string{"eth"}, Tokens: []string{"usdt", "tok"}, Ledger: true, EVM: true, Calls: true, MaxSend: 2}, Depth: 4, ShardDepth: 2},
				{Name: "batch-life-cycle-deep", Spec: &bridge.Spec{Prop: "C04", Chains: []string{"eth"}, Tokens: []string{"usdt", "tok"}, Ledger: true, MaxSend: 3, Focus: "batches"}, Depth: 7, ShardDepth: 2},
				{Name: "inbound-send-call-to", Spec: &bridge.Spec{Prop: "C04", Chains: []string{"eth"}, Tokens: []string{"usdt", "tok"}, Ledger: true, Calls: true, Inbound: true, SendCallTo: true, MaxSend: 1}, Depth: 3, ShardDepth: 1},
				// a bridge token whose symbol reads like the native coin's in another letter case is registered and deposited
				{Name: "native-coin-lookalike", Spec: &bridge.Spec{Prop: "C04", Chains: []string{"eth"}, Tokens: []string{"FX"}, Ledger: true, Lookalike: true, MaxSend: 2}, Depth: 4, ShardDepth: 1},
				// a deposit whose receiver asked for the coins to be forwarded over an IBC channel (loop-back channels of the C19 world)
				{Name: "deposit-forwarded-over-ibc", Spec: &c19.Spec{Prop: "C04", Mode: "deposit"}, Depth: 2, ShardDepth: 1, NoConform: true},
				// 99 transfers wait in the pool; two more sends make it more than one batch (100 entries) can take
				{Name: "pool-larger-than-a-batch", Spec: &bridge.Spec{Prop: "C04", Chains: []string{"eth"}, Tokens: []string{"FX"}, Ledger: true, Book: true, MaxSend: 101, Prefill: 99, Focus: "batches"}, Depth: 4, ShardDepth: 1},
			}
		},
	})
}
