// Package c09: a precompile call is all-or-nothing across Cosmos state and EVM state.
// Engine E2: for every state-changing precompile method and call-tree shape the transaction is first traced
// with ample gas, then re-run at every gas threshold of that trace (every opcode boundary, plus a grid inside
// the gaps that native precompile code spends) and the full store dump is compared with the designated outcome.
package c09

import (
	"fmt"
	"math/big"
	"sort"
	"strings"
	"time"

	sdkmath "cosmossdk.io/math"
	sdk "github.com/cosmos/cosmos-sdk/types"
	"github.com/ethereum/go-ethereum/common"
	"github.com/ethereum/go-ethereum/core"
	"github.com/ethereum/go-ethereum/eth/tracers/logger"
	evmtypes "github.com/evmos/ethermint/x/evm/types"

	"github.com/functionx/fx-core/v8/contract"
	cctypes "github.com/functionx/fx-core/v8/x/crosschain/types"
	erc20types "github.com/functionx/fx-core/v8/x/erc20/types"
	fxstakingtypes "github.com/functionx/fx-core/v8/x/staking/types"

	"fxmc/evmasm"
	"fxmc/explore"
	"fxmc/props/registry"
	"fxmc/scen"
	"fxmc/world"
)

func e18(n int64) *big.Int { return new(big.Int).Mul(big.NewInt(n), big.NewInt(1e18)) }

type env struct {
	w     *world.World
	ctx   sdk.Context
	user  world.Actor // sends the transactions, deploys the programs
	owner world.Actor // has a delegation (for transferFromShares)
	m     world.Actor
	val   sdk.ValAddress
	claim uint64     // pending executable claim nonce
	late  uint64     // parked result claim of an outgoing bridge call that was already refunded for timeout: executing it fails in the keeper after the parked claim was consumed
	usdt  scen.Token // a module-owned pair; the user holds 50 as ERC-20
}

func setup() *env {
	w := world.New(world.Config{Validators: 2, Actors: []string{"bank", "user", "owner", "m", "rel"}})
	ctx := w.Root
	e := &env{w: w, user: w.A("user"), owner: w.A("owner"), m: w.A("m"), val: w.Vals[0].ValAddr()}
	os := map[string][]scen.Oracle{"eth": scen.SetupOracles(w, ctx, "eth", []string{"eth-o1"}, []int64{10000})}
	nonces := map[string]uint64{}
	fx := scen.RegisterFX(w, ctx, os, nonces, 1000)
	if r := w.CallABI(ctx, e.owner, fxstakingtypes.GetAddress(), fxstakingtypes.GetABI(), nil, 3_000_000, "delegateV2", e.val.String(), e18(100)); !r.Success() {
		panic(r.String())
	}
	// the user holds a bridged ERC-20 (deposit observed and executed, then converted)
	e.usdt = scen.RegisterModuleToken(w, ctx, "USDT", os, nonces, 1000)
	nonces["eth"]++
	scen.Observe(w, ctx, "eth", os["eth"], scen.SendToFxClaim("eth", nonces["eth"], 1000, e.usdt.Ext["eth"], 100, scen.ExtAddr("eth", "depositor"), e.user.Acc(), "", ""))
	if r := w.CallABI(ctx, w.A("rel"), cctypes.GetAddress(), cctypes.GetABI(), nil, 800000, "executeClaim", "eth", new(big.Int).SetUint64(nonces["eth"])); !r.Success() {
		panic("deposit: " + r.String())
	}
	w.MustDeliver(ctx, &erc20types.MsgConvertCoin{Coin: sdk.NewInt64Coin("usdt", 50), Receiver: e.user.Hex().String(), Sender: e.user.Bech()})
	// one observed, not yet executed SendToFx claim
	nonces["eth"]++
	e.claim = nonces["eth"]
	scen.Observe(w, ctx, "eth", os["eth"], scen.SendToFxClaim("eth", e.claim, 1000, fx.Ext["eth"], 5, scen.ExtAddr("eth", "depositor"), e.m.Acc(), "", ""))
	// an outgoing bridge call of m times out (an event at its timeout height is observed: refunded and deleted), then its
	// late result is observed and parked
	w.MustDeliver(ctx, &cctypes.MsgBridgeCall{ChainName: "eth", Sender: e.m.Bech(), Refund: e.m.Bech(), Coins: sdk.NewCoins(sdk.NewInt64Coin("FX", 2)), To: scen.ExtAddr("eth", "callee"), Data: "01", Value: sdkmath.ZeroInt()})
	k := scen.Keeper(w, "eth")
	oc, ok := k.GetOutgoingBridgeCallByNonce(ctx, 1)
	if !ok {
		panic("c09 set-up: outgoing bridge call missing")
	}
	nonces["eth"]++
	scen.Observe(w, ctx, "eth", os["eth"], scen.SendToFxClaim("eth", nonces["eth"], oc.Timeout+1, fx.Ext["eth"], 1, scen.ExtAddr("eth", "depositor"), e.m.Acc(), "", ""))
	if _, still := k.GetOutgoingBridgeCallByNonce(ctx, 1); still {
		panic("c09 set-up: bridge call not refunded at its timeout")
	}
	nonces["eth"]++
	e.late = nonces["eth"]
	scen.Observe(w, ctx, "eth", os["eth"], &cctypes.MsgBridgeCallResultClaim{ChainName: "eth", EventNonce: e.late, BlockHeight: oc.Timeout + 2, Nonce: oc.Nonce, TxOrigin: scen.ExtAddr("eth", "origin"), Success: true})
	if _, parked := k.GetPendingExecuteClaim(ctx, e.late); !parked {
		panic("c09 set-up: late result not parked")
	}
	next, r := w.NextBlock(ctx, 5*time.Second)
	if r.Err != nil || r.Panic != nil {
		panic("block")
	}
	e.ctx = next
	return e
}

type call struct {
	to    common.Address
	data  []byte
	value *big.Int
}

type method struct {
	name string
	prep func(e *env, self common.Address) []call // calls the program makes before the target (all must succeed)
	tgt  func(e *env, self common.Address) call
	// outside: set-up performed by other accounts once the program's address is known
	outside func(e *env, ctx sdk.Context, self common.Address)
}

// failing targets: "fails" = the target fails even with ample gas after its native action has already written (error
// return); "aborts" = it fails by a panic inside the native action (the whole transaction is aborted unless something
// recovers on the way up, in which case it is an ordinary failed call)
var failing = map[string]string{
	"transferFromShares(more-than-owned)":   "fails",
	"bridgeCall(erc20,second-pull-refused)": "fails",
	"executeClaim(result-of-refunded-call)": "aborts",
}

func st(name string, args ...interface{}) call {
	d, err := fxstakingtypes.GetABI().Pack(name, args...)
	if err != nil {
		panic(err)
	}
	return call{to: fxstakingtypes.GetAddress(), data: d}
}

func cc(value *big.Int, name string, args ...interface{}) call {
	d, err := cctypes.GetABI().Pack(name, args...)
	if err != nil {
		panic(err)
	}
	return call{to: cctypes.GetAddress(), data: d, value: value}
}

// approve: the caller lets the precompile pull n units of the bridged ERC-20
func approve(n int64) func(e *env, self common.Address) []call {
	return func(e *env, _ common.Address) []call {
		d, err := contract.GetFIP20().ABI.Pack("approve", cctypes.GetAddress(), big.NewInt(n))
		if err != nil {
			panic(err)
		}
		return []call{{to: e.usdt.ERC20, data: d}}
	}
}

// fundERC20: the user hands the program ten units of the bridged ERC-20
func fundERC20(e *env, ctx sdk.Context, self common.Address) {
	if self == e.user.Hex() {
		return
	}
	if r := e.w.CallABI(ctx, e.user, e.usdt.ERC20, contract.GetFIP20().ABI, nil, 300000, "transfer", self, big.NewInt(10)); !r.Success() {
		panic("fund program: " + r.String())
	}
}

// pairMethods: the methods of the pair enumeration - every ordinary target plus two whose caller is its own
// counterpart (owner = spender = the calling contract), so that a grant made in a dropped frame and a move that
// needs that grant meet in one transaction.
func pairMethods() []method {
	var out []method
	for _, m := range methods() {
		if failing[m.name] == "" {
			out = append(out, m)
		}
	}
	delegate := func(e *env, _ common.Address) []call { return []call{st("delegateV2", e.val.String(), e18(10))} }
	none := func(*env, common.Address) []call { return nil }
	out = append(out,
		method{"approveShares(to-itself)", none, func(e *env, self common.Address) call { return st("approveShares", e.val.String(), self, e18(5)) }, nil},
		method{"transferFromShares(from-itself)", delegate, func(e *env, self common.Address) call {
			return st("transferFromShares", e.val.String(), self, e.m.Hex(), e18(5))
		}, nil},
	)
	return out
}

// buildPair deploys: a library L = [a's preparation ; a's target (if withA) ; REVERT] and a program
// P = [b's preparation ; DELEGATECALL L (result recorded) ; b's target (result ignored) ; marker]. L runs in P's context,
// so the precompile sees P as the caller of both targets; the frame that held a is reverted and P carries on.
func buildPair(e *env, ctx sdk.Context, a, b method, withA bool) (entry common.Address) {
	w := e.w
	deployer := e.user
	lib := crypto_CreateAddress(deployer.Hex(), w.App.EvmKeeper.GetNonce(ctx, deployer.Hex()))
	self := crypto_CreateAddress(deployer.Hex(), w.App.EvmKeeper.GetNonce(ctx, deployer.Hex())+1)
	var lp evmasm.Program
	for _, c := range a.prep(e, self) {
		lp.Actions = append(lp.Actions, act(c, evmasm.Require, 0))
	}
	if withA {
		lp.Actions = append(lp.Actions, act(a.tgt(e, self), evmasm.Require, 1_500_000)) // capped: a failing precompile call burns what it was given
	}
	lp.Revert = true
	if got := w.Deploy(ctx, deployer, lp.InitCode()); got != lib {
		panic("c09: library address prediction failed")
	}
	var pp evmasm.Program
	for _, c := range b.prep(e, self) {
		pp.Actions = append(pp.Actions, act(c, evmasm.Require, 0))
	}
	pp.Actions = append(pp.Actions, evmasm.Action{Call: &evmasm.CallAction{Kind: evmasm.DELEGATECALL, To: lib, After: evmasm.Record, RecordSlot: 3, Gas: 6_000_000}})
	bt := act(b.tgt(e, self), evmasm.Record, 1_500_000)
	pp.Actions = append(pp.Actions, bt, evmasm.Mark(9, 1))
	if got := w.Deploy(ctx, deployer, pp.InitCode()); got != self {
		panic("c09: program address prediction failed")
	}
	scen.Fund(w, ctx, sdk.AccAddress(self.Bytes()), sdk.NewCoins(world.FXCoin(1000)))
	for _, m := range []method{a, b} {
		if m.outside != nil {
			m.outside(e, ctx, self)
		}
	}
	return self
}

// pairs: for every ordered pair (a, b) the transaction "a in a frame that is reverted, then b" must leave the native
// stores exactly as the transaction "nothing in the reverted frame, then b" does.
func pairs(shard, shards int, deadline time.Time) *explore.Result {
	start := time.Now()
	res := &explore.Result{Spec: "c09/pairs", Outcomes: map[string]int{}, Counters: map[string]int{}, ViolationCounts: map[string]int{}, Exhaustive: true, DeterminismOK: true, Extra: map[string]float64{}}
	e := setup()
	w := e.w
	ms := pairMethods()
	n := 0
	for _, a := range ms {
		for _, b := range ms {
			n++
			if n%shards != shard {
				continue
			}
			name := "dropped " + a.name + " then " + b.name
			run := func(withA bool) (map[string][]byte, world.EthResult, uint64, uint64) {
				ctx := world.Branch(e.ctx)
				entry := buildPair(e, ctx, a, b, withA)
				r := w.EthTx(ctx, e.user, &entry, nil, nil, 20_000_000)
				return native(w.Dump(ctx)), r, w.Slot(ctx, entry, 3).Big().Uint64(), w.Slot(ctx, entry, 2).Big().Uint64()
			}
			with, rw, droppedOK, bWith := run(true)
			without, ro, _, bWithout := run(false)
			res.Transitions += 2
			res.Extra["evaluations"] += 2
			if !rw.Success() || !ro.Success() {
				res.Violations = append(res.Violations, explore.Violation{Oracle: "harness", Signature: "C09/harness/pair-transaction-failed/" + name, Detail: fmt.Sprintf("%s / %s", rw, ro), Path: []string{name}})
				continue
			}
			res.Outcomes[fmt.Sprintf("pair/second-call-succeeds=%v", bWith == 1)]++
			if droppedOK != 0 {
				res.Violations = append(res.Violations, explore.Violation{Oracle: "harness", Signature: "C09/harness/dropped-frame-reported-success/" + name, Detail: "the reverting library call returned success", Path: []string{name}})
				continue
			}
			if d := world.DiffDumps(without, with); len(d) > 0 || bWith != bWithout {
				sig := fmt.Sprintf("C09/dropped-call-influences-a-later-call/%s/%s", a.name, b.name)
				res.ViolationCounts[sig]++
				res.Violations = append(res.Violations, explore.Violation{Oracle: "dropped-frame-leaves-no-trace-for-later-calls", Signature: sig,
					Detail: fmt.Sprintf("%s: with %s executed in a frame that was reverted, the later %s answered %d (without it: %d) and the native stores differ: %v", name, a.name, b.name, bWith, bWithout, d[:min(4, len(d))]), Path: []string{name}})
			}
			res.Counters["pairs"]++
			if len(res.Samples) < 3 {
				res.Samples = append(res.Samples, []string{name, fmt.Sprintf("second call answered %d in both transactions", bWith)})
			}
		}
	}
	res.States = res.Counters["pairs"]
	res.Extra["distinct_nontrivial"] = float64(res.Counters["pairs"])
	res.WallS = time.Since(start).Seconds()
	return res
}

func methods() []method {
	var target [32]byte
	copy(target[:], "eth")
	dest := scen.ExtAddr("eth", "dest")
	zero := common.Address{}
	delegate := func(e *env, _ common.Address) []call { return []call{st("delegateV2", e.val.String(), e18(10))} }
	send := func(e *env, _ common.Address) []call {
		return []call{cc(big.NewInt(3), "crossChain", zero, dest, big.NewInt(2), big.NewInt(1), target, "")}
	}
	none := func(*env, common.Address) []call { return nil }
	return []method{
		{"delegateV2", none, func(e *env, _ common.Address) call { return st("delegateV2", e.val.String(), e18(10)) }, nil},
		{"withdraw", delegate, func(e *env, _ common.Address) call { return st("withdraw", e.val.String()) }, nil},
		{"undelegateV2", delegate, func(e *env, _ common.Address) call { return st("undelegateV2", e.val.String(), e18(5)) }, nil},
		{"redelegateV2", delegate, func(e *env, _ common.Address) call {
			return st("redelegateV2", e.val.String(), e.w.Vals[1].ValAddr().String(), e18(5))
		}, nil},
		{"approveShares", none, func(e *env, _ common.Address) call { return st("approveShares", e.val.String(), e.m.Hex(), e18(5)) }, nil},
		{"transferShares", delegate, func(e *env, _ common.Address) call { return st("transferShares", e.val.String(), e.m.Hex(), e18(5)) }, nil},
		{"transferFromShares", none, func(e *env, _ common.Address) call {
			return st("transferFromShares", e.val.String(), e.owner.Hex(), e.m.Hex(), e18(5))
		}, func(e *env, ctx sdk.Context, self common.Address) {
			if r := e.w.CallABI(ctx, e.owner, fxstakingtypes.GetAddress(), fxstakingtypes.GetABI(), nil, 3_000_000, "approveShares", e.val.String(), self, e18(50)); !r.Success() {
				panic(r.String())
			}
		}},
		{"crossChain", none, func(e *env, _ common.Address) call {
			return cc(big.NewInt(3), "crossChain", zero, dest, big.NewInt(2), big.NewInt(1), target, "")
		}, nil},
		{"cancelSendToExternal", send, func(e *env, _ common.Address) call { return cc(nil, "cancelSendToExternal", "eth", big.NewInt(1)) }, nil},
		{"increaseBridgeFee", send, func(e *env, _ common.Address) call {
			return cc(big.NewInt(1), "increaseBridgeFee", "eth", big.NewInt(1), zero, big.NewInt(1))
		}, nil},
		{"bridgeCall", none, func(e *env, self common.Address) call {
			return cc(big.NewInt(2), "bridgeCall", "eth", self, []common.Address{}, []*big.Int{}, common.HexToAddress(scen.ExtAddr("eth", "callee")), []byte{1}, big.NewInt(0), []byte{})
		}, nil},
		{"executeClaim", none, func(e *env, _ common.Address) call {
			return cc(nil, "executeClaim", "eth", new(big.Int).SetUint64(e.claim))
		}, nil},
		// the same methods with a bridged ERC-20 instead of the native coin: no value transfer precedes the native action
		// in the calling frame, the token is pulled with transferFrom
		{"crossChain(erc20)", approve(3), func(e *env, _ common.Address) call {
			return cc(nil, "crossChain", e.usdt.ERC20, dest, big.NewInt(2), big.NewInt(1), target, "")
		}, fundERC20},
		{"bridgeCall(erc20)", approve(2), func(e *env, self common.Address) call {
			return cc(nil, "bridgeCall", "eth", self, []common.Address{e.usdt.ERC20}, []*big.Int{big.NewInt(2)}, common.HexToAddress(scen.ExtAddr("eth", "callee")), []byte{1}, big.NewInt(0), []byte{})
		}, fundERC20},
		// ---- targets that fail after their native action has written something
		// the allowance (500) covers the move, the owner's delegation (100) does not: the allowance is spent first
		{"transferFromShares(more-than-owned)", none, func(e *env, _ common.Address) call {
			return st("transferFromShares", e.val.String(), e.owner.Hex(), e.m.Hex(), e18(200))
		}, func(e *env, ctx sdk.Context, self common.Address) {
			if r := e.w.CallABI(ctx, e.owner, fxstakingtypes.GetAddress(), fxstakingtypes.GetABI(), nil, 3_000_000, "approveShares", e.val.String(), self, e18(500)); !r.Success() {
				panic(r.String())
			}
		}},
		// two conversions of the same token; the caller's balance (program: 10, user: 50) covers only the first
		{"bridgeCall(erc20,second-pull-refused)", none, func(e *env, self common.Address) call {
			amt := big.NewInt(6)
			if self == e.user.Hex() {
				amt = big.NewInt(30)
			}
			return cc(nil, "bridgeCall", "eth", self, []common.Address{e.usdt.ERC20, e.usdt.ERC20}, []*big.Int{amt, amt}, common.HexToAddress(scen.ExtAddr("eth", "callee")), []byte{1}, big.NewInt(0), []byte{})
		}, fundERC20},
		// the parked claim is consumed, then the keeper does not find the bridge call it settles
		{"executeClaim(result-of-refunded-call)", none, func(e *env, _ common.Address) call {
			return cc(nil, "executeClaim", "eth", new(big.Int).SetUint64(e.late))
		}, nil},
	}
}

var shapes = []string{"direct", "kept", "outer-revert", "caught-failure", "caught-with-ample-gas", "second-call-fails", "inner-frame-reverts", "inner-frame-kept"}

// expectation per shape: does the target's native effect survive a successful transaction; can the tx succeed at all
var targetKeptOK = map[string]bool{"direct": true, "kept": true, "caught-with-ample-gas": true, "inner-frame-kept": true}
var txCanSucceedOK = map[string]bool{"direct": true, "kept": true, "caught-failure": true, "caught-with-ample-gas": true, "inner-frame-reverts": true, "inner-frame-kept": true}

// a failing target: its frame is never kept; the transaction survives only where the failure is caught
var txCanSucceedFailing = map[string]bool{"caught-failure": true, "caught-with-ample-gas": true, "inner-frame-reverts": true}

func targetKept(m method, shape string) bool { return failing[m.name] == "" && targetKeptOK[shape] }

func txCanSucceed(m method, shape string) bool {
	if failing[m.name] != "" {
		return txCanSucceedFailing[shape]
	}
	return txCanSucceedOK[shape]
}

func act(c call, after evmasm.After, gas uint64) evmasm.Action {
	return evmasm.Action{Call: &evmasm.CallAction{Kind: evmasm.CALL, To: c.to, Data: c.data, Value: c.value, After: after, RecordSlot: 2, Gas: gas}}
}

// build deploys the program(s) of a shape on ctx and returns the entry address plus the address that calls the precompile.
// withTarget=false builds the same program without the target call (the reference for shapes that must drop it).
func build(e *env, ctx sdk.Context, m method, shape string, withTarget bool) (entry common.Address, self common.Address) {
	w := e.w
	// the address the precompile will see as caller is the (inner) program; it is fixed by the deployer nonce,
	// so programs are deployed in a fixed order: first a throw-away probe to learn the address
	deployer := e.user
	mk := func(p evmasm.Program) common.Address {
		a := w.Deploy(ctx, deployer, p.InitCode())
		scen.Fund(w, ctx, sdk.AccAddress(a.Bytes()), sdk.NewCoins(world.FXCoin(1000)))
		return a
	}
	nonce := w.App.EvmKeeper.GetNonce(ctx, deployer.Hex())
	_ = nonce
	body := func(self common.Address, tail evmasm.Program) evmasm.Program {
		var p evmasm.Program
		for _, c := range m.prep(e, self) {
			p.Actions = append(p.Actions, act(c, evmasm.Require, 0))
		}
		p.Actions = append(p.Actions, tail.Actions...)
		p.Revert = tail.Revert
		return p
	}
	// self address prediction: CREATE address of the next deployment
	predict := func() common.Address {
		return crypto_CreateAddress(deployer.Hex(), w.App.EvmKeeper.GetNonce(ctx, deployer.Hex()))
	}
	tgt := func(self common.Address, after evmasm.After, gas uint64) []evmasm.Action {
		if !withTarget {
			return nil
		}
		return []evmasm.Action{act(m.tgt(e, self), after, gas)}
	}
	switch shape {
	case "kept":
		self = predict()
		entry = mk(body(self, evmasm.Program{Actions: append(tgt(self, evmasm.Require, 0), evmasm.Mark(9, 1))}))
	case "outer-revert":
		self = predict()
		entry = mk(body(self, evmasm.Program{Actions: append(tgt(self, evmasm.Require, 0), evmasm.Mark(9, 1)), Revert: true}))
	case "caught-with-ample-gas":
		self = predict()
		// the target gets all the gas there is; whatever it answers is swallowed and execution continues
		entry = mk(body(self, evmasm.Program{Actions: append(tgt(self, evmasm.Ignore, 0), evmasm.Mark(9, 1))}))
	case "caught-failure":
		self = predict()
		// the target is given far too little gas: it fails, the failure is swallowed, execution continues
		entry = mk(body(self, evmasm.Program{Actions: append(tgt(self, evmasm.Ignore, 3000), evmasm.Mark(9, 1))}))
	case "second-call-fails":
		self = predict()
		bad := evmasm.Action{Call: &evmasm.CallAction{Kind: evmasm.CALL, To: fxstakingtypes.GetAddress(), Data: []byte{0xde, 0xad, 0xbe, 0xef, 0}, After: evmasm.Require}}
		entry = mk(body(self, evmasm.Program{Actions: append(tgt(self, evmasm.Require, 0), bad)}))
	case "inner-frame-reverts":
		self = predict()
		inner := mk(body(self, evmasm.Program{Actions: tgt(self, evmasm.Require, 0), Revert: true}))
		entry = mk(evmasm.Program{Actions: []evmasm.Action{{Call: &evmasm.CallAction{Kind: evmasm.CALL, To: inner, After: evmasm.Record, RecordSlot: 3}}, evmasm.Mark(9, 1)}})
	case "inner-frame-kept":
		self = predict()
		inner := mk(body(self, evmasm.Program{Actions: tgt(self, evmasm.Require, 0)}))
		entry = mk(evmasm.Program{Actions: []evmasm.Action{{Call: &evmasm.CallAction{Kind: evmasm.CALL, To: inner, After: evmasm.Require}}, evmasm.Mark(9, 1)}})
	}
	if m.outside != nil {
		m.outside(e, ctx, self)
	}
	return entry, self
}

func native(d map[string][]byte) map[string][]byte {
	out := map[string][]byte{}
	for k, v := range d {
		if strings.HasPrefix(k, "evm/") || strings.HasPrefix(k, "acc/") || strings.HasPrefix(k, "feemarket/") {
			continue
		}
		out[k] = v
	}
	return out
}

func run(thorough bool) func(shard, shards int, deadline time.Time) *explore.Result {
	return func(shard, shards int, deadline time.Time) *explore.Result {
		start := time.Now()
		res := &explore.Result{Spec: "c09", Outcomes: map[string]int{}, Counters: map[string]int{}, ViolationCounts: map[string]int{}, Exhaustive: true, DeterminismOK: true, Extra: map[string]float64{}}
		e := setup()
		w := e.w
		viol := func(sig, oracle, detail string, path ...string) {
			res.ViolationCounts[sig]++
			for _, v := range res.Violations {
				if v.Signature == sig {
					return
				}
			}
			res.Violations = append(res.Violations, explore.Violation{Oracle: oracle, Signature: sig, Detail: detail, Path: path})
		}
		caseNo := 0
		distinct := map[string]bool{}
		for _, m := range methods() {
			for _, shape := range shapes {
				caseNo++
				if caseNo%shards != shard {
					continue
				}
				// ---- the scenario state: programs deployed, nothing executed yet
				base := world.Branch(e.ctx)
				var entry, self common.Address
				var data []byte
				var value *big.Int
				if shape == "direct" {
					if len(m.prep(e, e.user.Hex())) > 0 {
						// the user performs the preparation in separate transactions
						for _, c := range m.prep(e, e.user.Hex()) {
							if r := w.EthTx(base, e.user, &c.to, c.data, c.value, 3_000_000); !r.Success() {
								panic(m.name + " prep: " + r.String())
							}
						}
					}
					if m.outside != nil {
						m.outside(e, base, e.user.Hex())
					}
					c := m.tgt(e, e.user.Hex())
					entry, data, value = c.to, c.data, c.value
					self = e.user.Hex()
				} else {
					entry, self = build(e, base, m, shape, true)
				}
				_ = self
				pre := w.Dump(base)
				preNative := native(pre)
				name := m.name + "/" + shape
				// ---- reference run with ample gas, traced
				ample := uint64(5_000_000)
				tr := logger.NewStructLogger(&logger.Config{DisableStorage: true, DisableStack: true, EnableMemory: false})
				tctx := world.Branch(base)
				msg := &core.Message{From: e.user.Hex(), To: &entry, Nonce: w.App.EvmKeeper.GetNonce(tctx, e.user.Hex()), Value: orZero(value), GasLimit: ample, GasPrice: big.NewInt(0), GasFeeCap: big.NewInt(0), GasTipCap: big.NewInt(0), Data: data}
				tresp, terr := func() (resp *evmtypes.MsgEthereumTxResponse, err error) {
					defer func() {
						if r := recover(); r != nil { // an aborting target: the trace ends where the abort happened
							resp, err = &evmtypes.MsgEthereumTxResponse{GasUsed: 300_000}, nil
						}
					}()
					return w.App.EvmKeeper.ApplyMessage(tctx, msg, tr, true)
				}()
				if terr != nil {
					viol("C09/harness/trace-failed/"+name, "harness", terr.Error(), name)
					continue
				}
				thr := map[uint64]bool{}
				intrinsic := ample - tresp.GasUsed // not exact; thresholds below are taken from the trace
				_ = intrinsic
				logs := tr.StructLogs()
				for _, l := range logs {
					if l.Gas > ample {
						continue // a step of a nested keeper-level EVM run (its own gas budget): not a point of this transaction's gas
					}
					used := ample - l.Gas
					thr[used] = true
					thr[used+l.GasCost] = true
					thr[used+l.GasCost-1] = true
				}
				var ts []uint64
				for t := range thr {
					ts = append(ts, t)
				}
				sort.Slice(ts, func(i, j int) bool { return ts[i] < ts[j] })
				// grid inside gaps (native code spends gas without opcode boundaries)
				var all []uint64
				prev := uint64(0)
				for _, t := range ts {
					for g := prev + 2000; g < t; g += 2000 {
						all = append(all, g)
					}
					all = append(all, t)
					prev = t
				}
				all = append(all, 20000, 21000, tresp.GasUsed-1, tresp.GasUsed, tresp.GasUsed+1, tresp.GasUsed+2000, ample)
				sort.Slice(all, func(i, j int) bool { return all[i] < all[j] })
				// reference outcome at ample gas through the real transaction path
				rctx := world.Branch(base)
				rr := w.EthTx(rctx, e.user, &entry, data, value, ample)
				refDump := w.Dump(rctx)
				refOK := rr.Success()
				res.Outcomes[fmt.Sprintf("%s/ample-success=%v", shape, refOK)]++
				aborts := failing[m.name] == "aborts"
				if aborts && !rr.Kept() {
					// the abort travelled all the way up: nothing of the transaction is kept (checked for every gas limit below)
					res.Counters["aborted-transactions"]++
				} else if aborts && shape != "caught-failure" {
					// something recovered the abort: from here on it is an ordinary failed call and is judged like one
					res.Counters["recovered-aborts"]++
				}
				if !(aborts && shape != "caught-failure") && refOK != txCanSucceed(m, shape) {
					viol("C09/harness/unexpected-reference-outcome/"+name, "harness", fmt.Sprintf("%s with ample gas: %s", name, rr), name)
					continue
				}
				refNative := native(refDump)
				changed := len(world.DiffDumps(preNative, refNative)) > 0
				// (c) shapes that drop the target: the native stores equal those of the same program without the target
				if refOK && !targetKept(m, shape) && shape != "direct" {
					alt := world.Branch(e.ctx)
					aentry, _ := build(e, alt, m, shape, false)
					ar := w.EthTx(alt, e.user, &aentry, nil, nil, ample)
					if !ar.Success() {
						viol("C09/harness/reference-without-target-failed/"+name, "harness", ar.String(), name)
					} else if d := world.DiffDumps(native(w.Dump(alt)), refNative); len(d) > 0 {
						viol(fmt.Sprintf("C09/effects-of-dropped-frame-survive/%s/%s", shape, m.name), "dropped-frame-leaves-no-native-effect", fmt.Sprintf("%s: the transaction succeeded, the frame holding %s was reverted/caught, yet the native stores differ from the run without that call: %v", name, m.name, d[:min(5, len(d))]), name)
					}
				}
				if refOK && targetKept(m, shape) && !changed {
					viol("C09/harness/kept-call-has-no-native-effect/"+name, "harness", "vacuous case", name)
				}
				if !refOK && changed {
					viol(fmt.Sprintf("C09/native-effects-survive-failed-transaction/%s/%s", shape, m.name), "failed-transaction-leaves-no-native-effect", fmt.Sprintf("%s failed with ample gas but changed: %v", name, world.DiffDumps(preNative, refNative)[:1]), name)
				}
				// ---- every gas threshold
				okCount, failCount, rejCount := 0, 0, 0
				seen := map[uint64]bool{}
				for _, g := range all {
					if seen[g] || g == 0 {
						continue
					}
					seen[g] = true
					gctx := world.Branch(base)
					r := w.EthTx(gctx, e.user, &entry, data, value, g)
					res.Transitions++
					res.Extra["evaluations"]++
					d := w.Dump(gctx)
					switch {
					case !r.Kept():
						rejCount++
						if diff := world.DiffDumps(pre, d); len(diff) > 0 {
							viol(fmt.Sprintf("C09/rejected-transaction-changed-state/%s", m.name), "rejected-transaction-leaves-nothing", fmt.Sprintf("%s gas=%d: %v", name, g, diff[:1]), name, fmt.Sprint("gas=", g))
						}
					case !r.Success():
						failCount++
						if diff := world.DiffDumps(preNative, native(d)); len(diff) > 0 {
							viol(fmt.Sprintf("C09/partial-native-effects-after-failure/%s/%s", shape, m.name), "failed-transaction-leaves-no-native-effect", fmt.Sprintf("%s with gas limit %d failed (%s) but native stores changed: %v", name, g, r.Resp.VmError, diff[:min(4, len(diff))]), name, fmt.Sprint("gas=", g))
						}
						if len(r.Resp.Logs) != 0 {
							viol(fmt.Sprintf("C09/logs-after-failure/%s/%s", shape, m.name), "failed-transaction-leaves-no-log", fmt.Sprintf("%s gas=%d: %d logs", name, g, len(r.Resp.Logs)), name)
						}
					default:
						okCount++
						if !refOK {
							viol(fmt.Sprintf("C09/succeeds-with-less-gas-only/%s/%s", shape, m.name), "outcome-monotone-in-gas", fmt.Sprintf("%s gas=%d succeeded, ample gas fails", name, g), name)
							continue
						}
						if diff := world.DiffDumps(refNative, native(d)); len(diff) > 0 {
							viol(fmt.Sprintf("C09/successful-run-differs-from-reference/%s/%s", shape, m.name), "success-commits-everything", fmt.Sprintf("%s with gas limit %d succeeded but native stores differ from the ample-gas run: %v", name, g, diff[:min(4, len(diff))]), name, fmt.Sprint("gas=", g))
						}
						if len(r.Resp.Logs) != len(rr.Resp.Logs) {
							viol(fmt.Sprintf("C09/logs-differ-from-reference/%s/%s", shape, m.name), "success-commits-everything", fmt.Sprintf("%s gas=%d: %d logs, reference %d", name, g, len(r.Resp.Logs), len(rr.Resp.Logs)), name)
						}
					}
				}
				distinct[fmt.Sprintf("%s ok=%d fail=%d rejected=%d", name, okCount, failCount, rejCount)] = true
				res.Counters["gas-limits-tried"] += len(seen)
				res.Counters["failed-after-partial-execution"] += failCount
				if len(res.Samples) < 5 {
					res.Samples = append(res.Samples, []string{name, fmt.Sprintf("%d opcode steps traced, %d gas limits tried: %d rejected, %d failed mid-way, %d succeeded", len(logs), len(seen), rejCount, failCount, okCount)})
				}
			}
		}
		res.States = len(distinct)
		res.Extra["distinct_nontrivial"] = float64(len(distinct))
		res.WallS = time.Since(start).Seconds()
		return res
	}
}

func orZero(v *big.Int) *big.Int {
	if v == nil {
		return big.NewInt(0)
	}
	return v
}

func min(a, b int) int {
	if a < b {
		return a
	}
	return b
}

func init() {
	registry.Register(&registry.Check{
		ID:          "C09",
		Level:       "fault_enumeration",
		Rule:        "12 state-changing precompile methods x 7 call-tree shapes (direct EOA call; wrapper; wrapper that reverts afterwards; wrapper that catches a failing call and continues; second call fails; inner frame reverts under a surviving outer frame; inner frame kept), each traced once with ample gas and then re-run at every gas threshold of the trace (before/after every opcode, a 2000-gas grid inside native sections, the intrinsic-gas boundary); oracle on the full store dump: rejected tx changes nothing, failed tx leaves no native store change and no log, successful tx equals the ample-gas reference, and a reverted/caught frame leaves the same native stores as the program without that call. distinct_nontrivial = distinct (method, shape, outcome-count) classes. Pair job: for every ordered pair (a, b) of methods, a transaction that executes a inside a delegate-called frame which reverts and then calls b from the same contract must leave the native stores as the transaction without a does",
		Assumptions: []string{"programs are hand-assembled straight-line contracts; precompile calls use FX as the bridged token (native value path)", "fee/nonce/receipt keys (evm, acc, feemarket stores) are not effects of the call"},
		Jobs: func(tier string) []registry.Job {
			return []registry.Job{
				{Name: "methods-x-shapes-x-gas", Custom: run(tier == "thorough"), Shards: 12},
				{Name: "dropped-call-then-second-call", Custom: pairs, Shards: 4},
			}
		},
	})
}
