// Package vote is the oracle-voting scenario shared by C01 (ordering / exactly-once),
// C02 (quorum) and the schedule half of C03.
package vote

import (
	"bytes"
	"encoding/hex"
	"fmt"
	"math/big"
	"sort"
	"strings"
	"time"

	sdkmath "cosmossdk.io/math"
	sdk "github.com/cosmos/cosmos-sdk/types"

	cctypes "github.com/functionx/fx-core/v8/x/crosschain/types"

	"fxmc/explore"
	"fxmc/scen"
	"fxmc/world"
)

// Spec configures the scenario.
type Spec struct {
	Prop      string // "C01" or "C02" (prefix of violation signatures)
	Chain     string
	Stakes    []int64  // whole FX per bonded oracle (index 0..)
	Extra     bool     // one more approved-but-unbonded oracle
	Variants  []string // subset of "A","B"
	WrongN    bool     // offer the same-nonce / skip-nonce attempts
	Execute   bool     // offer executeClaim
	Members   bool     // offer bond / add-delegate / removal / unbond
	Blocks    bool     // offer block boundaries (slashing with window 2)
	MaxNonce  uint64   // highest event nonce offered
	Threshold int64    // if >0 lower the delegate threshold to this many FX
	// Rebond: narrowed alphabet around one oracle's full life cycle (vote, governance removal, 22 days, unbond,
	// re-approval, re-bond, vote again) so that histories of that length come within the depth bound
	Rebond bool
	// Restart: offer "the chain is restarted from its exported genesis" - the module's state is exported, its store
	// emptied and the export imported again (real ExportGenesis / InitGenesis of the crosschain keeper)
	Restart bool
	// Prefill: the set-up has this many further events voted in by every bonded oracle and executed, so that the search
	// starts on a chain whose event history is longer than the module keeps (attestations are pruned from event 101 on)
	Prefill uint64

	w      *world.World
	os     []scen.Oracle
	token  string
	claimA map[uint64][]byte // nonce -> claim hash of variant A
}

func (s *Spec) Name() string {
	return fmt.Sprintf("vote/%s/%s/stakes=%v/extra=%v/var=%s/wrong=%v/exec=%v/mem=%v/blk=%v/max=%d/rebond=%v/restart=%v", s.Prop, s.Chain, s.Stakes, s.Extra, strings.Join(s.Variants, ""), s.WrongN, s.Execute, s.Members, s.Blocks, s.MaxNonce, s.Rebond, s.Restart) + fmt.Sprintf("/prefill=%d", s.Prefill)
}

// Model holds the monitor's history variables.
type Model struct {
	Obs    map[uint64]string // nonce -> observed variant
	Events map[uint64]int    // nonce -> number of contract_event events seen
	Exec   map[uint64]int    // nonce -> successful executions
	Base   string            // receiver's FX balance at the root
	// Cast: "nonce/claim hash" -> oracles whose accepted vote was for exactly that claim. Not part of Canon: for every
	// attestation still in the store the invariant ties it to the store's own vote list, and entries of deleted
	// attestations are never looked at again.
	Cast map[string][]string
	// Last: oracle index -> the event nonce of its latest accepted vote, for as long as its oracle record lives
	// (an oracle that unbonds and bonds again is a new record and starts over). An oracle votes for every nonce once,
	// in order: neither the same nonce twice nor one left out.
	Last map[int]uint64
}

func (m *Model) Clone() explore.Model {
	c := &Model{Obs: map[uint64]string{}, Events: map[uint64]int{}, Exec: map[uint64]int{}, Base: m.Base, Cast: map[string][]string{}, Last: map[int]uint64{}}
	for k, v := range m.Last {
		c.Last[k] = v
	}
	for k, v := range m.Cast {
		c.Cast[k] = v // slices are only ever replaced by appended copies
	}
	for k, v := range m.Obs {
		c.Obs[k] = v
	}
	for k, v := range m.Events {
		c.Events[k] = v
	}
	for k, v := range m.Exec {
		c.Exec[k] = v
	}
	return c
}

func (m *Model) Canon() []byte {
	var b bytes.Buffer
	var ks []uint64
	for k := range m.Obs {
		ks = append(ks, k)
	}
	sort.Slice(ks, func(i, j int) bool { return ks[i] < ks[j] })
	for _, k := range ks {
		fmt.Fprintf(&b, "o%d=%s;e%d;x%d|", k, m.Obs[k], m.Events[k], m.Exec[k])
	}
	var os []int
	for k := range m.Last {
		os = append(os, k)
	}
	sort.Ints(os)
	for _, k := range os {
		fmt.Fprintf(&b, "l%d=%d|", k, m.Last[k])
	}
	return b.Bytes()
}

func amountOf(variant string) int64 {
	if variant == "A" {
		return 10
	}
	return 20
}

func (s *Spec) claim(n uint64, variant string) cctypes.ExternalClaim {
	if n == 1 {
		// event 1 is the set-up event (the FX token registration every bonded oracle voted for): an oracle that
		// starts over after re-bonding meets it again and can only repeat that very claim
		return scen.BridgeTokenClaim(s.Chain, 1, 100, s.token, "Function X", "FX", 18, "")
	}
	return scen.SendToFxClaim(s.Chain, n, 100+n, s.token, amountOf(variant), scen.ExtAddr(s.Chain, "depositor"), s.w.A("u1").Acc(), "", "")
}

func (s *Spec) Init() *explore.State {
	names := []string{}
	for i := range s.Stakes {
		names = append(names, fmt.Sprintf("o%d", i+1))
	}
	stakes := append([]int64(nil), s.Stakes...)
	if s.Extra {
		names = append(names, fmt.Sprintf("o%d", len(s.Stakes)+1))
		stakes = append(stakes, 0)
	}
	w := world.New(world.Config{Validators: 2, Actors: []string{"bank", "u1", "u2"}})
	s.w = w
	ctx := w.Root
	if s.Threshold > 0 {
		scen.SetParams(w, ctx, s.Chain, func(p *cctypes.Params) {
			p.DelegateThreshold = cctypes.NewDelegateAmount(world.FX(s.Threshold))
			p.DelegateMultiple = 100
		})
	}
	// fund the unbonded extra oracle generously (SetupOracles funds 3x stake)
	s.os = scen.SetupOracles(w, ctx, s.Chain, names, stakes)
	if s.Extra {
		scen.Fund(w, ctx, s.os[len(s.os)-1].Acct.Acc(), sdk.NewCoins(world.FXCoin(s.Stakes[0]*3)))
	}
	scen.SetParams(w, ctx, s.Chain, func(p *cctypes.Params) { p.SignedWindow = 2 })
	s.token = scen.ExtAddr(s.Chain, s.Chain+"-fx-token")
	bonded := s.os[:len(s.Stakes)]
	scen.Observe(w, ctx, s.Chain, bonded, scen.BridgeTokenClaim(s.Chain, 1, 100, s.token, "Function X", "FX", 18, ""))
	// oracle 1 confirms the genesis oracle set, the others do not (so block ops can slash them)
	k := scen.Keeper(w, s.Chain)
	// the first oracle set is created by the first end-blocker; nothing to confirm yet.
	_ = k
	base := w.App.BankKeeper.GetBalance(ctx, w.A("u1").Acc(), "FX").Amount.String()
	last := map[int]uint64{}
	for i := range bonded {
		last[i] = 1 // every bonded oracle voted for the set-up event
	}
	m := &Model{Obs: map[uint64]string{}, Events: map[uint64]int{}, Exec: map[uint64]int{}, Base: base, Cast: map[string][]string{}, Last: last}
	for n := uint64(2); n <= s.Prefill+1; n++ {
		c := s.claim(n, "A")
		scen.Observe(w, ctx, s.Chain, bonded, c)
		if r := w.CallABI(ctx, w.A("u2"), cctypes.GetAddress(), cctypes.GetABI(), nil, 500000, "executeClaim", s.Chain, new(big.Int).SetUint64(n)); !r.Success() {
			panic(fmt.Sprintf("vote: prefill: executeClaim(%d): %s", n, r))
		}
		m.Obs[n], m.Events[n], m.Exec[n] = "A", 1, 1
		for i, o := range bonded {
			ck := fmt.Sprintf("%d/%x", n, c.ClaimHash())
			m.Cast[ck] = append(append([]string(nil), m.Cast[ck]...), o.Acct.Bech())
			last[i] = n
		}
	}
	return &explore.State{W: w, Ctx: ctx, Model: m}
}

func (s *Spec) sig(x string) string { return s.Prop + "/" + x }

// tallyCheck recomputes the quorum of an observed attestation from the raw records (C02).
func (s *Spec) tallyCheck(st *explore.State, n uint64, hash []byte) {
	k := scen.Keeper(s.w, s.Chain)
	ctx := st.Ctx
	att := k.GetAttestation(ctx, n, hash)
	if att == nil {
		st.Violate("observed-attestation-exists", s.sig("observed-without-attestation"), fmt.Sprintf("nonce %d observed but attestation record missing", n))
		return
	}
	seen := map[string]bool{}
	sum := sdkmath.ZeroInt()
	for _, v := range att.Votes {
		if seen[v] {
			st.Violate("distinct-voters", s.sig("oracle-counted-twice"), fmt.Sprintf("nonce %d: voter %s appears twice in %v", n, v, att.Votes))
			continue
		}
		seen[v] = true
		orc, ok := k.GetOracle(ctx, sdk.MustAccAddressFromBech32(v))
		if !ok {
			continue // not a registered oracle: contributes nothing
		}
		sum = sum.Add(orc.GetPower())
	}
	total := k.GetLastTotalPower(ctx)
	// at least 66%: 100*sum >= 66*total, exact integers
	if sum.MulRaw(100).LT(total.MulRaw(66)) {
		st.Violate("quorum-66-percent", s.sig("observed-below-66-percent"), fmt.Sprintf("nonce %d observed with voter power %s of recorded total %s (%s%% < 66%%); votes=%v", n, sum, total, new(big.Rat).SetFrac(sum.MulRaw(100).BigInt(), total.BigInt()).FloatString(4), att.Votes))
	}
	if len(seen) > 0 {
		st.W.App.Logger() // no-op; keeps linter quiet about st.W use
	}
}

func (s *Spec) voteOp(oi int, rel int, variant string) explore.Op {
	o := s.os[oi]
	name := fmt.Sprintf("Vote(o%d,%+d,%s)", oi+1, rel, variant)
	return explore.Op{Name: name, Run: func(st *explore.State) {
		k := scen.Keeper(s.w, s.Chain)
		ctx := st.Ctx
		m := st.Model.(*Model)
		preLast := k.GetLastEventNonceByOracle(ctx, o.Acct.Acc())
		preObs := k.GetLastObservedEventNonce(ctx)
		n := uint64(int64(preLast) + int64(rel))
		orc, registered := k.GetOracle(ctx, o.Acct.Acc())
		bridgerOracle, hasIdx := k.GetOracleAddrByBridgerAddr(ctx, o.Bridger.Acc())
		// the vote comes in through o.Bridger: it may count only if that is the bridger the oracle's record names
		online := registered && orc.Online && hasIdx && bridgerOracle.Equals(o.Acct.Acc()) && orc.BridgerAddress == o.Bridger.Bech()
		claim := s.claim(n, variant)
		r := scen.Vote(s.w, ctx, s.Chain, o, claim)
		st.Accepted = r.OK()
		postObs := k.GetLastObservedEventNonce(ctx)
		postLast := k.GetLastEventNonceByOracle(ctx, o.Acct.Acc())
		if r.Panic != nil {
			st.Outcome = "panic"
			st.Violate("vote-never-panics", s.sig("vote-panic"), fmt.Sprintf("%s panicked: %v\n%s", name, r.Panic, r.Stack))
			return
		}
		if !r.OK() {
			st.Outcome = "rejected"
			if postObs != preObs || postLast != preLast {
				st.Violate("rejected-vote-changes-nothing", s.sig("rejected-vote-had-effect"), name)
			}
			return
		}
		st.Outcome = "accepted"
		ck := fmt.Sprintf("%d/%x", n, claim.ClaimHash())
		m.Cast[ck] = append(append([]string(nil), m.Cast[ck]...), o.Acct.Bech())
		if prev, voted := m.Last[oi]; voted && n != prev+1 {
			what := "left out"
			if n <= prev {
				what = "voted again for"
			}
			st.Violate("oracle-votes-every-nonce-once-in-order", s.sig("oracle-vote-out-of-sequence"), fmt.Sprintf("%s accepted for nonce %d: this oracle's latest accepted vote was for nonce %d (it %s a nonce; the stored cursor said %d)", name, n, prev, what, preLast))
		}
		m.Last[oi] = n
		if !online {
			st.Violate("vote-admission", s.sig("vote-from-non-online-oracle"), fmt.Sprintf("%s (submitted by %s) accepted although oracle registered=%v online=%v bridger-index=%v registered bridger=%s", name, o.Bridger.Bech(), registered, orc.Online, hasIdx, orc.BridgerAddress))
		}
		if rel != 1 {
			st.Violate("oracle-votes-contiguously", s.sig("vote-noncontiguous-accepted"), fmt.Sprintf("%s accepted: oracle last nonce %d, claim nonce %d", name, preLast, n))
		}
		if postLast != n {
			st.Violate("oracle-last-nonce-advances", s.sig("oracle-last-nonce-wrong"), fmt.Sprintf("%s: last nonce of oracle is %d after voting for %d", name, postLast, n))
		}
		switch {
		case postObs == preObs:
		case postObs == preObs+1:
			st.Outcome = "observed"
			if n != postObs {
				st.Violate("observed-nonce-is-voted-nonce", s.sig("observed-other-nonce"), fmt.Sprintf("%s moved last observed to %d", name, postObs))
			}
			m.Obs[n] = variant
			s.tallyCheck(st, n, claim.ClaimHash())
		default:
			st.Violate("last-observed-advances-by-one", s.sig("observed-nonce-jump"), fmt.Sprintf("%s moved last observed event nonce %d -> %d", name, preObs, postObs))
		}
		for _, ev := range r.Events {
			if ev.Type != cctypes.EventTypeContractEvent {
				continue
			}
			var en, ch string
			for _, a := range ev.Attributes {
				if a.Key == cctypes.AttributeKeyEventNonce {
					en = a.Value
				}
				if a.Key == cctypes.AttributeKeyClaimHash {
					ch = a.Value
				}
			}
			var evn uint64
			fmt.Sscan(en, &evn)
			m.Events[evn]++
			if m.Events[evn] > 1 {
				st.Violate("one-contract-event-per-nonce", s.sig("nonce-applied-twice"), fmt.Sprintf("%s: second contract_event for nonce %d", name, evn))
			}
			if ch != hex.EncodeToString(claim.ClaimHash()) {
				st.Violate("observed-claim-is-the-voted-one", s.sig("observed-claim-hash-differs"), fmt.Sprintf("%s: event claim hash %s, voted %x", name, ch, claim.ClaimHash()))
			}
		}
	}}
}

func (s *Spec) execOp(n uint64) explore.Op {
	name := fmt.Sprintf("Execute(%d)", n)
	return explore.Op{Name: name, Run: func(st *explore.State) {
		k := scen.Keeper(s.w, s.Chain)
		m := st.Model.(*Model)
		_, hadPending := k.GetPendingExecuteClaim(st.Ctx, n)
		r := s.w.CallABI(st.Ctx, s.w.A("u2"), cctypes.GetAddress(), cctypes.GetABI(), nil, 500000, "executeClaim", s.Chain, new(big.Int).SetUint64(n))
		if r.Panic != nil || r.Err != nil {
			st.Outcome = "tx-error"
			return
		}
		_, hasPending := k.GetPendingExecuteClaim(st.Ctx, n)
		if !r.Success() {
			st.Outcome = "reverted"
			if hadPending != hasPending {
				st.Violate("failed-execute-keeps-claim", s.sig("failed-execute-changed-pending-claim"), fmt.Sprintf("%s reverted (%s) but pending claim %v -> %v", name, r.Resp.VmError, hadPending, hasPending))
			}
			return
		}
		st.Accepted = true
		st.Outcome = "executed"
		m.Exec[n]++
		if _, ok := m.Obs[n]; !ok {
			st.Violate("only-observed-claims-execute", s.sig("executed-unobserved-nonce"), name+" succeeded for a nonce that was never observed")
		}
		if m.Exec[n] > 1 {
			st.Violate("claim-executes-at-most-once", s.sig("claim-executed-twice"), name+" succeeded a second time")
		}
	}}
}

func (s *Spec) msgOp(name string, build func(ctx sdk.Context) sdk.Msg) explore.Op {
	return explore.Op{Name: name, Run: func(st *explore.State) {
		r := s.w.Deliver(st.Ctx, build(st.Ctx))
		st.Accepted = r.OK()
		if r.OK() && strings.HasPrefix(name, "Unbond(o") {
			var oi int
			fmt.Sscanf(name, "Unbond(o%d)", &oi)
			delete(st.Model.(*Model).Last, oi-1) // the record is gone; a later bond starts a new one
		}
		switch {
		case r.Panic != nil:
			st.Outcome = "tx-panic"
		case r.Err != nil:
			st.Outcome = "rejected"
		default:
			st.Outcome = "ok"
		}
	}}
}

func (s *Spec) Ops(st *explore.State) []explore.Op {
	k := scen.Keeper(s.w, s.Chain)
	ctx := st.Ctx
	var ops []explore.Op
	if s.Rebond {
		return s.rebondOps(st)
	}
	for oi, o := range s.os {
		last := k.GetLastEventNonceByOracle(ctx, o.Acct.Acc())
		if last+1 <= s.MaxNonce {
			for _, v := range s.Variants {
				ops = append(ops, s.voteOp(oi, 1, v))
			}
		}
		if s.WrongN && last >= 2 {
			ops = append(ops, s.voteOp(oi, 0, "A"))
		}
		if s.WrongN && last+2 <= s.MaxNonce {
			ops = append(ops, s.voteOp(oi, 2, "A"))
		}
	}
	if s.WrongN || s.Prop == "C02" {
		// a vote submitted by somebody who is not the oracle's registered bridger (the oracle's own account, a stranger,
		// the bridger of another oracle naming this oracle's nonce): never accepted, never counted
		o := s.os[0]
		last := k.GetLastEventNonceByOracle(ctx, o.Acct.Acc())
		if last+1 <= s.MaxNonce {
			for _, via := range []struct {
				name string
				a    world.Actor
			}{{"own-account", o.Acct}, {"stranger", s.w.A("u2")}} {
				via := via
				ops = append(ops, explore.Op{Name: fmt.Sprintf("VoteVia(o1,%s)", via.name), Run: func(st *explore.State) {
					preObs := k.GetLastObservedEventNonce(st.Ctx)
					pre := s.w.Digest(st.Ctx)
					claim := scen.WithBridger(s.claim(last+1, "A"), via.a.Bech())
					r := s.w.Deliver(st.Ctx, scen.WrapClaim(s.Chain, via.a.Bech(), claim))
					st.Accepted = r.OK()
					st.Outcome = map[bool]string{true: "accepted", false: "rejected"}[r.OK()]
					if r.OK() {
						st.Violate("vote-admission", s.sig("vote-accepted-from-non-bridger"), fmt.Sprintf("a claim submitted by %s (not a registered bridger) was accepted", via.name))
					} else if s.w.Digest(st.Ctx) != pre || k.GetLastObservedEventNonce(st.Ctx) != preObs {
						st.Violate("rejected-vote-changes-nothing", s.sig("rejected-vote-had-effect"), "VoteVia "+via.name)
					}
				}})
			}
		}
	}
	if s.Execute {
		lo := k.GetLastObservedEventNonce(ctx)
		first := uint64(2)
		if s.Prefill > 0 {
			first = s.Prefill + 1 // the last prefilled event stands for "already executed"
		}
		for n := first; n <= lo+1 && n <= s.MaxNonce; n++ {
			ops = append(ops, s.execOp(n))
		}
	}
	if s.Members {
		all := s.os
		bonded := len(s.Stakes)
		if s.Extra {
			x := all[len(all)-1]
			if !k.HasOracle(ctx, x.Acct.Acc()) {
				ops = append(ops, s.msgOp(fmt.Sprintf("Bond(o%d)", len(all)), func(sdk.Context) sdk.Msg {
					return scen.BondMsg(s.Chain, x, s.w.Vals[0].ValAddr(), world.FX(s.Stakes[0]))
				}))
			}
		}
		// stake top-up of oracle 1 (changes power; re-onlines after slashing)
		if orc, ok := k.GetOracle(ctx, all[0].Acct.Acc()); ok && orc.DelegateAmount.LT(world.FX(s.Stakes[0]*2)) {
			ops = append(ops, s.msgOp("AddDelegate(o1)", func(sdk.Context) sdk.Msg {
				return &cctypes.MsgAddDelegate{ChainName: s.Chain, OracleAddress: all[0].Acct.Bech(), Amount: cctypes.NewDelegateAmount(world.FX(s.Stakes[0]))}
			}))
		}
		// a slashed (offline) oracle pays exactly its outstanding penalty (re-onlines without new stake)
		// or the penalty plus one stake unit
		for oi := 1; oi < bonded; oi++ {
			o := all[oi]
			orc, ok := k.GetOracle(ctx, o.Acct.Acc())
			if !ok || orc.Online {
				continue
			}
			for _, extra := range []int64{0, s.Stakes[0]} {
				extra := extra
				ops = append(ops, s.msgOp(fmt.Sprintf("AddDelegate(o%d,penalty+%d)", oi+1, extra), func(c sdk.Context) sdk.Msg {
					cur, _ := k.GetOracle(c, o.Acct.Acc())
					pen := cur.GetSlashAmount(k.GetSlashFraction(c))
					return &cctypes.MsgAddDelegate{ChainName: s.Chain, OracleAddress: o.Acct.Bech(), Amount: cctypes.NewDelegateAmount(pen.Add(world.FX(extra)))}
				}))
			}
		}
		// governance removes the last bonded oracle / re-approves everybody
		victim := all[bonded-1]
		if k.IsProposalOracle(ctx, victim.Acct.Bech()) {
			var rest []scen.Oracle
			for _, o := range all {
				if o.Name != victim.Name {
					rest = append(rest, o)
				}
			}
			ops = append(ops, explore.Op{Name: fmt.Sprintf("Remove(o%d)", bonded), Run: func(c *explore.State) {
				r := scen.Approve(s.w, c.Ctx, s.Chain, rest)
				c.Accepted = r.OK()
				c.Outcome = map[bool]string{true: "ok", false: "rejected"}[r.OK()]
			}})
		} else {
			ops = append(ops, explore.Op{Name: "ApproveAll", Run: func(c *explore.State) {
				r := scen.Approve(s.w, c.Ctx, s.Chain, all)
				c.Accepted = r.OK()
				c.Outcome = map[bool]string{true: "ok", false: "rejected"}[r.OK()]
			}})
			if k.HasOracle(ctx, victim.Acct.Acc()) {
				ops = append(ops, s.msgOp(fmt.Sprintf("Unbond(o%d)", bonded), func(sdk.Context) sdk.Msg {
					return &cctypes.MsgUnbondedOracle{ChainName: s.Chain, OracleAddress: victim.Acct.Bech()}
				}))
			}
		}
	}
	if s.Restart {
		ops = append(ops, explore.Op{Name: "RestartFromExportedGenesis", Run: func(c *explore.State) {
			m := c.Model.(*Model)
			defer func() {
				if r := recover(); r != nil {
					c.Outcome = "panic"
					c.Violate("genesis-round-trip", s.sig("export-import-panics"), fmt.Sprint(r))
				}
			}()
			scen.RestartFromExportedGenesis(s.w, c.Ctx, s.Chain)
			m.Last = map[int]uint64{} // the import re-derives every oracle's cursor from the attestations it carries
			c.Accepted = true
			c.Outcome = "ok"
			// the export does not carry claims parked for execution: what was observed and not yet executed is gone
			// (the property says nothing about it; the monitor follows the store)
			for n := range m.Obs {
				if _, pending := k.GetPendingExecuteClaim(c.Ctx, n); !pending && m.Exec[n] == 0 {
					m.Exec[n] = -1
				}
			}
		}})
	}
	if s.Blocks {
		ops = append(ops, explore.Op{Name: "Block", Run: func(c *explore.State) {
			next, res := s.w.NextBlock(c.Ctx, 5*time.Second)
			c.Ctx = next
			c.Accepted = res.Err == nil && res.Panic == nil
			c.Outcome = "ok"
			if !c.Accepted {
				c.Outcome = "halt"
			}
		}})
		// oracle 1 keeps confirming oracle sets, the others never do: block ops slash them
		if osn := k.GetLatestOracleSet(ctx); osn != nil && k.GetOracleSetConfirm(ctx, osn.Nonce, s.os[0].Acct.Acc()) == nil {
			o := s.os[0]
			ops = append(ops, s.msgOp("ConfirmOS(o1)", func(c sdk.Context) sdk.Msg {
				return &cctypes.MsgOracleSetConfirm{ChainName: s.Chain, BridgerAddress: o.Bridger.Bech(), ExternalAddress: o.ExtAddr, Nonce: osn.Nonce,
					Signature: scen.Sign(s.Chain, o.ExtKey, scen.OracleSetCheckpoint(s.Chain, k.GetGravityID(c), osn))}
			}))
		}
	}
	return ops
}

// rebondOps: the last bonded oracle votes, is removed by governance, unbonds after the unbonding time, is approved
// and bonds again, and votes again; the other oracles only vote.
func (s *Spec) rebondOps(st *explore.State) []explore.Op {
	k := scen.Keeper(s.w, s.Chain)
	ctx := st.Ctx
	var ops []explore.Op
	bonded := len(s.Stakes)
	vi := bonded - 1
	victim := s.os[vi]
	for _, oi := range []int{vi, 0} {
		if last := k.GetLastEventNonceByOracle(ctx, s.os[oi].Acct.Acc()); last+1 <= s.MaxNonce {
			ops = append(ops, s.voteOp(oi, 1, "A"))
			if oi == vi {
				ops = append(ops, s.voteOp(oi, 1, "B")) // the competing claim for the same nonce
			}
		}
	}
	if k.IsProposalOracle(ctx, victim.Acct.Bech()) {
		ops = append(ops, explore.Op{Name: fmt.Sprintf("Remove(o%d)", bonded), Run: func(c *explore.State) {
			r := scen.Approve(s.w, c.Ctx, s.Chain, s.os[:vi])
			c.Accepted = r.OK()
			c.Outcome = map[bool]string{true: "ok", false: "rejected"}[r.OK()]
		}})
		if !k.HasOracle(ctx, victim.Acct.Acc()) {
			ops = append(ops, s.msgOp(fmt.Sprintf("Bond(o%d)", bonded), func(sdk.Context) sdk.Msg {
				return scen.BondMsg(s.Chain, victim, s.w.Vals[0].ValAddr(), world.FX(s.Stakes[vi]))
			}))
			// the same oracle comes back with a new bridger: its former bridger (which keeps submitting the victim's
			// votes in this scenario) has no standing any more
			ops = append(ops, s.msgOp(fmt.Sprintf("Bond(o%d,new-bridger)", bonded), func(sdk.Context) sdk.Msg {
				m := scen.BondMsg(s.Chain, victim, s.w.Vals[0].ValAddr(), world.FX(s.Stakes[vi]))
				m.BridgerAddress = world.NewActor(victim.Name + "-bridger2").Bech()
				return m
			}))
		}
	} else {
		ops = append(ops, explore.Op{Name: "ApproveAll", Run: func(c *explore.State) {
			r := scen.Approve(s.w, c.Ctx, s.Chain, s.os)
			c.Accepted = r.OK()
			c.Outcome = map[bool]string{true: "ok", false: "rejected"}[r.OK()]
		}})
		if k.HasOracle(ctx, victim.Acct.Acc()) {
			ops = append(ops, s.msgOp(fmt.Sprintf("Unbond(o%d)", bonded), func(sdk.Context) sdk.Msg {
				return &cctypes.MsgUnbondedOracle{ChainName: s.Chain, OracleAddress: victim.Acct.Bech()}
			}))
		}
	}
	for _, b := range []struct {
		name string
		dt   time.Duration
	}{{"Block", 5 * time.Second}, {"Block22d", 22 * 24 * time.Hour}} {
		b := b
		ops = append(ops, explore.Op{Name: b.name, Run: func(c *explore.State) {
			next, res := s.w.NextBlock(c.Ctx, b.dt)
			c.Ctx = next
			c.Accepted = res.Err == nil && res.Panic == nil
			c.Outcome = map[bool]string{true: "ok", false: "halt"}[c.Accepted]
		}})
	}
	return ops
}

func (s *Spec) Check(st *explore.State) {
	k := scen.Keeper(s.w, s.Chain)
	ctx := st.Ctx
	m := st.Model.(*Model)
	lo := k.GetLastObservedEventNonce(ctx)
	// last observed equals the highest nonce the monitor saw observed (1 = set-up event)
	hi := uint64(1)
	for n := range m.Obs {
		if n > hi {
			hi = n
		}
	}
	if lo != hi {
		st.Violate("last-observed-matches-history", s.sig("last-observed-mismatch"), fmt.Sprintf("store says %d, monitor saw %d", lo, hi))
	}
	for n := uint64(2); n <= hi; n++ {
		if _, ok := m.Obs[n]; !ok {
			st.Violate("no-gaps", s.sig("observed-nonce-gap"), fmt.Sprintf("nonce %d was skipped (last observed %d)", n, hi))
		}
	}
	// at most one observed attestation per nonce
	obsPer := map[uint64]int{}
	votedFor := map[string]string{} // "nonce/oracle" -> claim hash the oracle's vote is recorded for
	k.IterateAttestationAndClaim(ctx, func(att *cctypes.Attestation, claim cctypes.ExternalClaim) bool {
		seen := map[string]bool{}
		cast := m.Cast[fmt.Sprintf("%d/%x", claim.GetEventNonce(), claim.ClaimHash())]
		for _, v := range att.Votes {
			if claim.GetEventNonce() > 1 { // event 1 was voted in by the set-up
				found := false
				for _, c := range cast {
					found = found || c == v
				}
				if !found {
					st.Violate("vote-counted-only-for-the-claim-it-named", s.sig("vote-tallied-for-a-claim-the-oracle-did-not-vote-for"), fmt.Sprintf("nonce %d: the attestation of claim %x lists %s as a voter, but that oracle's accepted votes for this claim are %v (all votes cast: %v)", claim.GetEventNonce(), claim.ClaimHash()[:6], v, cast, m.Cast))
				}
			}
			key := fmt.Sprintf("%d/%s", claim.GetEventNonce(), v)
			h := hex.EncodeToString(claim.ClaimHash())
			if prev, ok := votedFor[key]; ok && prev != h {
				st.Violate("one-vote-per-oracle-and-nonce", s.sig("oracle-voted-for-two-claims-of-one-nonce"), fmt.Sprintf("nonce %d: the vote of %s is recorded for claim %s and for claim %s", claim.GetEventNonce(), v, prev[:12], h[:12]))
			}
			votedFor[key] = h
			if seen[v] {
				st.Violate("distinct-voters", s.sig("oracle-counted-twice"), fmt.Sprintf("nonce %d: voter %s appears twice in %v", claim.GetEventNonce(), v, att.Votes))
			}
			seen[v] = true
		}
		if att.Observed {
			obsPer[claim.GetEventNonce()]++
			if claim.GetEventNonce() > lo {
				st.Violate("observed-not-beyond-last", s.sig("observed-beyond-last-observed"), fmt.Sprintf("attestation for nonce %d observed, last observed %d", claim.GetEventNonce(), lo))
			}
		}
		return false
	})
	// an accepted vote is not forgotten while its event is still pending: every oracle whose vote for a claim of a nonce
	// beyond the last observed one was accepted is listed in that claim's stored attestation (a restart from an exported
	// genesis is the exception the export format makes)
	if !s.Restart {
		for ck, voters := range m.Cast {
			var n uint64
			var hx string
			if _, err := fmt.Sscanf(ck, "%d/%s", &n, &hx); err != nil || n <= lo {
				continue
			}
			hash, _ := hex.DecodeString(hx)
			att := k.GetAttestation(ctx, n, hash)
			for _, v := range voters {
				found := false
				if att != nil {
					for _, x := range att.Votes {
						found = found || x == v
					}
				}
				if !found {
					st.Violate("accepted-vote-is-kept-until-observed", s.sig("accepted-vote-lost-before-observation"), fmt.Sprintf("nonce %d (last observed %d): the accepted vote of %s for claim %s is not in the stored attestation (%v)", n, lo, v, hx[:12], att))
				}
			}
		}
	}
	for n, c := range obsPer {
		if c > 1 {
			st.Violate("one-observed-attestation-per-nonce", s.sig("two-observed-attestations"), fmt.Sprintf("nonce %d has %d observed attestations", n, c))
		}
	}
	// pending claim <=> observed and not executed; holdings = sum of executed observed variants
	want := sdkmath.ZeroInt()
	for n, v := range m.Obs {
		_, pending := k.GetPendingExecuteClaim(ctx, n)
		if pending != (m.Exec[n] == 0) {
			st.Violate("pending-iff-observed-unexecuted", s.sig("pending-claim-mismatch"), fmt.Sprintf("nonce %d: pending=%v executed=%d", n, pending, m.Exec[n]))
		}
		if m.Exec[n] > 0 {
			want = want.AddRaw(amountOf(v))
		}
	}
	base, _ := sdkmath.NewIntFromString(m.Base)
	got := s.w.App.BankKeeper.GetBalance(ctx, s.w.A("u1").Acc(), "FX").Amount.Sub(base)
	if !got.Equal(want) {
		st.Violate("receiver-holds-observed-amounts", s.sig("receiver-balance-mismatch"), fmt.Sprintf("receiver gained %s, observed+executed claims sum to %s (obs=%v exec=%v)", got, want, m.Obs, m.Exec))
	}
	// C02: recorded total power never below the online power
	online := sdkmath.ZeroInt()
	for _, o := range k.GetAllOracles(ctx, true) {
		online = online.Add(o.GetPower())
	}
	if total := k.GetLastTotalPower(ctx); total.LT(online) {
		st.Violate("total-power-covers-online-power", s.sig("total-power-below-online-power"), fmt.Sprintf("recorded total power %s < combined power of online oracles %s", total, online))
	}
}

func (s *Spec) Counters(st *explore.State) []string {
	m := st.Model.(*Model)
	var out []string
	if len(m.Obs) > 0 {
		out = append(out, "observed>=1")
	}
	if len(m.Obs) > 1 {
		out = append(out, "observed>=2")
	}
	for _, c := range m.Exec {
		if c > 0 {
			out = append(out, "executed>=1")
			break
		}
	}
	k := scen.Keeper(s.w, s.Chain)
	if len(k.GetAllOracles(st.Ctx, true)) != len(s.Stakes) {
		out = append(out, "membership-changed")
	}
	// competing attestations alive for one nonce
	per := map[uint64]int{}
	k.IterateAttestationAndClaim(st.Ctx, func(att *cctypes.Attestation, claim cctypes.ExternalClaim) bool {
		per[claim.GetEventNonce()]++
		return false
	})
	for _, c := range per {
		if c > 1 {
			out = append(out, "competing-attestations")
			break
		}
	}
	return out
}
