// Package c18: a tolerated failed sub-step leaves none of its own partial effects.
// Engine E2: every tolerated-failure boundary x every failure point; the resulting full store dump must differ
// from the pre-state only in the designated outcome of that failure.
package c18

import (
	"bytes"
	"encoding/hex"
	"fmt"
	"math/big"
	"sort"
	"strings"
	"time"

	sdkmath "cosmossdk.io/math"
	codectypes "github.com/cosmos/cosmos-sdk/codec/types"
	sdk "github.com/cosmos/cosmos-sdk/types"
	govv1 "github.com/cosmos/cosmos-sdk/x/gov/types/v1"
	"github.com/ethereum/go-ethereum/common"
	"github.com/ethereum/go-ethereum/core"
	"github.com/ethereum/go-ethereum/eth/tracers/logger"

	"github.com/functionx/fx-core/v8/contract"
	cctypes "github.com/functionx/fx-core/v8/x/crosschain/types"
	erc20types "github.com/functionx/fx-core/v8/x/erc20/types"
	fxgovtypes "github.com/functionx/fx-core/v8/x/gov/types"

	"fxmc/evmasm"
	"fxmc/explore"
	"fxmc/props/registry"
	"fxmc/scen"
	"fxmc/world"
)

type env struct {
	w     *world.World
	ctx   sdk.Context
	os    []scen.Oracle
	fx    scen.Token
	usdt  scen.Token
	nonce uint64
}

func setup() *env {
	w := world.New(world.Config{Validators: 2, Actors: []string{"bank", "u1", "u2", "rel"}})
	ctx := w.Root
	e := &env{w: w}
	osm := map[string][]scen.Oracle{"eth": scen.SetupOracles(w, ctx, "eth", []string{"eth-o1"}, []int64{10000})}
	e.os = osm["eth"]
	nonces := map[string]uint64{}
	e.fx = scen.RegisterFX(w, ctx, osm, nonces, 1000)
	e.usdt = scen.RegisterModuleToken(w, ctx, "USDT", osm, nonces, 1000)
	e.nonce = nonces["eth"]
	e.ctx = ctx
	return e
}

type rec struct {
	res *explore.Result
}

func (r *rec) viol(sig, oracle, detail string, path ...string) {
	r.res.ViolationCounts[sig]++
	for _, v := range r.res.Violations {
		if v.Signature == sig {
			return
		}
	}
	r.res.Violations = append(r.res.Violations, explore.Violation{Oracle: oracle, Signature: sig, Detail: detail, Path: path})
}

// allowedOnly reports the dump differences whose key is not covered by any allowed prefix ("store/hexprefix").
func allowedOnly(diff []string, allowed []string) []string {
	var out []string
	for _, d := range diff {
		ok := false
		for _, a := range allowed {
			if strings.HasPrefix(d, a) {
				ok = true
				break
			}
		}
		if !ok {
			out = append(out, d)
		}
	}
	return out
}

func hx(b []byte) string { return hex.EncodeToString(b) }

// ---------------------------------------------------------------- (a) observed event whose handler fails

func (e *env) eventFailures(r *rec) {
	w := e.w
	k := scen.Keeper(w, "eth")
	n := e.nonce + 1
	cases := map[string]cctypes.ExternalClaim{
		"duplicate-bridge-token": scen.BridgeTokenClaim("eth", n, 1001, e.usdt.Ext["eth"], "USDT Token", "USDT", 6, ""),
		"fx-decimals-mismatch":   scen.BridgeTokenClaim("eth", n, 1001, scen.ExtAddr("eth", "fx2"), "Function X", "FX", 6, ""),
		"unknown-oracle-set":     &cctypes.MsgOracleSetUpdatedClaim{EventNonce: n, BlockHeight: 1001, OracleSetNonce: 77, Members: []cctypes.BridgeValidator{{Power: 1000, ExternalAddress: e.os[0].ExtAddr}}, ChainName: "eth"},
	}
	var names []string
	for nme := range cases {
		names = append(names, nme)
	}
	sort.Strings(names)
	for _, name := range names {
		claim := cases[name]
		ctx := world.Branch(e.ctx)
		pre := w.Dump(ctx)
		vr := scen.Vote(w, ctx, "eth", e.os[0], claim)
		r.res.Transitions++
		r.res.Extra["evaluations"]++
		if !vr.OK() {
			r.viol("C18/observed-event-with-failing-handler-not-tolerated/"+name, "failure-is-tolerated", vr.String(), name)
			continue
		}
		failed := false
		for _, ev := range vr.Events {
			if ev.Type == cctypes.EventTypeContractEvent {
				for _, a := range ev.Attributes {
					if a.Key == cctypes.AttributeKeyStateSuccess && a.Value == "false" {
						failed = true
					}
				}
			}
		}
		r.res.Outcomes[fmt.Sprintf("event/%s/handler-failed=%v", name, failed)]++
		if !failed {
			r.viol("C18/harness/event-handler-did-not-fail/"+name, "harness", "the chosen event was expected to fail in its handler", name)
			continue
		}
		if k.GetLastObservedEventNonce(ctx) != n {
			r.viol("C18/failed-event-not-marked-observed/"+name, "designated-outcome-present", "last observed nonce not advanced", name)
		}
		oracleAddr := e.os[0].Acct.Acc()
		allowed := []string{
			"eth/" + hx(cctypes.GetAttestationKey(n, claim.ClaimHash())),
			"eth/" + hx(cctypes.LastObservedEventNonceKey),
			"eth/" + hx(cctypes.LastObservedBlockHeightKey),
			"eth/" + hx(cctypes.GetLastEventNonceByOracleKey(oracleAddr)),
			"eth/" + hx(cctypes.GetLastEventBlockHeightByOracleKey(oracleAddr)),
		}
		if extra := allowedOnly(world.DiffDumps(pre, w.Dump(ctx)), allowed); len(extra) > 0 {
			r.viol("C18/failed-event-handler-left-writes/"+name, "nothing-but-the-designated-outcome", fmt.Sprintf("%s: besides the attestation / last-observed / per-oracle nonce keys these changed: %v", name, extra), name)
		}
		r.res.Counters["tolerated-failures"]++
	}
}

// ---------------------------------------------------------------- (b) inbound bridge call whose contract call fails

// callee program: write a marker, move one unit of the received token on, optionally revert / loop.
func calleeProgram(tok common.Address, to common.Address, mode string) evmasm.Program {
	xfer, _ := contract.GetFIP20().ABI.Pack("transfer", to, big.NewInt(1))
	var p evmasm.Program
	switch mode {
	case "ok":
		p.Actions = []evmasm.Action{evmasm.Mark(1, 7), evmasm.CallOf(evmasm.CALL, tok, xfer, evmasm.Require), evmasm.Mark(2, 7)}
	case "revert-before-writes":
		p.Revert = true
	case "revert-after-writes":
		p.Actions = []evmasm.Action{evmasm.Mark(1, 7), evmasm.CallOf(evmasm.CALL, tok, xfer, evmasm.Require), evmasm.Mark(2, 7)}
		p.Revert = true
	}
	return p
}

func (e *env) bridgeCallFailures(r *rec, thorough bool) {
	w := e.w
	k := scen.Keeper(w, "eth")
	type variant struct {
		name    string
		tokens  []scen.Token
		mode    string
		disable int  // index of the token whose pair is disabled before execution (-1 none)
		gas     bool // enumerate gas thresholds
		// refundOther: the claim names a refund address that is not the receiving contract (the tokens delivered to the
		// receiver have to be taken back from it before they go into the refund record)
		refundOther bool
		// plain: the call's target is a plain account (no code): nothing is called, the tokens are only delivered
		plain bool
		// holds: the target already holds coins of the delivered denominations before the call
		holds bool
		// sendCallTo: the claim's memo is the "send call to" flag - the tokens are delivered to the (mapped) sender address
		// and the target is called by that address with the raw call data
		sendCallTo bool
	}
	vs := []variant{
		{"contract-ok(control)", []scen.Token{e.usdt}, "ok", -1, false, false, false, false, false},
		{"revert-before-writes", []scen.Token{e.usdt}, "revert-before-writes", -1, false, false, false, false, false},
		{"revert-after-writes", []scen.Token{e.usdt}, "revert-after-writes", -1, false, false, false, false, false},
		{"revert-after-writes/2-tokens", []scen.Token{e.usdt, e.fx}, "revert-after-writes", -1, false, false, false, false, false},
		{"token-1-of-2-disabled", []scen.Token{e.usdt, e.fx}, "ok", 0, false, false, false, false, false},
		{"token-1-of-1-disabled", []scen.Token{e.usdt}, "ok", 0, false, false, false, false, false},
		{"gas-exhaustion-at-every-threshold", []scen.Token{e.usdt}, "ok", -1, true, false, false, false, false},
	}
	for _, v := range vs[:6] {
		v.name += "/refund-to-third-party"
		v.refundOther = true
		vs = append(vs, v)
	}
	for _, mode := range []string{"revert-before-writes", "revert-after-writes"} {
		for _, other := range []bool{false, true} {
			v := variant{name: "send-call-to/" + mode, tokens: []scen.Token{e.usdt, e.fx}, mode: mode, disable: -1, sendCallTo: true, refundOther: other}
			if other {
				v.name += "/refund-to-third-party"
			}
			vs = append(vs, v)
		}
	}
	// deliveries to a plain account that fail at the k-th token (k = 1, 2; both token orders), the account holding / not
	// holding coins of those denominations already, refund to itself / to a third party
	for _, pv := range []variant{
		{name: "plain-account/token-2-of-2-disabled(usdt,fx)", tokens: []scen.Token{e.usdt, e.fx}, mode: "ok", disable: 1, plain: true},
		{name: "plain-account/token-2-of-2-disabled(fx,usdt)", tokens: []scen.Token{e.fx, e.usdt}, mode: "ok", disable: 1, plain: true},
		{name: "plain-account/token-1-of-2-disabled(usdt,fx)", tokens: []scen.Token{e.usdt, e.fx}, mode: "ok", disable: 0, plain: true},
		{name: "plain-account/token-1-of-1-disabled", tokens: []scen.Token{e.usdt}, mode: "ok", disable: 0, plain: true},
	} {
		for _, holds := range []bool{false, true} {
			for _, other := range []bool{false, true} {
				v := pv
				v.holds, v.refundOther = holds, other
				if holds {
					v.name += "/target-holds-coins"
				}
				if other {
					v.name += "/refund-to-third-party"
				}
				vs = append(vs, v)
			}
		}
	}
	if thorough {
		// the gas sweep also with two tokens and with a third-party refund address
		vs = append(vs, variant{"gas-exhaustion-at-every-threshold/2-tokens", []scen.Token{e.usdt, e.fx}, "ok", -1, true, false, false, false, false},
			variant{"gas-exhaustion-at-every-threshold/refund-to-third-party", []scen.Token{e.usdt}, "ok", -1, true, true, false, false, false})
	}
	for _, v := range vs {
		base := world.Branch(e.ctx)
		callee := w.Deploy(base, w.A("u2"), calleeProgram(e.usdt.ERC20, w.A("u2").Hex(), v.mode).InitCode())
		if v.plain {
			callee = world.NewActor("plain-target").Hex()
			if v.holds {
				scen.Fund(w, base, callee.Bytes(), sdk.NewCoins(world.FXCoin(1))) // FX only: nobody holds usdt coins in this world
			}
		}
		n := e.nonce + 1
		var toks []string
		var amts []sdkmath.Int
		for _, t := range v.tokens {
			toks = append(toks, t.Ext["eth"])
			amts = append(amts, sdkmath.NewInt(5))
		}
		target := callee // the contract that is called
		memo := ""
		if v.sendCallTo {
			// the tokens go to the sender's address; from here on "callee" is the account whose holdings are watched
			callee = common.HexToAddress(scen.ExtAddr("eth", "depositor"))
			memo = hex.EncodeToString(cctypes.MemoSendCallTo.Bytes())
		}
		refund := callee
		if v.refundOther {
			refund = w.A("u1").Hex()
		}
		claim := &cctypes.MsgBridgeCallClaim{ChainName: "eth", EventNonce: n, BlockHeight: 1001, Sender: scen.ExtAddr("eth", "depositor"), Refund: refund.String(),
			TokenContracts: toks, Amounts: amts, To: target.String(), Data: "", Value: sdkmath.ZeroInt(), Memo: memo, TxOrigin: scen.ExtAddr("eth", "origin")}
		if vr := scen.Vote(w, base, "eth", e.os[0], claim); !vr.OK() {
			r.viol("C18/harness/bridge-call-claim-rejected/"+v.name, "harness", vr.String(), v.name)
			continue
		}
		if v.disable >= 0 {
			w.MustDeliver(base, &erc20types.MsgToggleTokenConversion{Authority: world.GovAuthority(), Token: v.tokens[v.disable].Base})
		}
		exec := func(ctx sdk.Context) world.EthResult {
			return w.CallABI(ctx, w.A("rel"), cctypes.GetAddress(), cctypes.GetABI(), nil, 25_000_000, "executeClaim", "eth", new(big.Int).SetUint64(n))
		}
		gasPoints := []int64{0} // 0 = unchanged block max gas
		if v.gas {
			// trace the callee's execution to find every gas threshold of the sub-step
			tctx := world.Branch(base)
			// put the tokens where the real path puts them before the call, then trace the callback itself
			tr := logger.NewStructLogger(&logger.Config{DisableStorage: true, DisableStack: true})
			if er := exec(world.Branch(base)); !er.Success() {
				r.viol("C18/harness/control-execution-failed/"+v.name, "harness", er.String(), v.name)
				continue
			}
			// the callee alone, traced with the block gas limit the nested call really gets
			pctx := world.Branch(base)
			if er := exec(pctx); er.Success() {
				// after a successful execution the callee holds the tokens; trace a second identical callback to learn its gas profile
				msg := &core.Message{From: k.GetCallbackFrom(), To: &target, Nonce: w.App.EvmKeeper.GetNonce(pctx, k.GetCallbackFrom()), Value: big.NewInt(0), GasLimit: 3_000_000, GasPrice: big.NewInt(0), GasFeeCap: big.NewInt(0), GasTipCap: big.NewInt(0)}
				if tres, err := w.App.EvmKeeper.ApplyMessage(pctx, msg, tr, false); err == nil {
					seen := map[int64]bool{}
					for _, l := range tr.StructLogs() {
						for _, g := range []uint64{3_000_000 - l.Gas, 3_000_000 - l.Gas + l.GasCost, 3_000_000 - l.Gas + l.GasCost - 1} {
							if g > 0 && !seen[int64(g)] {
								seen[int64(g)] = true
								gasPoints = append(gasPoints, int64(g))
							}
						}
					}
					gasPoints = append(gasPoints, int64(tres.GasUsed)-1, int64(tres.GasUsed), int64(tres.GasUsed)+1, 21000, 22000)
				}
			}
			_ = tctx
			sort.Slice(gasPoints, func(i, j int) bool { return gasPoints[i] < gasPoints[j] })
		}
		for _, g := range gasPoints {
			ctx := world.Branch(base)
			xctx := ctx // same store, possibly a smaller block gas limit (the nested call takes its gas limit from it)
			if g > 0 {
				cp := ctx.ConsensusParams()
				blk := *cp.Block
				blk.MaxGas = g
				cp.Block = &blk
				xctx = ctx.WithConsensusParams(cp)
			}
			pre := w.Dump(ctx)
			calleeHold := func(c sdk.Context) string {
				return fmt.Sprintf("usdt-erc20=%s usdt-coin=%s fx=%s fx-erc20=%s all-coins=%s", scen.BalanceOf(w, c, e.usdt.ERC20, callee), w.App.BankKeeper.GetBalance(c, callee.Bytes(), "usdt").Amount, w.App.BankKeeper.GetBalance(c, callee.Bytes(), "FX").Amount, scen.BalanceOf(w, c, e.fx.ERC20, callee), w.App.BankKeeper.GetAllBalances(c, callee.Bytes()))
			}
			holdPre := calleeHold(ctx)
			refundHold := func(c sdk.Context) string {
				return fmt.Sprintf("usdt-erc20=%s usdt-coin=%s fx-erc20=%s all-coins=%s", scen.BalanceOf(w, c, e.usdt.ERC20, refund), w.App.BankKeeper.GetBalance(c, refund.Bytes(), "usdt").Amount, scen.BalanceOf(w, c, e.fx.ERC20, refund), w.App.BankKeeper.GetAllBalances(c, refund.Bytes()))
			}
			refundPre := refundHold(ctx)
			u2Pre := scen.BalanceOf(w, ctx, e.usdt.ERC20, w.A("u2").Hex())
			er := exec(xctx)
			r.res.Transitions++
			r.res.Extra["evaluations"]++
			name := v.name
			if g > 0 {
				name = fmt.Sprintf("%s gas=%d", v.name, g)
			}
			_, stillPending := k.GetPendingExecuteClaim(ctx, n)
			calls := scen.LastBridgeCallID(w, ctx, "eth")
			marker := w.Slot(ctx, target, 1).Big().Uint64()
			class := "executed"
			switch {
			case !er.Success():
				class = "claim-execution-failed"
			case calls > 0:
				class = "tolerated-failure-with-refund"
			}
			r.res.Outcomes["bridge-call/"+v.name+"/"+class]++
			switch class {
			case "claim-execution-failed":
				// not tolerated: everything rolls back and the claim stays parked
				if !stillPending {
					r.viol("C18/failed-claim-execution-consumed-claim/"+v.name, "nothing-but-the-designated-outcome", name, name)
				}
				if d := nativeDiff(pre, w.Dump(ctx)); len(d) > 0 {
					r.viol("C18/failed-claim-execution-left-writes/"+v.name, "nothing-but-the-designated-outcome", fmt.Sprintf("%s: %v", name, d[:min(4, len(d))]), name)
				}
			case "tolerated-failure-with-refund":
				r.res.Counters["tolerated-failures"]++
				oc, _ := k.GetOutgoingBridgeCallByNonce(ctx, calls)
				// the refund record holds exactly the claim's tokens
				want := map[string]string{}
				for i, t := range toks {
					want[t] = amts[i].String()
				}
				got := map[string]string{}
				if oc != nil {
					for _, t := range oc.Tokens {
						got[t.Contract] = t.Amount.String()
					}
				}
				if fmt.Sprint(want) != fmt.Sprint(got) || oc == nil || oc.Refund != refund.String() || oc.EventNonce != n {
					r.viol("C18/refund-record-differs-from-claim/"+v.name, "designated-outcome-present", fmt.Sprintf("%s: claim tokens %v, refund record %+v", name, want, oc), name)
				}
				if stillPending {
					r.viol("C18/tolerated-failure-kept-pending-claim/"+v.name, "designated-outcome-present", name, name)
				}
				// nothing written by the failed contract call itself
				if marker != 0 {
					r.viol("C18/contract-writes-survive-failed-bridge-call/"+v.name, "nothing-but-the-designated-outcome", fmt.Sprintf("%s: storage marker of the callee is %d", name, marker), name)
				}
				if u2 := scen.BalanceOf(w, ctx, e.usdt.ERC20, w.A("u2").Hex()); !u2.Equal(u2Pre) {
					r.viol("C18/token-moves-survive-failed-bridge-call/"+v.name, "nothing-but-the-designated-outcome", fmt.Sprintf("%s: u2 received %s tokens from the failed callee", name, u2.Sub(u2Pre)), name)
				}
				// no account changed: the callee (receiver == refund address) ends with what it had
				if h := calleeHold(ctx); h != holdPre {
					r.viol("C18/account-changed-by-tolerated-bridge-call-failure/"+v.name, "nothing-but-the-designated-outcome", fmt.Sprintf("%s: callee holdings %s -> %s although the tokens went into the refund record", name, holdPre, h), name)
				}
				if h := refundHold(ctx); h != refundPre {
					r.viol("C18/account-changed-by-tolerated-bridge-call-failure/"+v.name, "nothing-but-the-designated-outcome", fmt.Sprintf("%s: holdings of the refund address %s -> %s although the tokens went into the refund record", name, refundPre, h), name)
				}
			case "executed":
				if v.mode != "ok" || v.disable >= 0 {
					r.viol("C18/harness/failure-not-provoked/"+v.name, "harness", name+" executed successfully", name)
				}
				if marker != 7 && !v.plain {
					r.viol("C18/successful-bridge-call-lost-contract-writes/"+v.name, "success-commits-everything", name, name)
				}
			}
		}
		if len(r.res.Samples) < 6 {
			r.res.Samples = append(r.res.Samples, []string{"inbound bridge call: " + v.name, fmt.Sprintf("%d gas points", len(gasPoints))})
		}
	}
}

// ---------------------------------------------------------------- (b2) timed-out outgoing bridge call whose refund fails
//
// An outgoing bridge call made through the precompile (ERC-20 origin, 1 or 2 tokens) times out at an observed event while
// governance has disabled the token's pair, so its refund cannot be completed. Either the oracle's claim transaction fails
// as a whole and nothing changes, or - if the implementation chooses to tolerate the failed refund and keeps the call -
// nothing but the observation itself (attestation, last-observed and per-oracle keys, the parked claim) may have changed.
func (e *env) timedOutCallRefundFailures(r *rec) {
	w := e.w
	k := scen.Keeper(w, "eth")
	base := world.Branch(e.ctx)
	u1 := w.A("u1")
	n := e.nonce + 1
	scen.Observe(w, base, "eth", e.os, scen.SendToFxClaim("eth", n, 1001, e.usdt.Ext["eth"], 50, scen.ExtAddr("eth", "depositor"), u1.Acc(), "", ""))
	if er := w.CallABI(base, w.A("rel"), cctypes.GetAddress(), cctypes.GetABI(), nil, 2_000_000, "executeClaim", "eth", new(big.Int).SetUint64(n)); !er.Success() {
		r.viol("C18/harness/set-up-deposit-failed", "harness", er.String(), "timed-out-call")
		return
	}
	w.MustDeliver(base, &erc20types.MsgConvertCoin{Coin: sdk.NewInt64Coin("usdt", 20), Receiver: u1.Hex().String(), Sender: u1.Bech()})
	if ar := w.CallABI(base, u1, e.usdt.ERC20, contract.GetFIP20().ABI, nil, 300000, "approve", cctypes.GetAddress(), big.NewInt(10)); !ar.Success() {
		r.viol("C18/harness/approve-failed", "harness", ar.String(), "timed-out-call")
		return
	}
	for _, v := range []struct {
		name  string
		value *big.Int
	}{{"usdt", nil}, {"FX+usdt", big.NewInt(2)}} {
		ctx := world.Branch(base)
		cr := w.CallABI(ctx, u1, cctypes.GetAddress(), cctypes.GetABI(), v.value, 3_000_000, "bridgeCall", "eth", u1.Hex(), []common.Address{e.usdt.ERC20}, []*big.Int{big.NewInt(3)},
			common.HexToAddress(scen.ExtAddr("eth", "callee")), []byte{1}, big.NewInt(0), []byte{})
		if !cr.Success() {
			r.viol("C18/harness/outgoing-bridge-call-refused/"+v.name, "harness", cr.String(), v.name)
			continue
		}
		id := scen.LastBridgeCallID(w, ctx, "eth")
		for _, disabled := range []bool{false, true} {
			c2 := world.Branch(ctx)
			if disabled {
				w.MustDeliver(c2, &erc20types.MsgToggleTokenConversion{Authority: world.GovAuthority(), Token: "usdt"})
			}
			pre := w.Dump(c2)
			claim := scen.SendToFxClaim("eth", n+1, 100_000_000, e.usdt.Ext["eth"], 1, scen.ExtAddr("eth", "depositor"), w.A("u2").Acc(), "", "")
			vr := scen.Vote(w, c2, "eth", e.os[0], claim)
			r.res.Transitions++
			r.res.Extra["evaluations"]++
			_, still := k.GetOutgoingBridgeCallByNonce(c2, id)
			name := fmt.Sprintf("timed-out-call(%s)/pair-disabled=%v", v.name, disabled)
			class := "claim-transaction-failed"
			switch {
			case vr.OK() && !still:
				class = "refunded"
			case vr.OK() && still:
				class = "refund-failure-tolerated-call-kept"
			}
			r.res.Outcomes["bridge-call/"+name+"/"+class]++
			switch class {
			case "claim-transaction-failed":
				if !disabled {
					r.viol("C18/harness/timeout-not-processed/"+v.name, "harness", vr.String(), name)
				}
				if d := world.DiffDumps(pre, w.Dump(c2)); len(d) > 0 {
					r.viol("C18/failed-claim-transaction-left-writes/timed-out-call", "nothing-but-the-designated-outcome", fmt.Sprintf("%s: %v", name, d[:min(4, len(d))]), name)
				}
			case "refund-failure-tolerated-call-kept":
				r.res.Counters["tolerated-failures"]++
				oracleAddr := e.os[0].Acct.Acc()
				allowed := []string{
					"eth/" + hx(cctypes.GetAttestationKey(n+1, claim.ClaimHash())),
					"eth/" + hx(cctypes.LastObservedEventNonceKey),
					"eth/" + hx(cctypes.LastObservedBlockHeightKey),
					"eth/" + hx(cctypes.GetLastEventNonceByOracleKey(oracleAddr)),
					"eth/" + hx(cctypes.GetLastEventBlockHeightByOracleKey(oracleAddr)),
					"eth/" + hx(cctypes.PendingExecuteClaimKey),
				}
				if extra := allowedOnly(world.DiffDumps(pre, w.Dump(c2)), allowed); len(extra) > 0 {
					r.viol("C18/tolerated-refund-failure-left-writes/timed-out-call/"+v.name, "nothing-but-the-designated-outcome", fmt.Sprintf("%s: the call is still queued (its refund failed and was tolerated), yet besides the observation these changed: %v", name, extra[:min(6, len(extra))]), name)
				}
			}
		}
	}
}

func nativeDiff(a, b map[string][]byte) []string {
	var out []string
	for _, d := range world.DiffDumps(a, b) {
		if strings.HasPrefix(d, "evm/") || strings.HasPrefix(d, "acc/") || strings.HasPrefix(d, "feemarket/") {
			continue
		}
		out = append(out, d)
	}
	return out
}

// ---------------------------------------------------------------- (c) passed proposal whose k-th message fails

func (e *env) proposalFailures(r *rec) {
	w := e.w
	// all messages of a proposal must be of one type: the oracle-list update serves as good and as failing message
	o1 := e.os[0].Acct.Bech()
	good := func(c sdk.Context, tag uint64) sdk.Msg {
		return &cctypes.MsgUpdateChainOracles{ChainName: "eth", Authority: world.GovAuthority(), Oracles: []string{o1, world.NewActor(fmt.Sprintf("cand%d", tag)).Bech()}}
	}
	failing := func() sdk.Msg {
		// removes the only bonded oracle: exceeds the power-change cap when executed
		return &cctypes.MsgUpdateChainOracles{ChainName: "eth", Authority: world.GovAuthority(), Oracles: []string{w.A("u1").Bech()}}
	}
	panicking := func() sdk.Msg {
		// the same message type for the bsc module, whose stored oracle list a raw store update (below) has made
		// undecodable: the handler panics while reading it
		return &cctypes.MsgUpdateChainOracles{ChainName: "bsc", Authority: world.GovAuthority(), Oracles: []string{o1}}
	}
	for _, shape := range []string{"G(control)", "F", "GF", "GGF", "GFG", "FG", "GGG(control)", "P", "GP", "GPG", "PG"} {
		ctx := world.Branch(e.ctx)
		if strings.Contains(shape, "P") {
			key := hex.EncodeToString(cctypes.ProposalOracleKey)
			old := hex.EncodeToString(scen.Store(w, ctx, "bsc").Get(cctypes.ProposalOracleKey))
			w.MustDeliver(ctx, &fxgovtypes.MsgUpdateStore{Authority: world.GovAuthority(), UpdateStores: []fxgovtypes.UpdateStore{{Space: "bsc", Key: key, OldValue: old, Value: "ff"}}})
		}
		var msgs []sdk.Msg
		tag := uint64(1)
		for _, ch := range strings.Split(shape, "(")[0] {
			switch ch {
			case 'G':
				msgs = append(msgs, good(ctx, tag))
				tag++
			case 'F':
				msgs = append(msgs, failing())
			case 'P':
				msgs = append(msgs, panicking())
			}
		}
		var anys []*codectypes.Any
		for _, m := range msgs {
			a, _ := codectypes.NewAnyWithValue(m)
			anys = append(anys, a)
		}
		sub := &govv1.MsgSubmitProposal{Messages: anys, InitialDeposit: sdk.NewCoins(world.FXCoin(10000)), Proposer: w.A("u1").Bech(), Title: "t", Summary: "s", Metadata: "m"}
		sr := w.Deliver(ctx, sub)
		r.res.Transitions++
		r.res.Extra["evaluations"]++
		if !sr.OK() {
			r.res.Outcomes["proposal/"+shape+"/submit-rejected"]++
			// mixed message types are refused at submission; only same-type lists reach execution
			continue
		}
		id, _ := w.App.GovKeeper.ProposalID.Peek(ctx)
		id--
		for _, v := range w.Vals {
			w.MustDeliver(ctx, govv1.NewMsgVote(v.Operator.Acc(), id, govv1.OptionYes, ""))
		}
		u1Before := w.App.BankKeeper.GetBalance(ctx, w.A("u1").Acc(), "FX").Amount
		listBefore, _ := scen.Keeper(w, "eth").GetProposalOracle(ctx)
		mid, br0 := w.NextBlock(ctx, 15*24*time.Hour)
		if br0.Err != nil || br0.Panic != nil {
			r.viol("C18/block-halts-on-failing-proposal/"+shape, "failure-is-tolerated", fmt.Sprintf("%v %v\n%s", br0.Err, br0.Panic, br0.Stack), shape)
			continue
		}
		pre := w.Dump(mid)
		next, br := w.NextBlock(mid, 5*time.Second)
		if br.Err != nil || br.Panic != nil {
			r.viol("C18/block-halts-on-failing-proposal/"+shape, "failure-is-tolerated", fmt.Sprintf("%v %v\n%s", br.Err, br.Panic, br.Stack), shape)
			continue
		}
		prop, _ := w.App.GovKeeper.Proposals.Get(next, id)
		r.res.Outcomes["proposal/"+shape+"/"+prop.Status.String()]++
		expectFail := strings.ContainsAny(strings.Split(shape, "(")[0], "FP")
		if expectFail {
			r.res.Counters["tolerated-failures"]++
			if prop.Status != govv1.StatusFailed {
				r.viol("C18/failing-proposal-not-marked-failed/"+shape, "designated-outcome-present", prop.Status.String(), shape)
			}
			if got, _ := scen.Keeper(w, "eth").GetProposalOracle(next); fmt.Sprint(got.Oracles) != fmt.Sprint(listBefore.Oracles) {
				r.viol("C18/earlier-proposal-messages-survive-failure/"+shape, "nothing-but-the-designated-outcome", fmt.Sprintf("approved oracle list %v -> %v although a message of the proposal failed", listBefore.Oracles, got.Oracles), shape)
			}
			// no crosschain store byte changed (the end-blocker of the crosschain module itself is idle here)
			var cc []string
			for _, d := range world.DiffDumps(pre, w.Dump(next)) {
				if strings.HasPrefix(d, "eth/") {
					cc = append(cc, d)
				}
			}
			if len(cc) > 0 {
				r.viol("C18/failed-proposal-left-writes/"+shape, "nothing-but-the-designated-outcome", fmt.Sprint(cc), shape)
			}
		} else if prop.Status != govv1.StatusPassed {
			r.viol("C18/harness/control-proposal-did-not-pass/"+shape, "harness", prop.Status.String()+" "+prop.FailedReason, shape)
		}
		// deposits handled: refunded to the proposer
		if got := w.App.BankKeeper.GetBalance(next, w.A("u1").Acc(), "FX").Amount.Sub(u1Before); !got.Equal(world.FX(10000)) {
			r.viol("C18/deposit-not-refunded-after-proposal-end/"+shape, "designated-outcome-present", got.String(), shape)
		}
	}
	_ = fxgovtypes.SwitchParams{}
	_ = bytes.Equal
}

func run(thorough bool) func(shard, shards int, deadline time.Time) *explore.Result {
	return func(shard, shards int, deadline time.Time) *explore.Result {
		start := time.Now()
		res := &explore.Result{Spec: "c18", Outcomes: map[string]int{}, Counters: map[string]int{}, ViolationCounts: map[string]int{}, Exhaustive: true, DeterminismOK: true, Extra: map[string]float64{}}
		e := setup()
		r := &rec{res}
		e.eventFailures(r)
		e.bridgeCallFailures(r, thorough)
		e.timedOutCallRefundFailures(r)
		e.proposalFailures(r)
		res.States = len(res.Outcomes)
		res.Extra["distinct_nontrivial"] = float64(len(res.Outcomes))
		res.WallS = time.Since(start).Seconds()
		return res
	}
}

func min(a, b int) int {
	if a < b {
		return a
	}
	return b
}

func init() {
	registry.Register(&registry.Check{
		ID:          "C18",
		Level:       "fault_enumeration",
		Rule:        "tolerated-failure boundaries x failure points: (a) observed events whose handler fails (duplicate bridge token, FX decimals mismatch, unknown oracle set) - only the attestation, last-observed and per-oracle nonce keys may change; (b) inbound bridge call to a contract that reverts before / after its writes, with 1 or 2 tokens, with the k-th token pair disabled (also with the send-call-to memo flag, where the tokens go to the sender's address; also delivered to a plain account, k = 1, 2, both token orders, the account holding / not holding such coins, refund to itself / a third party), and with the nested call cut at every gas threshold of the callee's trace (block max gas varied) - either the claim execution fails as a whole and nothing changes, or the refund record holds exactly the claim's tokens and no contract write, token move or account change of the failed call survives; (b2) an outgoing bridge call (ERC-20 origin, 1 or 2 tokens) that times out while its token's pair is disabled - the claim transaction fails as a whole, or, if the failed refund is tolerated, only the observation's own keys change; (c) passed proposals with message shapes G, F, GF, GGF, GFG, P, GP (G good, F failing, P panicking) - proposal marked failed, deposits refunded, no effect of earlier messages. IBC packet failures are enumerated in C19. distinct_nontrivial = distinct (boundary, variant, outcome) classes",
		Assumptions: []string{"the callee is a hand-assembled contract (marker write, ERC-20 transfer, marker write, optional revert)", "CallEVM takes its gas limit from the block max gas, which is therefore the varied quantity"},
		Jobs: func(tier string) []registry.Job {
			return []registry.Job{{Name: "boundaries-x-failure-points", Custom: run(tier == "thorough"), Shards: 1}}
		},
	})
}
