// Package c06: outgoing value is released only once the external chain can no longer run it.
// fxcore is explored jointly with a Go model of the external bridge contract's admission rules
// (FxBridgeLogic.sol: submitBatch requires block.number < batchTimeout and a larger batch nonce per token,
// submitBridgeCall requires block.number < timeout and an unused nonce; every accepted submission and every
// deposit emits the next event nonce at the current external height).
package c06

import (
	"encoding/json"
	"fmt"
	"math/big"
	"sort"
	"time"

	sdkmath "cosmossdk.io/math"
	sdk "github.com/cosmos/cosmos-sdk/types"

	cctypes "github.com/functionx/fx-core/v8/x/crosschain/types"

	"fxmc/explore"
	"fxmc/props/registry"
	"fxmc/scen"
	"fxmc/world"
)

type Spec struct {
	Chain  string
	Params bool
	// LateExec: an observed deposit / bridge-call result is parked; executing it is a separate step that anybody may
	// take at any later time (otherwise the relay executes it at once)
	LateExec bool
	// Focus narrows the alphabet to batches only (no bridge calls, no cancels) and offers a second parameter
	// change that shortens the batch timeout, so that histories with two pending batches whose timeouts are
	// not monotonic in their nonces come within the depth bound
	Focus bool
	// TwoTokens (with Focus): a second bridged token whose batches share the chain's batch-nonce sequence
	TwoTokens bool
	// TwoCalls: two outgoing bridge calls exist from the start and the alphabet is narrowed to what the external chain
	// and the relayers do with them (execute in either order, relay, park, execute late, let the timeout pass), so that
	// histories in which the external chain settles the calls out of nonce order come within the depth bound
	TwoCalls bool
	w      *world.World
	os     map[string][]scen.Oracle
	firstNonce uint64 // first event nonce the external model emits
	fx     scen.Token
	usdt   scen.Token // second token (Focus): batch nonces are shared by all tokens, the contract's nonce rule is per token
}

func (s *Spec) Name() string {
	return fmt.Sprintf("c06/%s/params=%v/focus=%v/late-exec=%v/two-calls=%v/two-tokens=%v", s.Chain, s.Params, s.Focus, s.LateExec, s.TwoCalls, s.TwoTokens)
}

type Event struct {
	Nonce  uint64
	Height uint64
	Kind   string // deposit | batch | call
	N      uint64
	Tok    string // batch events: the token contract of the batch
}

type KBatch struct {
	Nonce   uint64
	Timeout uint64
	IDs     []uint64
	Tok     string // token contract: the external contract keeps its last-executed batch nonce per token
}

type Model struct {
	// external chain
	Height    uint64
	Events    []Event
	Relayed   int // number of events relayed
	BatchDone map[string]uint64 // per token contract
	CallDone  map[uint64]bool
	ExtTx     map[uint64]bool // pool transfer ids executed on the external chain
	ExtCall   map[uint64]bool
	// everything fxcore ever signed off (signatures stay usable on the external chain)
	KBatches map[uint64]*KBatch
	KCalls   map[uint64]uint64 // nonce -> timeout
	// fxcore side settlements
	RefundTx   map[uint64]bool
	RefundCall map[uint64]bool
	// snapshot of what was open before the current op (for the release oracle)
	MaxObserved uint64
}

func (m *Model) Clone() explore.Model {
	bz, _ := json.Marshal(m)
	var c Model
	_ = json.Unmarshal(bz, &c)
	return &c
}
func (m *Model) Canon() []byte { bz, _ := json.Marshal(m); return bz }

const extHeight0 = 1000

func (s *Spec) Init() *explore.State {
	w := world.New(world.Config{Validators: 2, Actors: []string{"bank", "u1", "u2", "rel"}})
	s.w = w
	ctx := w.Root
	second := "bsc"
	if s.Chain == "bsc" {
		second = "eth"
	}
	s.os = map[string][]scen.Oracle{s.Chain: scen.SetupOracles(w, ctx, s.Chain, []string{s.Chain + "-o1"}, []int64{10000})}
	nonces := map[string]uint64{}
	s.fx = scen.RegisterFX(w, ctx, s.os, nonces, extHeight0)
	if s.Focus && s.TwoTokens {
		s.usdt = scen.RegisterModuleToken(w, ctx, "USDT", map[string][]scen.Oracle{s.Chain: s.os[s.Chain]}, nonces, extHeight0)
		// u1 holds usdt in the chain's bridge denomination (what an observed deposit leaves with the receiver)
		nonces[s.Chain]++
		scen.Observe(w, ctx, s.Chain, s.os[s.Chain], scen.SendToFxClaim(s.Chain, nonces[s.Chain], extHeight0, s.usdt.Ext[s.Chain], 10, scen.ExtAddr(s.Chain, "depositor"), w.A("u1").Acc(), "", ""))
		if r := w.CallABI(ctx, w.A("rel"), cctypes.GetAddress(), cctypes.GetABI(), nil, 800000, "executeClaim", s.Chain, new(big.Int).SetUint64(nonces[s.Chain])); !r.Success() {
			panic("set-up deposit: " + r.String())
		}
	}
	s.firstNonce = nonces[s.Chain] + 1
	// a second chain with a bonded oracle on which nothing has ever been observed
	s.os[second] = scen.SetupOracles(w, ctx, second, []string{second + "-o1"}, []int64{10000})
	// short timeouts: 2 external blocks for batches and bridge calls; no projection for small fxcore height differences
	scen.SetParams(w, ctx, s.Chain, func(p *cctypes.Params) {
		p.AverageExternalBlockTime = 1_800_000
		p.ExternalBatchTimeout = 3_600_000
		p.BridgeCallTimeout = 3_600_001
		p.AverageBlockTime = 5_000
	})
	m := &Model{Height: extHeight0, Events: nil, Relayed: 0, BatchDone: map[string]uint64{}, CallDone: map[uint64]bool{}, ExtTx: map[uint64]bool{}, ExtCall: map[uint64]bool{}, KBatches: map[uint64]*KBatch{}, KCalls: map[uint64]uint64{},
		RefundTx: map[uint64]bool{}, RefundCall: map[uint64]bool{}, MaxObserved: extHeight0}
	if s.TwoCalls {
		k := scen.Keeper(w, s.Chain)
		for n := uint64(1); n <= 2; n++ {
			w.MustDeliver(ctx, &cctypes.MsgBridgeCall{ChainName: s.Chain, Sender: w.A("u1").Bech(), Refund: w.A("u1").Bech(), Coins: sdk.NewCoins(sdk.NewInt64Coin("FX", 2)), To: scen.ExtAddr(s.Chain, "callee"), Data: "01", Value: sdkmath.ZeroInt()})
			oc, ok := k.GetOutgoingBridgeCallByNonce(ctx, n)
			if !ok {
				panic("c06 set-up: outgoing bridge call missing")
			}
			m.KCalls[n] = oc.Timeout
		}
	}
	return &explore.State{W: w, Ctx: ctx, Model: m}
}

func sig(x string) string { return "C06/" + x }

type open struct {
	batches map[uint64]uint64 // nonce -> timeout
	calls   map[uint64]uint64
	pool    map[uint64]bool
}

func (s *Spec) snapshot(ctx sdk.Context) open {
	k := scen.Keeper(s.w, s.Chain)
	o := open{batches: map[uint64]uint64{}, calls: map[uint64]uint64{}, pool: map[uint64]bool{}}
	for _, b := range k.GetOutgoingTxBatches(ctx) {
		o.batches[b.BatchNonce] = b.BatchTimeout
	}
	k.IterateOutgoingBridgeCalls(ctx, func(c *cctypes.OutgoingBridgeCall) bool { o.calls[c.Nonce] = c.Timeout; return false })
	for _, tx := range k.GetUnbatchedTransactions(ctx) {
		o.pool[tx.Id] = true
	}
	return o
}

// wrap runs f and then applies the release oracle: anything that left the open set without being settled by its own
// execution event must have been released in the handling of an observed event whose external height >= its timeout.
func (s *Spec) wrap(name string, relayed *Event, f func(c *explore.State)) explore.Op {
	return explore.Op{Name: name, Run: func(c *explore.State) {
		before := s.snapshot(c.Ctx)
		f(c)
		after := s.snapshot(c.Ctx)
		m := c.Model.(*Model)
		for n, to := range before.batches {
			if _, still := after.batches[n]; still {
				continue
			}
			switch {
			case relayed != nil && relayed.Kind == "batch" && relayed.N == n: // executed
			case relayed != nil && relayed.Kind == "batch" && relayed.N > n && m.KBatches[n] != nil && relayed.Tok == m.KBatches[n].Tok: // superseded: the contract's per-token nonce rule forbids it for ever
			case relayed != nil && relayed.Height >= to: // timed out, proven by an observed event
			case relayed != nil:
				c.Violate("release-only-after-observed-timeout", sig("batch-released-before-its-timeout-was-observed"), fmt.Sprintf("%s: batch %d (timeout %d) cancelled while handling an event at external height %d", name, n, to, relayed.Height))
			default:
				c.Violate("release-only-in-event-handling", sig("batch-released-outside-event-handling"), fmt.Sprintf("%s removed batch %d (timeout %d); last observed external height %d", name, n, to, m.MaxObserved))
			}
		}
		for n, to := range before.calls {
			if _, still := after.calls[n]; still {
				continue
			}
			switch {
			case relayed != nil && relayed.Kind == "call" && relayed.N == n:
			case relayed != nil && relayed.Height >= to:
				m.RefundCall[n] = true
			case relayed != nil:
				m.RefundCall[n] = true
				c.Violate("release-only-after-observed-timeout", sig("bridge-call-refunded-before-its-timeout-was-observed"), fmt.Sprintf("%s: bridge call %d (timeout %d) refunded while handling an event at external height %d", name, n, to, relayed.Height))
			default:
				m.RefundCall[n] = true
				c.Violate("release-only-in-event-handling", sig("bridge-call-released-outside-event-handling"), fmt.Sprintf("%s removed bridge call %d (timeout %d)", name, n, to))
			}
		}
		// (iii) never both executed externally and refunded here
		for id := range m.RefundTx {
			if m.ExtTx[id] {
				c.Violate("never-executed-and-refunded", sig("transfer-executed-externally-and-refunded"), fmt.Sprintf("transfer %d", id))
			}
		}
		for n := range m.RefundCall {
			if m.ExtCall[n] {
				c.Violate("never-executed-and-refunded", sig("bridge-call-executed-externally-and-refunded"), fmt.Sprintf("bridge call %d", n))
			}
		}
	}}
}

func ok(c *explore.State, b bool) {
	c.Accepted = b
	c.Outcome = map[bool]string{true: "ok", false: "rejected"}[b]
}

func (s *Spec) Ops(st *explore.State) []explore.Op {
	m := st.Model.(*Model)
	ctx := st.Ctx
	ch := s.Chain
	k := scen.Keeper(s.w, ch)
	u1 := s.w.A("u1")
	var ops []explore.Op
	// ---- fxcore side
	type tokn struct {
		name, sendDenom, batchDenom, ext string
	}
	toks := []tokn{{"FX", "FX", "FX", s.fx.Ext[ch]}}
	if s.Focus && s.TwoTokens {
		toks = append(toks, tokn{"usdt", s.usdt.Base, s.usdt.Bridge[ch], s.usdt.Ext[ch]})
	}
	if scen.LastTxPoolID(s.w, ctx, ch) < 2 && !s.TwoCalls {
		for _, t := range toks {
			t := t
			name := "Send"
			if t.name != "FX" {
				name = "Send(" + t.name + ")"
			}
			ops = append(ops, s.wrap(name, nil, func(c *explore.State) {
				r := s.w.Deliver(c.Ctx, &cctypes.MsgSendToExternal{ChainName: ch, Sender: u1.Bech(), Dest: scen.ExtAddr(ch, "u1-ext"), Amount: sdk.NewInt64Coin(t.sendDenom, 2), BridgeFee: sdk.NewInt64Coin(t.sendDenom, 1)})
				ok(c, r.OK())
			}))
		}
	}
	if len(k.GetUnbatchedTransactions(ctx)) > 0 {
		for _, t := range toks {
			t := t
			has := false
			for _, tx := range k.GetUnbatchedTransactions(ctx) {
				if tx.Token.Contract == t.ext {
					has = true
				}
			}
			if !has {
				continue
			}
			name := "RequestBatch"
			if t.name != "FX" {
				name = "RequestBatch(" + t.name + ")"
			}
			ops = append(ops, s.wrap(name, nil, func(c *explore.State) {
				r := s.w.Deliver(c.Ctx, &cctypes.MsgRequestBatch{ChainName: ch, Sender: s.os[ch][0].Bridger.Bech(), Denom: t.batchDenom, MinimumFee: sdkmath.NewInt(1), FeeReceive: scen.ExtAddr(ch, "feercv"), BaseFee: sdkmath.ZeroInt()})
				ok(c, r.OK())
				if r.OK() {
					n := scen.LastBatchID(s.w, c.Ctx, ch)
					b := k.GetOutgoingTxBatch(c.Ctx, t.ext, n)
					kb := &KBatch{Nonce: n, Timeout: b.BatchTimeout, Tok: t.ext}
					for _, tx := range b.Transactions {
						kb.IDs = append(kb.IDs, tx.Id)
					}
					c.Model.(*Model).KBatches[n] = kb
				}
			}))
		}
		for _, tx := range k.GetUnbatchedTransactions(ctx) {
			if s.Focus {
				break
			}
			id := tx.Id
			ops = append(ops, s.wrap(fmt.Sprintf("Cancel(%d)", id), nil, func(c *explore.State) {
				r := s.w.Deliver(c.Ctx, &cctypes.MsgCancelSendToExternal{ChainName: ch, TransactionId: id, Sender: u1.Bech()})
				ok(c, r.OK())
				if r.OK() {
					c.Model.(*Model).RefundTx[id] = true
				}
			}))
		}
	}
	if s.Focus {
		ops = append(ops, s.wrap("Params(zeroBatchTimeout)", nil, func(c *explore.State) {
			p := k.GetParams(c.Ctx)
			if p.ExternalBatchTimeout == 60000 {
				c.Outcome = "n/a"
				return
			}
			p.ExternalBatchTimeout = 60000 // (the minimum the parameter check admits: 0 external blocks) batches built from now on time out at the projected height itself
			r := s.w.Deliver(c.Ctx, &cctypes.MsgUpdateParams{ChainName: ch, Authority: world.GovAuthority(), Params: p})
			ok(c, r.OK())
		}))
	}
	if scen.LastBridgeCallID(s.w, ctx, ch) < 2 && !s.Focus && !s.TwoCalls {
		ops = append(ops, s.wrap("BridgeCallOut", nil, func(c *explore.State) {
			r := s.w.Deliver(c.Ctx, &cctypes.MsgBridgeCall{ChainName: ch, Sender: u1.Bech(), Refund: u1.Bech(), Coins: sdk.NewCoins(sdk.NewInt64Coin("FX", 2)), To: scen.ExtAddr(ch, "callee"), Data: "01", Value: sdkmath.ZeroInt()})
			ok(c, r.OK())
			if r.OK() {
				n := scen.LastBridgeCallID(s.w, c.Ctx, ch)
				oc, _ := k.GetOutgoingBridgeCallByNonce(c.Ctx, n)
				c.Model.(*Model).KCalls[n] = oc.Timeout
			}
		}))
	}
	// (i) nothing can be built on a chain where no external height has been observed
	for other := range s.os {
		if other == ch || s.Focus || s.TwoCalls {
			continue
		}
		other := other
		// the first event of that chain is voted in by a transaction that is then thrown away (it failed later on, or
		// it was only simulated): nothing has been observed as far as the chain is concerned
		ops = append(ops, explore.Op{Name: "FirstObservationDiscarded(" + other + ")", Run: func(c *explore.State) {
			d := world.Branch(c.Ctx)
			r := scen.Vote(s.w, d, other, s.os[other][0], scen.BridgeTokenClaim(other, 1, 5000, scen.ExtAddr(other, other+"-fx-token"), "Function X", "FX", 18, ""))
			ok(c, r.OK())
			c.Outcome = "discarded"
			// ... and a bridge call on that chain is still refused (probe on a second branch that is thrown away too)
			if pr := s.w.Deliver(world.Branch(c.Ctx), &cctypes.MsgBridgeCall{ChainName: other, Sender: u1.Bech(), To: scen.ExtAddr(other, "callee"), Data: "01", Value: sdkmath.ZeroInt()}); pr.OK() {
				c.Violate("nothing-built-before-first-observation", sig("bridge-call-built-after-an-observation-that-was-not-committed"), other+": the only observation of this chain happened in an execution that was thrown away, yet a bridge call can be built")
			}
		}})
		ops = append(ops, explore.Op{Name: "BridgeCallOutUnobserved(" + other + ")", Run: func(c *explore.State) {
			r := s.w.Deliver(c.Ctx, &cctypes.MsgBridgeCall{ChainName: other, Sender: u1.Bech(), To: scen.ExtAddr(other, "callee"), Data: "01", Value: sdkmath.ZeroInt()})
			ok(c, r.OK())
			if r.OK() {
				c.Violate("nothing-built-before-first-observation", sig("bridge-call-built-before-any-external-height-observed"), other)
			}
		}})
	}
	if !s.TwoCalls {
		ops = append(ops, s.wrap("Block", nil, func(c *explore.State) {
			next, r := s.w.NextBlock(c.Ctx, 5*time.Second)
			c.Ctx = next
			ok(c, r.Err == nil && r.Panic == nil)
		}))
	}
	if s.Params {
		ops = append(ops, s.wrap("Params(fastExternalBlocks)", nil, func(c *explore.State) {
			p := k.GetParams(c.Ctx)
			if p.AverageExternalBlockTime == 100 {
				c.Outcome = "n/a"
				return
			}
			p.AverageExternalBlockTime = 100 // projection now runs ahead of the external chain
			r := s.w.Deliver(c.Ctx, &cctypes.MsgUpdateParams{ChainName: ch, Authority: world.GovAuthority(), Params: p})
			ok(c, r.OK())
		}))
	}
	// ---- external chain
	if m.Height < extHeight0+5 {
		ops = append(ops, explore.Op{Name: "ExtAdvance(1)", Run: func(c *explore.State) { c.Model.(*Model).Height++; ok(c, true) }})
		if s.TwoCalls {
			ops = append(ops, explore.Op{Name: "ExtAdvance(2)", Run: func(c *explore.State) { c.Model.(*Model).Height += 2; ok(c, true) }})
		}
	}
	if len(m.Events) < 5 {
		ops = append(ops, explore.Op{Name: "ExtDeposit", Run: func(c *explore.State) {
			cm := c.Model.(*Model)
			cm.Events = append(cm.Events, Event{Nonce: uint64(len(cm.Events)) + s.firstNonce, Height: cm.Height, Kind: "deposit"})
			ok(c, true)
		}})
	}
	var bn []uint64
	for n := range m.KBatches {
		bn = append(bn, n)
	}
	sort.Slice(bn, func(i, j int) bool { return bn[i] < bn[j] })
	for _, n := range bn {
		kb := m.KBatches[n]
		if m.Height < kb.Timeout && m.BatchDone[kb.Tok] < n { // the contract's two admission rules (last executed nonce is kept per token)
			n := n
			ops = append(ops, explore.Op{Name: fmt.Sprintf("ExtSubmitBatch(%d)", n), Run: func(c *explore.State) {
				cm := c.Model.(*Model)
				cm.BatchDone[cm.KBatches[n].Tok] = n
				for _, id := range cm.KBatches[n].IDs {
					cm.ExtTx[id] = true
				}
				cm.Events = append(cm.Events, Event{Nonce: uint64(len(cm.Events)) + s.firstNonce, Height: cm.Height, Kind: "batch", N: n, Tok: cm.KBatches[n].Tok})
				ok(c, true)
			}})
		}
	}
	var cn []uint64
	for n := range m.KCalls {
		cn = append(cn, n)
	}
	sort.Slice(cn, func(i, j int) bool { return cn[i] < cn[j] })
	for _, n := range cn {
		if m.Height < m.KCalls[n] && !m.CallDone[n] {
			n := n
			ops = append(ops, explore.Op{Name: fmt.Sprintf("ExtSubmitBridgeCall(%d)", n), Run: func(c *explore.State) {
				cm := c.Model.(*Model)
				cm.CallDone[n] = true
				cm.ExtCall[n] = true
				cm.Events = append(cm.Events, Event{Nonce: uint64(len(cm.Events)) + s.firstNonce, Height: cm.Height, Kind: "call", N: n})
				ok(c, true)
			}})
		}
	}
	// ---- relay the next external event, in order
	if m.Relayed < len(m.Events) {
		ev := m.Events[m.Relayed]
		ops = append(ops, s.wrap(fmt.Sprintf("Relay(#%d,%s,h=%d)", ev.Nonce, ev.Kind, ev.Height), &ev, func(c *explore.State) {
			cm := c.Model.(*Model)
			o := s.os[ch][0]
			var claim cctypes.ExternalClaim
			switch ev.Kind {
			case "deposit":
				claim = scen.SendToFxClaim(ch, ev.Nonce, ev.Height, s.fx.Ext[ch], 1, scen.ExtAddr(ch, "depositor"), s.w.A("u2").Acc(), "", "")
			case "batch":
				claim = &cctypes.MsgSendToExternalClaim{EventNonce: ev.Nonce, BlockHeight: ev.Height, BatchNonce: ev.N, TokenContract: ev.Tok, ChainName: ch}
			case "call":
				claim = &cctypes.MsgBridgeCallResultClaim{ChainName: ch, EventNonce: ev.Nonce, BlockHeight: ev.Height, Nonce: ev.N, TxOrigin: scen.ExtAddr(ch, "origin"), Success: true}
			}
			r := scen.Vote(s.w, c.Ctx, ch, o, claim)
			ok(c, r.OK())
			if !r.OK() {
				c.Outcome = "vote-failed"
				c.Violate("external-events-are-processable", sig("relayed-event-cannot-be-observed/"+ev.Kind+"/"+world.Site(r.String()+"\n"+r.Stack)), fmt.Sprintf("event %+v: %s\n%s", ev, r, r.Stack))
				return
			}
			cm.Relayed++
			if ev.Height > cm.MaxObserved {
				cm.MaxObserved = ev.Height
			}
			if ev.Kind != "batch" && !s.LateExec {
				er := s.w.CallABI(c.Ctx, s.w.A("rel"), cctypes.GetAddress(), cctypes.GetABI(), nil, 1_000_000, "executeClaim", ch, new(big.Int).SetUint64(ev.Nonce))
				if !er.Success() {
					c.Outcome = "execute-failed"
					c.Violate("external-events-are-processable", sig("relayed-event-cannot-be-executed/"+ev.Kind+"/"+world.Site(er.String()+"\n"+er.Stack)), fmt.Sprintf("event %+v: %s", ev, er))
				}
			}
		}))
	}
	if s.LateExec {
		for i := 0; i < m.Relayed; i++ {
			ev := m.Events[i]
			if _, parked := k.GetPendingExecuteClaim(ctx, ev.Nonce); !parked {
				continue
			}
			ops = append(ops, s.wrap(fmt.Sprintf("Exec(#%d,%s)", ev.Nonce, ev.Kind), &ev, func(c *explore.State) {
				er := s.w.CallABI(c.Ctx, s.w.A("rel"), cctypes.GetAddress(), cctypes.GetABI(), nil, 1_000_000, "executeClaim", ch, new(big.Int).SetUint64(ev.Nonce))
				ok(c, er.Success())
				if !er.Success() {
					c.Outcome = "execute-failed"
					c.Violate("external-events-are-processable", sig("parked-event-cannot-be-executed/"+ev.Kind), fmt.Sprintf("event %+v was observed and parked, its execution fails: %s", ev, er))
				}
			}))
		}
	}
	return ops
}

func (s *Spec) Check(st *explore.State) {}

func (s *Spec) Counters(st *explore.State) []string {
	m := st.Model.(*Model)
	var out []string
	if len(m.ExtTx) > 0 {
		out = append(out, "batch-executed-externally")
	}
	if len(m.ExtCall) > 0 {
		out = append(out, "call-executed-externally")
	}
	if len(m.RefundTx) > 0 {
		out = append(out, "transfer-refunded")
	}
	if len(m.RefundCall) > 0 {
		out = append(out, "call-refunded-by-timeout")
	}
	if m.Relayed > 0 {
		out = append(out, "event-relayed")
	}
	return out
}

func init() {
	registry.Register(&registry.Check{
		ID:    "C06",
		Level: "model_checking",
		Rule:  "joint explicit-state DFS of fxcore (send, request-batch, cancel, outgoing bridge call, blocks, parameter change) and a Go model of the external contract (advance height, deposit, submitBatch / submitBridgeCall under the contract's admission rules using every batch / call fxcore ever produced, in-order relay of emitted events); every batch or bridge call that leaves fxcore's open set without its own execution event must leave during the handling of an observed event whose external height >= its timeout; no transfer or call is both executed in the external model and refunded on fxcore; nothing can be built on a chain without an observed external height",
		Assumptions: []string{"external events are relayed in emission order (C01) and external heights never decrease", "timeouts shortened to 2 external blocks through MsgUpdateParams", "the external model covers the three admission rules quoted in DESIGN.md, not the whole contract"},
		Jobs: func(tier string) []registry.Job {
			if tier == "thorough" {
				return []registry.Job{
					{Name: "eth", Spec: &Spec{Chain: "eth", Params: true}, Depth: 10, ShardDepth: 2},
					{Name: "tron", Spec: &Spec{Chain: "tron"}, Depth: 9, ShardDepth: 2},
					{Name: "eth-batches-nonmonotonic-timeouts", Spec: &Spec{Chain: "eth", Focus: true}, Depth: 12, ShardDepth: 2},
					{Name: "eth-batches-two-tokens", Spec: &Spec{Chain: "eth", Focus: true, TwoTokens: true}, Depth: 10, ShardDepth: 2},
					{Name: "eth-parked-results-executed-late", Spec: &Spec{Chain: "eth", LateExec: true}, Depth: 10, ShardDepth: 2},
					{Name: "eth-two-calls-settled-out-of-order", Spec: &Spec{Chain: "eth", LateExec: true, TwoCalls: true}, Depth: 11, ShardDepth: 2},
				}
			}
			return []registry.Job{
				{Name: "eth", Spec: &Spec{Chain: "eth", Params: true}, Depth: 7, ShardDepth: 2},
				{Name: "eth-batches-nonmonotonic-timeouts", Spec: &Spec{Chain: "eth", Focus: true}, Depth: 10, ShardDepth: 2},
				{Name: "eth-batches-two-tokens", Spec: &Spec{Chain: "eth", Focus: true, TwoTokens: true}, Depth: 8, ShardDepth: 2},
				{Name: "eth-parked-results-executed-late", Spec: &Spec{Chain: "eth", LateExec: true}, Depth: 8, ShardDepth: 2},
				{Name: "eth-two-calls-settled-out-of-order", Spec: &Spec{Chain: "eth", LateExec: true, TwoCalls: true}, Depth: 9, ShardDepth: 2},
			}
		},
	})
}
