// Package c20: hostile input never crashes a node and cannot dodge the minimum fee.
package c20

import (
	"fmt"
	"math/big"
	"reflect"
	"sort"
	"strings"
	"time"

	sdkmath "cosmossdk.io/math"
	abci "github.com/cometbft/cometbft/abci/types"
	codectypes "github.com/cosmos/cosmos-sdk/codec/types"
	sdk "github.com/cosmos/cosmos-sdk/types"
	banktypes "github.com/cosmos/cosmos-sdk/x/bank/types"
	distrtypes "github.com/cosmos/cosmos-sdk/x/distribution/types"
	stakingtypes "github.com/cosmos/cosmos-sdk/x/staking/types"
	"github.com/cosmos/gogoproto/proto"
	"github.com/ethereum/go-ethereum/accounts/abi"
	"github.com/ethereum/go-ethereum/common"

	fxtypes "github.com/functionx/fx-core/v8/types"
	cctypes "github.com/functionx/fx-core/v8/x/crosschain/types"
	erc20types "github.com/functionx/fx-core/v8/x/erc20/types"
	fxevmtypes "github.com/functionx/fx-core/v8/x/evm/types"
	fxgovtypes "github.com/functionx/fx-core/v8/x/gov/types"
	migratetypes "github.com/functionx/fx-core/v8/x/migrate/types"
	fxstakingtypes "github.com/functionx/fx-core/v8/x/staking/types"

	"fxmc/explore"
	"fxmc/props/registry"
	"fxmc/scen"
	"fxmc/world"
)

type rec struct{ res *explore.Result }

func (r *rec) viol(sig, oracle, detail string, path ...string) {
	r.res.ViolationCounts[sig]++
	for _, v := range r.res.Violations {
		if v.Signature == sig {
			return
		}
	}
	r.res.Violations = append(r.res.Violations, explore.Violation{Oracle: oracle, Signature: sig, Detail: detail, Path: path})
}

// corpus returns one valid instance of every fx-core message type (and the claim / confirm payload types).
func corpus(w *world.World) []sdk.Msg {
	ch := "eth"
	u1, u2 := w.A("u1"), w.A("u2")
	ext := func(l string) string { return scen.ExtAddr(ch, l) }
	o := scen.NewOracle(ch, "o1")
	claims := scen.SampleClaims(ch, 2, ext("tok"), u1.Acc(), o.ExtAddr)
	var out []sdk.Msg
	for _, t := range scen.ClaimTypes {
		c := scen.WithBridger(claims[t], o.Bridger.Bech())
		out = append(out, c.(sdk.Msg), scen.WrapClaim(ch, o.Bridger.Bech(), c))
	}
	sig := strings.Repeat("ab", 65)
	confirms := []cctypes.Confirm{
		&cctypes.MsgOracleSetConfirm{ChainName: ch, Nonce: 1, BridgerAddress: o.Bridger.Bech(), ExternalAddress: o.ExtAddr, Signature: sig},
		&cctypes.MsgConfirmBatch{ChainName: ch, Nonce: 1, TokenContract: ext("tok"), BridgerAddress: o.Bridger.Bech(), ExternalAddress: o.ExtAddr, Signature: sig},
		&cctypes.MsgBridgeCallConfirm{ChainName: ch, Nonce: 1, BridgerAddress: o.Bridger.Bech(), ExternalAddress: o.ExtAddr, Signature: sig},
	}
	for _, c := range confirms {
		out = append(out, c.(sdk.Msg), scen.WrapConfirm(ch, o.Bridger.Bech(), c))
	}
	p := cctypes.DefaultParams()
	day := 24 * time.Hour
	out = append(out,
		scen.BondMsg(ch, o, w.Vals[0].ValAddr(), world.FX(10000)),
		&cctypes.MsgAddDelegate{ChainName: ch, OracleAddress: o.Acct.Bech(), Amount: cctypes.NewDelegateAmount(world.FX(1))},
		&cctypes.MsgReDelegate{ChainName: ch, OracleAddress: o.Acct.Bech(), ValidatorAddress: w.Vals[1].ValAddr().String()},
		&cctypes.MsgEditBridger{ChainName: ch, OracleAddress: o.Acct.Bech(), BridgerAddress: u2.Bech()},
		&cctypes.MsgWithdrawReward{ChainName: ch, OracleAddress: o.Acct.Bech()},
		&cctypes.MsgUnbondedOracle{ChainName: ch, OracleAddress: o.Acct.Bech()},
		&cctypes.MsgSendToExternal{ChainName: ch, Sender: u1.Bech(), Dest: ext("d"), Amount: sdk.NewInt64Coin("FX", 2), BridgeFee: sdk.NewInt64Coin("FX", 1)},
		&cctypes.MsgCancelSendToExternal{ChainName: ch, TransactionId: 1, Sender: u1.Bech()},
		&cctypes.MsgIncreaseBridgeFee{ChainName: ch, TransactionId: 1, Sender: u1.Bech(), AddBridgeFee: sdk.NewInt64Coin("FX", 1)},
		&cctypes.MsgRequestBatch{ChainName: ch, Sender: u1.Bech(), Denom: "FX", MinimumFee: sdkmath.NewInt(1), FeeReceive: ext("f"), BaseFee: sdkmath.ZeroInt()},
		&cctypes.MsgBridgeCall{ChainName: ch, Sender: u1.Bech(), Refund: u1.Bech(), Coins: sdk.NewCoins(sdk.NewInt64Coin("FX", 1)), To: ext("c"), Data: "01", Value: sdkmath.ZeroInt(), Memo: "02"},
		&cctypes.MsgUpdateParams{ChainName: ch, Authority: world.GovAuthority(), Params: p},
		&cctypes.MsgUpdateChainOracles{ChainName: ch, Authority: world.GovAuthority(), Oracles: []string{u1.Bech()}},
		&erc20types.MsgConvertCoin{Coin: sdk.NewInt64Coin("FX", 1), Receiver: u1.Hex().String(), Sender: u1.Bech()},
		&erc20types.MsgConvertERC20{ContractAddress: u2.Hex().String(), Amount: sdkmath.NewInt(1), Receiver: u1.Bech(), Sender: u1.Hex().String()},
		&erc20types.MsgConvertDenom{Sender: u1.Bech(), Receiver: u2.Bech(), Coin: sdk.NewInt64Coin("usdt", 1), Target: "eth"},
		&erc20types.MsgUpdateParams{Authority: world.GovAuthority(), Params: erc20types.DefaultParams()},
		&erc20types.MsgRegisterCoin{Authority: world.GovAuthority(), Metadata: fxtypes.GetCrossChainMetadataManyToOne("Dai", "DAI", 18, "eth"+ext("dai"))},
		&erc20types.MsgRegisterERC20{Authority: world.GovAuthority(), Erc20Address: u2.Hex().String(), Aliases: []string{"eth" + ext("x")}},
		&erc20types.MsgToggleTokenConversion{Authority: world.GovAuthority(), Token: "FX"},
		&erc20types.MsgUpdateDenomAlias{Authority: world.GovAuthority(), Denom: "FX", Alias: "bsc" + ext("y")},
		&fxevmtypes.MsgCallContract{Authority: world.GovAuthority(), ContractAddress: u2.Hex().String(), Data: "00"},
		&fxgovtypes.MsgUpdateStore{Authority: world.GovAuthority(), UpdateStores: []fxgovtypes.UpdateStore{{Space: "eth", Key: "aa", OldValue: "", Value: "bb"}}},
		&fxgovtypes.MsgUpdateSwitchParams{Authority: world.GovAuthority(), Params: fxgovtypes.SwitchParams{DisablePrecompiles: []string{u2.Hex().String()}}},
		&fxgovtypes.MsgUpdateCustomParams{Authority: world.GovAuthority(), MsgUrl: "/a.b.C", CustomParams: fxgovtypes.CustomParams{DepositRatio: "0.1", VotingPeriod: &day, Quorum: "0.3"}},
		migratetypes.NewMsgMigrateAccount(u1.Acc(), u2.Hex(), strings.Repeat("cd", 65)),
	)
	return out
}

var hostileStrings = []string{"", "fx1qqqqqqqqqqqqqqqqqqqqqqqqqqqqqqqqfn322v", "cosmos1qqqqqqqqqqqqqqqqqqqqqqqqqqqqqqqqnrql8a", "0x", "0xZZ", "zz", strings.Repeat("f", 5000), "0x0000000000000000000000000000000000000000", "\x00\xff", "T9yD14Nj9j7xAB4dbGeiX9h8unkKHxuWwb", "eth", "FX"}

// deviations of one field value by kind
func domain(f reflect.Value) []reflect.Value {
	var out []reflect.Value
	switch v := f.Interface().(type) {
	case string:
		for _, s := range hostileStrings {
			out = append(out, reflect.ValueOf(s))
		}
	case uint64:
		out = append(out, reflect.ValueOf(uint64(0)), reflect.ValueOf(^uint64(0)))
	case bool:
		out = append(out, reflect.ValueOf(!v))
	case sdkmath.Int:
		huge := sdkmath.NewIntFromBigInt(new(big.Int).Lsh(big.NewInt(1), 255))
		out = append(out, reflect.ValueOf(sdkmath.Int{}), reflect.ValueOf(sdkmath.NewInt(-1)), reflect.ValueOf(sdkmath.ZeroInt()), reflect.ValueOf(huge))
	case sdk.Coin:
		out = append(out, reflect.ValueOf(sdk.Coin{}), reflect.ValueOf(sdk.Coin{Denom: "FX"}), reflect.ValueOf(sdk.Coin{Denom: "", Amount: sdkmath.NewInt(1)}), reflect.ValueOf(sdk.Coin{Denom: "FX", Amount: sdkmath.NewInt(-5)}), reflect.ValueOf(sdk.Coin{Denom: "!!", Amount: sdkmath.NewInt(1)}))
	case sdk.Coins:
		out = append(out, reflect.ValueOf(sdk.Coins{}), reflect.ValueOf(sdk.Coins{sdk.Coin{}}), reflect.ValueOf(sdk.Coins{sdk.Coin{Denom: "FX", Amount: sdkmath.NewInt(-1)}}), reflect.ValueOf(sdk.Coins{sdk.Coin{Denom: "bbb", Amount: sdkmath.NewInt(1)}, sdk.Coin{Denom: "aaa", Amount: sdkmath.NewInt(1)}}))
	case []string:
		out = append(out, reflect.ValueOf([]string(nil)), reflect.ValueOf([]string{""}), reflect.ValueOf([]string{"x", "x"}), reflect.ValueOf([]string{strings.Repeat("q", 3000)}))
	case []sdkmath.Int:
		out = append(out, reflect.ValueOf([]sdkmath.Int(nil)), reflect.ValueOf([]sdkmath.Int{{}}), reflect.ValueOf([]sdkmath.Int{sdkmath.NewInt(-1)}), reflect.ValueOf([]sdkmath.Int{sdkmath.NewInt(1), sdkmath.NewInt(2), sdkmath.NewInt(3)}))
	case *codectypes.Any:
		bad, _ := codectypes.NewAnyWithValue(&banktypes.MsgSend{})
		out = append(out, reflect.ValueOf((*codectypes.Any)(nil)), reflect.ValueOf(bad), reflect.ValueOf(&codectypes.Any{TypeUrl: "/nope", Value: []byte{1, 2, 3}}))
	case []cctypes.BridgeValidator:
		out = append(out, reflect.ValueOf([]cctypes.BridgeValidator(nil)), reflect.ValueOf([]cctypes.BridgeValidator{{}}), reflect.ValueOf([]cctypes.BridgeValidator{{Power: ^uint64(0), ExternalAddress: "zz"}}))
	}
	return out
}

func shallow(m sdk.Msg) reflect.Value {
	c := reflect.New(reflect.TypeOf(m).Elem())
	c.Elem().Set(reflect.ValueOf(m).Elem())
	return c
}

func settable(v reflect.Value) []int {
	var idx []int
	for i := 0; i < v.NumField(); i++ {
		if v.Field(i).CanSet() && !strings.HasPrefix(v.Type().Field(i).Name, "XXX_") && len(domain(v.Field(i))) > 0 {
			idx = append(idx, i)
		}
	}
	return idx
}

// exercise runs the public stateless entry points on msg; returns a panic description or "".
func exercise(w *world.World, m sdk.Msg) (panicked string) {
	defer func() {
		if r := recover(); r != nil {
			panicked = fmt.Sprint(r)
		}
	}()
	if vb, ok := m.(sdk.HasValidateBasic); ok {
		_ = vb.ValidateBasic()
	}
	_, _, _ = w.App.AppCodec().GetMsgV1Signers(m)
	return ""
}

func (r *rec) messages(w *world.World, maxDev int) {
	distinct := map[string]bool{}
	for _, base := range corpus(w) {
		url := sdk.MsgTypeURL(base)
		if p := exercise(w, base); p != "" {
			r.viol("C20/stateless-validation-panics/"+url, "never-panics", "baseline: "+p, url)
		}
		if vb, ok := base.(sdk.HasValidateBasic); ok {
			if err := vb.ValidateBasic(); err != nil {
				r.res.Counters["baseline-not-valid"]++
			}
		}
		fields := settable(shallow(base).Elem())
		single := map[string]bool{} // fields whose deviation alone already panics (reported once, minimal)
		var rec func(start int, cur reflect.Value, desc []string, depth int)
		rec = func(start int, cur reflect.Value, desc []string, depth int) {
			if depth > 0 {
				m := cur.Interface().(sdk.Msg)
				r.res.Extra["evaluations"]++
				if p := exercise(w, m); p != "" {
					var names []string
					covered := false
					for _, d := range desc {
						n := strings.SplitN(d, "=", 2)[0]
						names = append(names, n)
						if depth > 1 && single[d] {
							covered = true
						}
					}
					if depth == 1 {
						single[desc[0]] = true
					}
					if covered {
						distinct[url+strings.Join(desc, "|")] = true
						return
					}
					r.viol(fmt.Sprintf("C20/stateless-validation-panics/%s/%s", url, strings.Join(names, "+")), "never-panics", fmt.Sprintf("%s with %v: %s", url, desc, p), append([]string{url}, desc...)...)
				}
				distinct[url+strings.Join(desc, "|")] = true
			}
			if depth == maxDev {
				return
			}
			for fi := start; fi < len(fields); fi++ {
				f := fields[fi]
				for _, dv := range domain(cur.Elem().Field(f)) {
					next := reflect.New(cur.Elem().Type())
					next.Elem().Set(cur.Elem())
					next.Elem().Field(f).Set(dv)
					rec(fi+1, next, append(append([]string{}, desc...), fmt.Sprintf("%s=%.40q", cur.Elem().Type().Field(f).Name, fmt.Sprint(dv.Interface()))), depth+1)
				}
			}
		}
		full := maxDev
		maxDev = 1
		rec(0, shallow(base), nil, 0)
		maxDev = full
		rec(0, shallow(base), nil, 0)
		// every truncation of the wire bytes, decoded through the app's codec and validated
		bz, err := proto.Marshal(base.(proto.Message))
		if err == nil {
			for n := 0; n <= len(bz); n++ {
				func() {
					defer func() {
						if x := recover(); x != nil {
							r.viol("C20/decoding-truncated-bytes-panics/"+url, "never-panics", fmt.Sprintf("%s truncated to %d of %d bytes: %v", url, n, len(bz), x), url, fmt.Sprint("prefix ", n))
						}
					}()
					r.res.Extra["evaluations"]++
					var m sdk.Msg
					if err := w.App.AppCodec().UnpackAny(&codectypes.Any{TypeUrl: url, Value: bz[:n]}, &m); err == nil && m != nil {
						if p := exercise(w, m); p != "" {
							r.viol("C20/stateless-validation-panics-on-truncated-bytes/"+url, "never-panics", fmt.Sprintf("%s truncated to %d bytes: %s", url, n, p), url)
						}
					}
				}()
			}
		}
		r.res.Counters["message-types"]++
	}
	r.res.Extra["distinct_nontrivial"] += float64(len(distinct))
}

// ---------------------------------------------------------------- ante / CheckTx with hostile but decodable transactions

func (r *rec) ante(w *world.World) {
	u1 := w.A("u1")
	ctx := w.Committed()
	for _, base := range corpus(w) {
		url := sdk.MsgTypeURL(base)
		fields := settable(shallow(base).Elem())
		variants := []sdk.Msg{base}
		for _, f := range fields {
			for _, dv := range domain(shallow(base).Elem().Field(f)) {
				next := shallow(base)
				next.Elem().Field(f).Set(dv)
				variants = append(variants, next.Interface().(sdk.Msg))
			}
		}
		for _, m := range variants {
			var tx []byte
			var err error
			func() {
				defer func() {
					if x := recover(); x != nil {
						err = fmt.Errorf("encode panic: %v", x)
					}
				}()
				// signed by the account the message names as its signer when that is one of the harness's actors
				// (so that the transaction gets past signature verification and deeper into the ante chain)
				signer := u1
				if sg, _, e := w.App.AppCodec().GetMsgV1Signers(m); e == nil && len(sg) > 0 {
					for _, a := range w.Actors {
						if string(a.Acc()) == string(sg[0]) {
							signer = a
						}
					}
				}
				tx, err = w.SignTx(ctx, signer, 500000, nil, 0, m)
			}()
			if err != nil {
				r.res.Outcomes["ante/not-encodable"]++
				continue
			}
			func() {
				defer func() {
					if x := recover(); x != nil {
						r.viol("C20/check-tx-panics/"+url, "never-panics", fmt.Sprintf("%s: %v", url, x), url)
					}
				}()
				resp, cerr := w.App.CheckTx(&abci.RequestCheckTx{Tx: tx, Type: abci.CheckTxType_New})
				r.res.Extra["evaluations"]++
				if cerr != nil {
					r.res.Outcomes["ante/error"]++
					return
				}
				r.res.Outcomes[fmt.Sprintf("ante/code=%d", resp.Code)]++
				if resp.Code == 111222 || strings.Contains(resp.Log, "panic") {
					r.viol("C20/ante-handler-panics/"+url, "never-panics", fmt.Sprintf("%s: recovered panic in CheckTx: %.300s", url, resp.Log), url)
				}
			}()
		}
	}
}

// ---------------------------------------------------------------- precompile argument decoding

func (r *rec) precompiles(w *world.World, ctx sdk.Context) {
	u1 := w.A("u1")
	var target [32]byte
	copy(target[:], "eth")
	type pc struct {
		addr common.Address
		abi  abi.ABI
		args map[string][]interface{}
	}
	val := w.Vals[0].ValAddr().String()
	e18 := new(big.Int).Mul(big.NewInt(1), big.NewInt(1e18))
	pcs := []pc{
		{fxstakingtypes.GetAddress(), fxstakingtypes.GetABI(), map[string][]interface{}{
			"allowanceShares": {val, u1.Hex(), u1.Hex()}, "approveShares": {val, u1.Hex(), e18}, "delegateV2": {val, e18}, "delegation": {val, u1.Hex()}, "delegationRewards": {val, u1.Hex()},
			"redelegateV2": {val, w.Vals[1].ValAddr().String(), e18}, "slashingInfo": {val}, "transferFromShares": {val, u1.Hex(), u1.Hex(), e18}, "transferShares": {val, u1.Hex(), e18},
			"undelegateV2": {val, e18}, "validatorList": {uint8(0)}, "withdraw": {val}}},
		{cctypes.GetAddress(), cctypes.GetABI(), map[string][]interface{}{
			"bridgeCall": {"eth", u1.Hex(), []common.Address{u1.Hex()}, []*big.Int{big.NewInt(1)}, u1.Hex(), []byte{1, 2}, big.NewInt(0), []byte{3}}, "bridgeCoinAmount": {u1.Hex(), target},
			"cancelSendToExternal": {"eth", big.NewInt(1)}, "crossChain": {u1.Hex(), "0x0000000000000000000000000000000000000001", big.NewInt(1), big.NewInt(1), target, "memo"},
			"executeClaim": {"eth", big.NewInt(1)}, "hasOracle": {"eth", u1.Hex()}, "increaseBridgeFee": {"eth", big.NewInt(1), u1.Hex(), big.NewInt(1)}, "isOracleOnline": {"eth", u1.Hex()}}},
	}
	words := [][]byte{make([]byte, 32), common.LeftPadBytes([]byte{0x20}, 32), common.LeftPadBytes([]byte{0xff, 0xff, 0xff, 0xff}, 32), bytesOf(0xff, 32), append([]byte{0x80}, make([]byte, 31)...), common.LeftPadBytes([]byte{0x01, 0x00, 0x00}, 32)}
	call := func(name, what string, to common.Address, data []byte) {
		c := world.Branch(ctx)
		res := w.EthTx(c, u1, &to, data, nil, 2_000_000)
		r.res.Extra["evaluations"]++
		r.res.Transitions++
		if res.Panic != nil {
			r.viol("C20/precompile-panics/"+name, "never-panics", fmt.Sprintf("%s %s: %v\n%s", name, what, res.Panic, res.Stack), name, what)
		}
	}
	for _, p := range pcs {
		var names []string
		for n := range p.abi.Methods {
			names = append(names, n)
		}
		sort.Strings(names)
		for _, n := range names {
			args, ok := p.args[n]
			if !ok {
				r.viol("C20/harness/no-baseline-arguments/"+n, "harness", "a precompile method without baseline arguments", n)
				continue
			}
			data, err := p.abi.Pack(n, args...)
			if err != nil {
				panic(fmt.Sprintf("pack %s: %v", n, err))
			}
			r.res.Counters["precompile-methods"]++
			// every prefix of the calldata
			for i := 0; i <= len(data); i++ {
				call(n, fmt.Sprintf("calldata truncated to %d bytes", i), p.addr, data[:i])
			}
			// every text argument (chain names, memos) and every bytes32 target replaced by each name a chain or target has
			// ever gone by, and by the hostile strings - packed properly, so that the method body is reached
			texts := append([]string{"gravity", "chain/gravity", "chain/eth", "chain/bsc", "chain/tron", "chain/foo", "module/evm", "erc20", "ibc/0/px", "px/transfer/channel-0", "foo", "ETH", "eth ", "tron", "bsc", "layer2"}, hostileStrings...)
			for i, in := range p.abi.Methods[n].Inputs {
				kind := in.Type.String()
				if kind != "string" && kind != "bytes32" {
					continue
				}
				for _, t := range texts {
					alt := append([]interface{}{}, args...)
					if kind == "string" {
						alt[i] = t
					} else {
						var b [32]byte
						copy(b[:], t)
						alt[i] = b
					}
					d, err := p.abi.Pack(n, alt...)
					if err != nil {
						continue
					}
					call(n, fmt.Sprintf("argument %d (%s) := %.40q", i, in.Name, t), p.addr, d)
				}
			}
			// every <=2-word deviation of the argument words
			nw := (len(data) - 4) / 32
			for i := 0; i < nw; i++ {
				for _, w1 := range words {
					d1 := append([]byte{}, data...)
					copy(d1[4+32*i:], w1)
					call(n, fmt.Sprintf("word %d := %x", i, w1[:4]), p.addr, d1)
					if nw <= 8 {
						for j := i + 1; j < nw; j++ {
							for _, w2 := range words[:4] {
								d2 := append([]byte{}, d1...)
								copy(d2[4+32*j:], w2)
								call(n, fmt.Sprintf("word %d := %x, word %d := %x", i, w1[:4], j, w2[:4]), p.addr, d2)
							}
						}
					}
				}
			}
		}
		// unknown selector, short selector
		call("unknown-selector", "", p.addr, []byte{0xde, 0xad, 0xbe, 0xef})
		call("short-selector", "", p.addr, []byte{0xde, 0xad})
	}
	// stand-alone parsers over the hostile strings
	for _, s := range append(hostileStrings, "px/transfer/channel-0", "ibc/", "//", "px//", strings.Repeat("/", 50), "0x/transfer/channel-1") {
		func() {
			defer func() {
				if x := recover(); x != nil {
					r.viol("C20/parser-panics", "never-panics", fmt.Sprintf("input %.60q: %v", s, x), s)
				}
			}()
			r.res.Extra["evaluations"]++
			_ = fxtypes.ParseFxTarget(s)
			_ = fxtypes.ParseFxTarget(s, true)
			for _, ch := range scen.AllChains {
				_ = cctypes.ValidateExternalAddr(ch, s)
			}
			_ = cctypes.ValidateExternalAddr(s, "0x0000000000000000000000000000000000000001")
		}()
	}
}

func bytesOf(b byte, n int) []byte {
	out := make([]byte, n)
	for i := range out {
		out[i] = b
	}
	return out
}

// ---------------------------------------------------------------- fee rule through real CheckTx

func (r *rec) fees() {
	const allow = 100_000
	price := int64(4_000_000_000_000) // per gas, in FX base units
	e1, e2 := sdk.MsgTypeURL(&banktypes.MsgSend{}), sdk.MsgTypeURL(&distrtypes.MsgSetWithdrawAddress{})
	configs := map[string][]string{"two-exempt-types": {e1, e2}, "one-exempt-type": {e1}, "none-exempt": {}}
	var cn []string
	for k := range configs {
		cn = append(cn, k)
	}
	sort.Strings(cn)
	for _, cname := range cn {
		exempt := configs[cname]
		w := world.New(world.Config{Validators: 2, Actors: []string{"bank", "u1", "u2"}, MinGasPrices: fmt.Sprintf("%dFX", price), BypassTypes: exempt, BypassGas: allow})
		// the sender also owns a coin the node quotes no price for (a fee may name any denomination the payer holds)
		if _, err := w.RealBlock(func(c sdk.Context) {
			other := sdk.NewCoins(sdk.NewInt64Coin("othertoken", 1000))
			if err := w.App.BankKeeper.MintCoins(c, "mint", other); err != nil {
				panic(err)
			}
			if err := w.App.BankKeeper.SendCoinsFromModuleToAccount(c, "mint", w.A("u1").Acc(), other); err != nil {
				panic(err)
			}
		}, nil, world.BlockTime); err != nil {
			panic(err)
		}
		ctx := w.Committed()
		u1, u2 := w.A("u1"), w.A("u2")
		mk := map[string]func() sdk.Msg{
			"E1": func() sdk.Msg { return banktypes.NewMsgSend(u1.Acc(), u2.Acc(), sdk.NewCoins(sdk.NewInt64Coin("FX", 1))) },
			"E2": func() sdk.Msg { return distrtypes.NewMsgSetWithdrawAddress(u1.Acc(), u2.Acc()) },
			"N":  func() sdk.Msg { return stakingtypes.NewMsgDelegate(u1.Bech(), w.Vals[0].ValAddr().String(), sdk.NewInt64Coin("FX", 1)) },
		}
		isExempt := func(k string) bool {
			u := sdk.MsgTypeURL(mk[k]())
			for _, e := range exempt {
				if e == u {
					return true
				}
			}
			return false
		}
		seq := uint64(0) // CheckTx keeps its own sequence: it advances with every admitted transaction
		kinds := []string{"E1", "E2", "N"}
		var lists [][]string
		for _, a := range kinds {
			lists = append(lists, []string{a})
			for _, b := range kinds {
				lists = append(lists, []string{a, b})
				for _, c := range kinds {
					lists = append(lists, []string{a, b, c})
				}
			}
		}
		for _, l := range lists {
			n := uint64(len(l))
			for _, gas := range []uint64{n*allow - 1, n * allow, n*allow + 1, 5_000_000} {
				required := new(big.Int).Mul(big.NewInt(price), new(big.Int).SetUint64(gas))
				for _, fk := range []string{"zero", "just-below", "equal", "above", "other-denom-only", "just-below+other-denom", "equal+other-denom"} {
					var fee sdk.Coins
					switch fk {
					case "other-denom-only":
						fee = sdk.NewCoins(sdk.NewInt64Coin("othertoken", 1))
					case "just-below+other-denom":
						fee = sdk.NewCoins(sdk.NewCoin("FX", sdkmath.NewIntFromBigInt(new(big.Int).Sub(required, big.NewInt(1)))), sdk.NewInt64Coin("othertoken", 1))
					case "equal+other-denom":
						fee = sdk.NewCoins(sdk.NewCoin("FX", sdkmath.NewIntFromBigInt(required)), sdk.NewInt64Coin("othertoken", 1))
					case "just-below":
						fee = sdk.NewCoins(sdk.NewCoin("FX", sdkmath.NewIntFromBigInt(new(big.Int).Sub(required, big.NewInt(1)))))
					case "equal":
						fee = sdk.NewCoins(sdk.NewCoin("FX", sdkmath.NewIntFromBigInt(required)))
					case "above":
						fee = sdk.NewCoins(sdk.NewCoin("FX", sdkmath.NewIntFromBigInt(new(big.Int).Add(required, big.NewInt(1)))))
					}
					var msgs []sdk.Msg
					all := true
					for _, k := range l {
						msgs = append(msgs, mk[k]())
						all = all && isExempt(k)
					}
					tx, err := w.SignTx(ctx, u1, gas, fee, seq, msgs...)
					if err != nil {
						panic(err)
					}
					resp, cerr := w.App.CheckTx(&abci.RequestCheckTx{Tx: tx, Type: abci.CheckTxType_New})
					if cerr == nil && resp.Code == 0 {
						seq++
					}
					r.res.Extra["evaluations"]++
					r.res.Transitions++
					if cerr != nil {
						panic(cerr)
					}
					// independent specification of the rule
					paysEnough := fk == "equal" || fk == "above" || fk == "equal+other-denom"
					mayBypass := all && gas <= n*allow
					name := fmt.Sprintf("%s msgs=%v gas=%d fee=%s", cname, l, gas, fk)
					r.res.Outcomes[fmt.Sprintf("fee/%s/code=%d", map[bool]string{true: "may-enter", false: "must-be-refused"}[paysEnough || mayBypass], resp.Code)]++
					if !paysEnough && !mayBypass && resp.Code == 0 {
						r.viol("C20/below-minimum-fee-admitted-to-mempool", "minimum-fee-rule", fmt.Sprintf("%s was accepted by CheckTx (all messages exempt: %v, gas within allowance: %v)", name, all, gas <= n*allow), name)
					}
					if (paysEnough || mayBypass) && resp.Code == 13 {
						r.viol("C20/fee-rule-refuses-exempt-or-paying-transaction", "minimum-fee-rule", fmt.Sprintf("%s refused for insufficient fee: %s", name, resp.Log), name)
					}
					if len(r.res.Samples) < 6 && resp.Code == 0 && !paysEnough {
						r.res.Samples = append(r.res.Samples, []string{name, "admitted below the minimum price (exempt)"})
					}
				}
			}
		}
	}
}

func run(thorough bool) func(shard, shards int, deadline time.Time) *explore.Result {
	return func(shard, shards int, deadline time.Time) *explore.Result {
		start := time.Now()
		res := &explore.Result{Spec: "c20", Outcomes: map[string]int{}, Counters: map[string]int{}, ViolationCounts: map[string]int{}, Exhaustive: true, DeterminismOK: true, Extra: map[string]float64{}}
		r := &rec{res}
		switch shard {
		case 0:
			w := world.New(world.Config{Validators: 2, Actors: []string{"bank", "u1", "u2"}})
			r.messages(w, 2)
		case 1:
			w := world.New(world.Config{Validators: 2, Actors: []string{"bank", "u1", "u2"}})
			if _, err := w.RealBlock(nil, nil, world.BlockTime); err != nil {
				panic(err)
			}
			r.ante(w)
		case 2:
			w := world.New(world.Config{Validators: 2, Actors: []string{"bank", "u1", "u2"}})
			r.precompiles(w, w.Root)
		case 3:
			r.fees()
		}
		res.States = int(res.Extra["distinct_nontrivial"]) + len(res.Outcomes)
		res.Extra["distinct_nontrivial"] += float64(len(res.Outcomes))
		res.WallS = time.Since(start).Seconds()
		return res
	}
}

func init() {
	registry.Register(&registry.Check{
		ID:    "C20",
		Level: "exploration",
		Rule:  "no-panic half: a corpus with one valid instance of every fx-core message, claim and confirm type; every <=2-field deviation with per-kind hostile domains (empty / wrong-prefix / over-long / non-hex strings, nil, negative and huge integers, invalid coins, nil and mistyped Any, duplicated and empty lists) through ValidateBasic and the signing-context signer extraction; every truncation of the wire bytes through the app codec; every single-field deviation as a signed transaction through the real CheckTx (ante handler); for every precompile method every calldata prefix and every <=2-word deviation of the ABI words (zero, 0x20, 2^32-1, 2^256-1, 2^255, 2^16) as signed EVM transactions; the target / address parsers over a hostile string list. Fee half: message lists of length 1-3 over {exempt type 1, exempt type 2, non-exempt} x gas {n*allow-1, n*allow, n*allow+1, 5M} x fee {0, required-1, required, required+1} x 3 exemption configurations through the real CheckTx of a node with a minimum gas price, against the 2-line specification 'admitted below the minimum price iff all messages exempt and gas <= n*allowance'",
		Assumptions: []string{"field domains are finite; inputs outside them are not covered", "message types of upstream SDK / IBC modules are outside the corpus"},
		Jobs: func(tier string) []registry.Job {
			return []registry.Job{{Name: "hostile-inputs+fee-rule", Custom: run(tier == "thorough"), Shards: 4}}
		},
	})
}
