package c01

import (
	"fmt"
	"math/big"
	"time"

	sdkmath "cosmossdk.io/math"
	sdk "github.com/cosmos/cosmos-sdk/types"
	"github.com/ethereum/go-ethereum/common"

	cctypes "github.com/functionx/fx-core/v8/x/crosschain/types"

	"fxmc/evmasm"
	"fxmc/explore"
	"fxmc/scen"
	"fxmc/world"
)

// reentrancy: "a claim parked for later execution runs its effects at most once" also when the execution itself
// calls back into executeClaim. A parked bridge-call claim delivers 5 usdt to a contract and calls it; every contract
// behaviour in the enumeration (does nothing / re-enters executeClaim for the nonce being executed, ignoring or
// requiring the result / re-enters twice / re-enters for another parked nonce) is executed, followed by every order of
// further executeClaim calls for the two parked nonces. Oracle: the value created for each nonce is exactly its
// amount, at most once; a second execution of an executed nonce fails.
func reentrancy(shard, shards int, deadline time.Time) *explore.Result {
	start := time.Now()
	res := &explore.Result{Spec: "c01/execute-claim-reentrancy", Outcomes: map[string]int{}, Counters: map[string]int{}, ViolationCounts: map[string]int{}, Exhaustive: true, DeterminismOK: true, Extra: map[string]float64{}}
	viol := func(sig, oracle, detail string, path ...string) {
		res.ViolationCounts[sig]++
		for _, v := range res.Violations {
			if v.Signature == sig {
				return
			}
		}
		res.Violations = append(res.Violations, explore.Violation{Oracle: oracle, Signature: sig, Detail: detail, Path: path})
	}
	chain := "eth"
	w := world.New(world.Config{Validators: 2, Actors: []string{"bank", "u1", "rel"}})
	ctx := w.Root
	os := scen.SetupOracles(w, ctx, chain, []string{"o1", "o2", "o3"}, []int64{10000, 10000, 10000})
	osm := map[string][]scen.Oracle{chain: os}
	nonces := map[string]uint64{}
	scen.RegisterFX(w, ctx, osm, nonces, 1000)
	usdt := scen.RegisterModuleToken(w, ctx, "USDT", osm, nonces, 1000)
	n1, n2 := nonces[chain]+1, nonces[chain]+2
	exec := func(n uint64) []byte {
		d, err := cctypes.GetABI().Pack("executeClaim", chain, new(big.Int).SetUint64(n))
		if err != nil {
			panic(err)
		}
		return d
	}
	cc := cctypes.GetAddress()
	// a re-entrant receiver stops as soon as it holds more than the 5 units one execution delivers (without that, a
	// tree on which the nested execution succeeds would recurse without end)
	guard := evmasm.Action{StopIfBalanceAbove: &evmasm.BalanceGuard{Token: usdt.ERC20, Amount: 5}}
	behaviours := []struct {
		name string
		prog evmasm.Program
	}{
		{"does-nothing", evmasm.Program{Actions: []evmasm.Action{evmasm.Mark(1, 1)}}},
		{"re-enters-same-nonce-ignoring-result", evmasm.Program{Actions: []evmasm.Action{guard, evmasm.CallOf(evmasm.CALL, cc, exec(n1), evmasm.Ignore), evmasm.Mark(1, 1)}}},
		{"re-enters-same-nonce-requiring-success", evmasm.Program{Actions: []evmasm.Action{guard, evmasm.CallOf(evmasm.CALL, cc, exec(n1), evmasm.Require), evmasm.Mark(1, 1)}}},
		{"re-enters-same-nonce-twice", evmasm.Program{Actions: []evmasm.Action{guard, evmasm.CallOf(evmasm.CALL, cc, exec(n1), evmasm.Ignore), evmasm.CallOf(evmasm.CALL, cc, exec(n1), evmasm.Ignore), evmasm.Mark(1, 1)}}},
		{"executes-the-other-parked-nonce", evmasm.Program{Actions: []evmasm.Action{guard, evmasm.CallOf(evmasm.CALL, cc, exec(n2), evmasm.Ignore), evmasm.Mark(1, 1)}}},
		{"reverts", evmasm.Program{Revert: true}},
	}
	// value in existence of the token: its coin supply over the base and the chain's bridge denomination
	value := func(c sdk.Context) sdkmath.Int {
		return w.App.BankKeeper.GetSupply(c, usdt.Base).Amount.Add(w.App.BankKeeper.GetSupply(c, usdt.Bridge[chain]).Amount)
	}
	// the unit: what executing one such claim for a receiver that does nothing creates in this metric (the deposit is
	// minted in the bridge denomination and again in the base denomination it is converted to)
	unit := func() sdkmath.Int {
		br := world.Branch(ctx)
		plain := w.Deploy(br, w.A("u1"), evmasm.Program{Actions: []evmasm.Action{evmasm.Mark(1, 1)}}.InitCode())
		scen.Observe(w, br, chain, os[:2], &cctypes.MsgBridgeCallClaim{ChainName: chain, EventNonce: n1, BlockHeight: 1000 + n1, Sender: scen.ExtAddr(chain, "depositor"), Refund: scen.ExtAddr(chain, "refund"),
			TokenContracts: []string{usdt.Ext[chain]}, Amounts: []sdkmath.Int{sdkmath.NewInt(5)}, To: plain.Hex(), Data: "", Value: sdkmath.ZeroInt(), Memo: "", TxOrigin: scen.ExtAddr(chain, "origin")})
		base := value(br)
		if r := w.CallABI(br, w.A("rel"), cc, cctypes.GetABI(), nil, 3_000_000, "executeClaim", chain, new(big.Int).SetUint64(n1)); !r.Success() {
			panic("control execution failed: " + r.String())
		}
		return value(br).Sub(base)
	}()
	if !unit.IsPositive() {
		panic("control execution created nothing")
	}
	caseNo := 0
	for _, b := range behaviours {
		for _, order := range [][]uint64{{n1}, {n1, n1}, {n1, n2, n1, n2}, {n2, n1, n1}} {
			caseNo++
			if caseNo%shards != shard {
				continue
			}
			br := world.Branch(ctx)
			target := w.Deploy(br, w.A("u1"), b.prog.InitCode())
			plain := w.Deploy(br, w.A("u1"), evmasm.Program{Actions: []evmasm.Action{evmasm.Mark(1, 1)}}.InitCode())
			claim := func(n uint64, to common.Address) *cctypes.MsgBridgeCallClaim {
				return &cctypes.MsgBridgeCallClaim{ChainName: chain, EventNonce: n, BlockHeight: 1000 + n, Sender: scen.ExtAddr(chain, "depositor"), Refund: scen.ExtAddr(chain, "refund"),
					TokenContracts: []string{usdt.Ext[chain]}, Amounts: []sdkmath.Int{sdkmath.NewInt(5)}, To: to.Hex(), Data: "", Value: sdkmath.ZeroInt(), Memo: "", TxOrigin: scen.ExtAddr(chain, "origin")}
			}
			scen.Observe(w, br, chain, os[:2], claim(n1, target))
			scen.Observe(w, br, chain, os[:2], claim(n2, plain))
			name := fmt.Sprintf("receiver %s; executeClaim order %v", b.name, order)
			base := value(br)
			executed := map[uint64]int{}
			for _, n := range order {
				r := w.CallABI(br, w.A("rel"), cc, cctypes.GetABI(), nil, 3_000_000, "executeClaim", chain, new(big.Int).SetUint64(n))
				res.Transitions++
				res.Extra["evaluations"]++
				if r.Panic != nil {
					viol("C01/execute-claim-panics", "never-panics", fmt.Sprintf("%s: %v\n%s", name, r.Panic, r.Stack), name)
					break
				}
				if r.Success() {
					executed[n]++
					if b.name == "executes-the-other-parked-nonce" && n == n1 {
						executed[n2]++ // the callback ran it (its result was ignored): it may have been executed there
					}
				}
				res.Outcomes[fmt.Sprintf("%s/success=%v", b.name, r.Success())]++
			}
			k := scen.Keeper(w, chain)
			created := value(br).Sub(base)
			// every executed nonce creates exactly its 5 units, once; an unexecuted one nothing
			parked := 0
			for _, n := range []uint64{n1, n2} {
				if _, ok := k.GetPendingExecuteClaim(br, n); ok {
					parked++
				}
			}
			// a claim whose callback failed is consumed into a refund record (an outgoing bridge call to the refund
			// address) and creates nothing
			refunds := 0
			k.IterateOutgoingBridgeCalls(br, func(*cctypes.OutgoingBridgeCall) bool { refunds++; return false })
			want := unit.MulRaw(int64(2 - parked - refunds))
			if !created.Equal(want) {
				viol("C01/parked-claim-effects-applied-more-than-once", "claim-executes-at-most-once", fmt.Sprintf("%s: %d of the two claims are still parked, so %s units should exist; %s were created", name, parked, want, created), name)
			}
			for n, c := range executed {
				if c > 1 && !(b.name == "executes-the-other-parked-nonce" && n == n2 && c == 2) {
					viol("C01/claim-executed-twice", "claim-executes-at-most-once", fmt.Sprintf("%s: executeClaim(%d) succeeded %d times", name, n, c), name)
				}
			}
			res.Counters["reentrancy-cases"]++
			if len(res.Samples) < 3 {
				res.Samples = append(res.Samples, []string{name, fmt.Sprintf("created %s, parked %d", created, parked)})
			}
		}
	}
	res.States = int(res.Extra["evaluations"])
	res.Extra["distinct_nontrivial"] = float64(res.Counters["reentrancy-cases"])
	res.WallS = time.Since(start).Seconds()
	return res
}
