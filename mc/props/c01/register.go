// Package c01: bridge events take effect exactly once, strictly in event-nonce order.
package c01

import (
	"fxmc/props/registry"
	"fxmc/props/vote"
)

func init() {
	registry.Register(&registry.Check{
		ID:    "C01",
		Level: "model_checking",
		Rule:  "explicit-state DFS over all interleavings of votes (right nonce with competing variants A/B, same nonce again, skipped nonce) by 3 bonded + 1 approved oracle, executeClaim calls, membership changes (bond, add-delegate, governance removal, re-approval, unbond) and slashing blocks; monitor: last observed nonce advances by exactly one, one observed attestation / one contract_event per nonce, per-oracle contiguity, parked claim executes at most once, receiver balance = sum of executed observed variants; an accepted vote stays in its attestation until the event is observed; one job starts after 100 executed events (attestation pruning active); a state is non-trivial if at least one event was observed by quorum",
		Assumptions: []string{
			"claims are SendToFx claims of the FX token (variants differ in amount); other claim types share Attest/TryAttestation",
			"event nonces bounded by max_nonce per job; oracle set of 3 equal stakes (2-of-3 quorum) plus one late joiner",
			"votes are delivered through MsgClaim on the real message router after ValidateBasic; executeClaim through a signed EVM transaction to the precompile",
		},
		Jobs: func(tier string) []registry.Job {
			base := func(chain string) *vote.Spec {
				return &vote.Spec{Prop: "C01", Chain: chain, Stakes: []int64{10000, 10000, 10000}, Extra: true, Variants: []string{"A", "B"}, WrongN: true, Execute: true, Members: true, MaxNonce: 3}
			}
			if tier == "thorough" {
				b := base("eth")
				b.MaxNonce = 4
				c := base("bsc")
				c.Blocks = true
				t := base("tron")
				return []registry.Job{
					{Name: "eth-max4", Spec: b, Depth: 8, ShardDepth: 2},
					{Name: "bsc-blocks", Spec: c, Depth: 7, ShardDepth: 2},
					{Name: "tron", Spec: t, Depth: 7, ShardDepth: 2},
					{Name: "eth-after-100-events", Spec: func() *vote.Spec { l := base("eth"); l.Prefill, l.MaxNonce = 100, 104; return l }(), Depth: 7, ShardDepth: 2},
					{Name: "eth-rebond-life-cycle", Spec: &vote.Spec{Prop: "C01", Chain: "eth", Stakes: []int64{10000, 10000, 10000, 10000}, Variants: []string{"A"}, MaxNonce: 4, Rebond: true}, Depth: 11, ShardDepth: 2},
					{Name: "execute-claim-reentrancy", Custom: reentrancy, Shards: 4},
				}
			}
			q := base("eth")
			long := base("eth")
			long.Prefill, long.MaxNonce = 100, 104
			return []registry.Job{
				{Name: "eth", Spec: q, Depth: 6, ShardDepth: 2},
				{Name: "eth-after-100-events", Spec: long, Depth: 5, ShardDepth: 2},
				{Name: "eth-rebond-life-cycle", Spec: &vote.Spec{Prop: "C01", Chain: "eth", Stakes: []int64{10000, 10000, 10000, 10000}, Variants: []string{"A"}, MaxNonce: 3, Rebond: true}, Depth: 9, ShardDepth: 2},
				{Name: "execute-claim-reentrancy", Custom: reentrancy, Shards: 4},
			}
		},
	})
}
