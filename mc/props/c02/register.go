// Package c02: an event takes effect only with a 66% power quorum of distinct oracles.
package c02

import (
	"fmt"
	"time"

	sdk "github.com/cosmos/cosmos-sdk/types"

	"fxmc/explore"
	"fxmc/props/registry"
	"fxmc/props/vote"
	"fxmc/scen"
	"fxmc/world"
)

func init() {
	registry.Register(&registry.Check{
		ID:    "C02",
		Level: "model_checking",
		Rule:  "explicit-state DFS over vote orders x stake changes (bond, add-delegate, governance removal/re-approval, unbond, slashing blocks) for several stake distributions including truncation witnesses; whenever an attestation flips to observed the quorum is recomputed from the raw records in exact integer arithmetic (100*sum(power of distinct registered voters) >= 66*recorded total); every state: recorded total power >= power of online oracles; votes admitted only via bridger->oracle->online. Signer clause: for every claim type the transaction's required signers (app signing context) are compared with the oracle the vote is recorded for, end-to-end through real FinalizeBlock with a transaction signed only by the wrapper's bridger",
		Assumptions: []string{
			"up to 4 oracles; stake vectors from a fixed list (equal, 1-2-3, truncation witness 33300/17200 FX)",
			"power = stake / 100 FX (sdk.DefaultPowerReduction as set by fx-core)",
		},
		Jobs: func(tier string) []registry.Job {
			mk := func(stakes []int64, extra, members, blocks bool, max uint64) *vote.Spec {
				return &vote.Spec{Prop: "C02", Chain: "eth", Stakes: stakes, Extra: extra, Variants: []string{"A", "B"}, Members: members, Blocks: blocks, MaxNonce: max}
			}
			jobs := []registry.Job{
				{Name: "equal-3+1-members-blocks", Spec: mk([]int64{10000, 10000, 10000}, true, true, true, 3), Depth: 6, ShardDepth: 2},
				{Name: "truncation-witness", Spec: mk([]int64{33300, 17200}, false, true, false, 3), Depth: 5, ShardDepth: 1},
				{Name: "ratio-1-2-3", Spec: mk([]int64{10000, 20000, 30000}, false, true, false, 3), Depth: 5, ShardDepth: 2},
				{Name: "signer-binding", Custom: signerBinding, Shards: 1},
				{Name: "rebond-life-cycle", Spec: &vote.Spec{Prop: "C02", Chain: "eth", Stakes: []int64{10000, 10000, 10000, 10000}, Variants: []string{"A"}, MaxNonce: 3, Rebond: true}, Depth: 9, ShardDepth: 2},
			}
			// the chain is restarted from its exported genesis at any point of a history of votes and membership changes
			rs := mk([]int64{10000, 10000, 10000}, true, true, false, 3)
			rs.Restart = true
			jobs = append(jobs, registry.Job{Name: "restart-from-exported-genesis", Spec: rs, Depth: 5, ShardDepth: 2, NoConform: true})
			// stakes that are not whole power units: the voters' stakes add up to one unit more than their powers do
			jobs = append(jobs, registry.Job{Name: "fractional-stakes", Spec: mk([]int64{10050, 10050, 10400}, false, true, false, 3), Depth: 5, ShardDepth: 2})
			if tier == "thorough" {
				jobs[6].Depth = 7
				jobs[5].Depth = 7
				jobs[0].Depth = 8
				jobs[1].Depth = 7
				jobs[2].Depth = 7
				jobs[4].Depth = 10
				jobs = append(jobs, registry.Job{Name: "ratio-33-33-34+1", Spec: mk([]int64{33000, 33000, 34000}, true, true, true, 3), Depth: 7, ShardDepth: 2})
			}
			return jobs
		},
	})
}

// signerBinding relates the account that must sign a claim transaction to the oracle the vote is counted for.
func signerBinding(shard, shards int, deadline time.Time) *explore.Result {
	start := time.Now()
	res := &explore.Result{Spec: "c02/signer-binding", Outcomes: map[string]int{}, Counters: map[string]int{}, ViolationCounts: map[string]int{}, Exhaustive: true, DeterminismOK: true, Extra: map[string]float64{}}
	chain := "eth"
	for _, typ := range scen.ClaimTypes {
		for _, who := range []string{"self", "other"} {
			w := world.New(world.Config{Validators: 2, Actors: []string{"bank", "u1", "mallory"}})
			var os []scen.Oracle
			var token string
			setup := func(ctx sdk.Context) {
				os = scen.SetupOracles(w, ctx, chain, []string{"o1", "o2"}, []int64{10000, 10000})
				token = scen.ExtAddr(chain, "fx-token")
				scen.Observe(w, ctx, chain, os, scen.BridgeTokenClaim(chain, 1, 100, token, "Function X", "FX", 18, ""))
			}
			if _, err := w.RealBlock(setup, nil, world.BlockTime); err != nil {
				panic(err)
			}
			k := scen.Keeper(w, chain)
			ctx := w.Committed()
			claim := scen.WithBridger(scen.SampleClaims(chain, 2, token, w.A("u1").Acc(), os[0].ExtAddr)[typ], os[0].Bridger.Bech())
			signer := os[0].Bridger
			if who == "other" {
				signer = w.A("mallory")
			}
			msg := scen.WrapClaim(chain, signer.Bech(), claim)
			signers, _, err := w.App.AppCodec().GetMsgV1Signers(msg)
			if err != nil {
				panic(err)
			}
			required := sdk.AccAddress(signers[0])
			tx, err := w.SignTx(ctx, signer, 2_000_000, nil, 0, msg)
			if err != nil {
				panic(err)
			}
			before := k.GetLastEventNonceByOracle(ctx, os[0].Acct.Acc())
			br, err := w.RealBlock(nil, [][]byte{tx}, world.BlockTime)
			if err != nil {
				panic(err)
			}
			after := k.GetLastEventNonceByOracle(w.Committed(), os[0].Acct.Acc())
			ok := world.TxOK(br, 0)
			res.Transitions++
			res.Extra["evaluations"]++
			res.Extra["traces_validated"]++ // executed through real FinalizeBlock + Commit
			name := fmt.Sprintf("SignedClaim(%s,wrapper=%s)", typ, who)
			res.Outcomes[fmt.Sprintf("SignedClaim(%s)=%v", who, ok)]++
			if len(res.Samples) < 4 {
				res.Samples = append(res.Samples, []string{name, fmt.Sprintf("required signer %s, vote counted for bridger %s, tx ok=%v, oracle last nonce %d->%d", required, os[0].Bridger.Bech(), ok, before, after)})
			}
			counted := after != before
			if counted {
				res.Extra["distinct_nontrivial"]++
				res.Counters["vote-recorded"]++
			}
			if who == "self" && !counted {
				res.Violations = append(res.Violations, explore.Violation{Oracle: "honest-claim-is-accepted", Signature: "C02/harness/honest-signed-claim-rejected/" + typ,
					Detail: fmt.Sprintf("control case failed: %s signed by the oracle's own bridger was not recorded (log: %s)", typ, br.TxResults[0].Log), Path: []string{name}})
			}
			if counted && !required.Equals(os[0].Bridger.Acc()) {
				res.Violations = append(res.Violations, explore.Violation{Oracle: "vote-counted-only-for-signing-bridger", Signature: "C02/vote-counted-for-bridger-that-did-not-sign",
					Detail: fmt.Sprintf("claim type %s: transaction signed only by %s (required signers per signing context: %s) was accepted and recorded as the vote of oracle %s, whose bridger %s never signed", typ, signer.Bech(), required, os[0].Acct.Bech(), os[0].Bridger.Bech()),
					Path:   []string{name}})
				res.ViolationCounts["C02/vote-counted-for-bridger-that-did-not-sign"]++
			}
		}
	}
	res.States = int(res.Extra["evaluations"])
	res.WallS = time.Since(start).Seconds()
	return res
}
