// Package all links every property package into the binary.
package all

import (
	_ "fxmc/props/c01"
	_ "fxmc/props/c02"
	_ "fxmc/props/c03"
	_ "fxmc/props/c04"
	_ "fxmc/props/c05"
	_ "fxmc/props/c06"
	_ "fxmc/props/c07"
	_ "fxmc/props/c08"
	_ "fxmc/props/c09"
	_ "fxmc/props/c10"
	_ "fxmc/props/c11"
	_ "fxmc/props/c12"
	_ "fxmc/props/c13"
	_ "fxmc/props/c14"
	_ "fxmc/props/c15"
	_ "fxmc/props/c16"
	_ "fxmc/props/c18"
	_ "fxmc/props/c19"
	_ "fxmc/props/c20"
)
