// Package c05: every outgoing transfer is in exactly one place and is settled exactly once.
package c05

import (
	"fxmc/props/bridge"
	"fxmc/props/registry"
)

func init() {
	registry.Register(&registry.Check{
		ID:          "C05",
		Level:       "model_checking",
		Rule:        "explicit-state DFS over send (2 senders, 2 amount/fee shapes, per token), cancel by owner and by a stranger, increase-fee, request-batch (base fee 0/2, minimum fee 1/1000), batch executed in any order (older batches cancelled), far-future observed height (timeouts), outgoing bridge calls with result ok/fail, blocks; after every step the real pool, batches and outgoing bridge calls are decoded and compared record by record with a reference book (ids next/unique, exactly one place, queued fields as supplied, settled once, only creator cancels)",
		Assumptions: []string{"one oracle with full power per chain (quorum is C01/C02); amounts 1-2 units; at most max_send transfers and 2 bridge calls per history"},
		Jobs: func(tier string) []registry.Job {
			if tier == "thorough" {
				return []registry.Job{
					{Name: "eth-FX+usdt-calls", Spec: &bridge.Spec{Prop: "C05", Chains: []string{"eth"}, Tokens: []string{"FX", "usdt"}, Book: true, Calls: true, MaxSend: 3}, Depth: 7, ShardDepth: 2},
					{Name: "bsc-usdt+tok-evm", Spec: &bridge.Spec{Prop: "C05", Chains: []string{"bsc"}, Tokens: []string{"usdt", "tok"}, Book: true, EVM: true, MaxSend: 3}, Depth: 6, ShardDepth: 2},
					{Name: "batch-life-cycle-deep", Spec: &bridge.Spec{Prop: "C05", Chains: []string{"eth"}, Tokens: []string{"FX", "usdt"}, Book: true, Ledger: true, MaxSend: 4, Focus: "batches"}, Depth: 9, ShardDepth: 2},
					{Name: "pool-larger-than-a-batch", Spec: &bridge.Spec{Prop: "C05", Chains: []string{"eth"}, Tokens: []string{"FX"}, Book: true, Ledger: true, MaxSend: 102, Prefill: 99, Focus: "batches"}, Depth: 6, ShardDepth: 2},
					{Name: "tron-FX", Spec: &bridge.Spec{Prop: "C05", Chains: []string{"tron"}, Tokens: []string{"FX"}, Book: true, Calls: true, MaxSend: 4}, Depth: 8, ShardDepth: 2},
				}
			}
			return []registry.Job{
				{Name: "eth-FX+usdt-calls", Spec: &bridge.Spec{Prop: "C05", Chains: []string{"eth"}, Tokens: []string{"FX", "usdt"}, Book: true, Calls: true, MaxSend: 3}, Depth: 5, ShardDepth: 2},
				{Name: "eth-usdt-evm", Spec: &bridge.Spec{Prop: "C05", Chains: []string{"eth"}, Tokens: []string{"usdt"}, Book: true, EVM: true, MaxSend: 2}, Depth: 5, ShardDepth: 2},
				{Name: "batch-life-cycle-deep", Spec: &bridge.Spec{Prop: "C05", Chains: []string{"eth"}, Tokens: []string{"FX", "usdt"}, Book: true, Ledger: true, MaxSend: 3, Focus: "batches"}, Depth: 7, ShardDepth: 2},
				// the external chain's result for an outgoing bridge call is observed and parked; somebody executes it later,
				// possibly after events that prove the call's timeout height
				{Name: "bridge-call-results-executed-late", Spec: &bridge.Spec{Prop: "C05", Chains: []string{"eth"}, Tokens: []string{"FX", "usdt"}, Book: true, Ledger: true, Calls: true, LateExec: true, MaxSend: 1}, Depth: 5, ShardDepth: 2},
				// 99 transfers wait in the pool; two more sends make it more than one batch (100 entries) can take
				{Name: "pool-larger-than-a-batch", Spec: &bridge.Spec{Prop: "C05", Chains: []string{"eth"}, Tokens: []string{"FX"}, Book: true, Ledger: true, MaxSend: 101, Prefill: 99, Focus: "batches"}, Depth: 4, ShardDepth: 1},
			}
		},
	})
}
