// Package c11: transferring delegation shares conserves shares, stake and reward entitlements.
package c11

import (
	"fmt"
	"math/big"
	"time"

	sdkmath "cosmossdk.io/math"
	sdk "github.com/cosmos/cosmos-sdk/types"
	stakingtypes "github.com/cosmos/cosmos-sdk/x/staking/types"
	"github.com/ethereum/go-ethereum/common"

	fxstakingtypes "github.com/functionx/fx-core/v8/x/staking/types"

	"fxmc/explore"
	"fxmc/props/registry"
	"fxmc/world"
)

type Spec struct {
	Slash    bool
	Redeleg  bool
	OneShare bool
	// V2: operations on the second validator too (delegations that arrived there by redelegation are transferred,
	// withdrawn, undelegated); OldInfraction: the slash names an infraction three blocks back, so that unbonding and
	// redelegation entries created since are slashed with the validator
	V2            bool
	OldInfraction bool
	w             *world.World
	users    []world.Actor
}

func (s *Spec) Name() string {
	return fmt.Sprintf("c11/slash=%v/redelegate=%v/one=%v/v2=%v/old=%v", s.Slash, s.Redeleg, s.OneShare, s.V2, s.OldInfraction)
}

var (
	stAddr = fxstakingtypes.GetAddress()
	stABI  = fxstakingtypes.GetABI()
)

func (s *Spec) Init() *explore.State {
	w := world.New(world.Config{Validators: 2, Actors: []string{"bank", "a", "b", "c"}})
	s.w = w
	s.users = []world.Actor{w.A("a"), w.A("b"), w.A("c")}
	return &explore.State{W: w, Ctx: w.Root, Model: explore.NoModel{}}
}

func sig(x string) string { return "C11/" + x }

func (s *Spec) shares(ctx sdk.Context, who sdk.AccAddress, val sdk.ValAddress) sdkmath.LegacyDec {
	d, err := s.w.App.StakingKeeper.GetDelegation(ctx, who, val)
	if err != nil {
		return sdkmath.LegacyZeroDec()
	}
	return d.Shares
}

func (s *Spec) call(c *explore.State, from world.Actor, method string, args ...interface{}) world.EthResult {
	r := s.w.CallABI(c.Ctx, from, stAddr, stABI, nil, 3_000_000, method, args...)
	c.Accepted = r.Success()
	switch {
	case r.Panic != nil:
		c.Outcome = "panic"
	case r.Err != nil:
		c.Outcome = "tx-error"
	case !r.Success():
		c.Outcome = "reverted"
	default:
		c.Outcome = "ok"
	}
	return r
}

func (s *Spec) transferOp(name string, sender, from, to world.Actor, val sdk.ValAddress, amount func(ctx sdk.Context) *big.Int, viaFrom bool) explore.Op {
	return explore.Op{Name: name, Run: func(c *explore.State) {
		sk := s.w.App.StakingKeeper
		amt := amount(c.Ctx)
		preFrom, preTo := s.shares(c.Ctx, from.Acc(), val), s.shares(c.Ctx, to.Acc(), val)
		preVal, _ := sk.GetValidator(c.Ctx, val)
		preAllow := sk.GetAllowance(c.Ctx, val, from.Acc(), sender.Acc())
		var r world.EthResult
		if viaFrom {
			r = s.call(c, sender, "transferFromShares", val.String(), from.Hex(), to.Hex(), amt)
		} else {
			r = s.call(c, sender, "transferShares", val.String(), to.Hex(), amt)
		}
		if !r.Success() {
			return
		}
		sh := sdkmath.LegacyNewDecFromBigInt(amt)
		postFrom, postTo := s.shares(c.Ctx, from.Acc(), val), s.shares(c.Ctx, to.Acc(), val)
		postVal, _ := sk.GetValidator(c.Ctx, val)
		if from.Name == to.Name {
			if !postFrom.Equal(preFrom) {
				c.Violate("self-transfer-changes-nothing", sig("self-transfer-changes-delegation"), fmt.Sprintf("%s: delegation of %s went %s -> %s shares (validator total %s)", name, from.Name, preFrom, postFrom, postVal.DelegatorShares))
			}
		} else {
			if !preFrom.Sub(postFrom).Equal(sh) {
				c.Violate("sender-loses-transferred-shares", sig("sender-share-delta-wrong"), fmt.Sprintf("%s: sender %s -> %s, transferred %s", name, preFrom, postFrom, sh))
			}
			if !postTo.Sub(preTo).Equal(sh) {
				c.Violate("recipient-gains-transferred-shares", sig("recipient-share-delta-wrong"), fmt.Sprintf("%s: recipient %s -> %s, transferred %s", name, preTo, postTo, sh))
			}
		}
		if !postVal.Tokens.Equal(preVal.Tokens) || !postVal.DelegatorShares.Equal(preVal.DelegatorShares) {
			c.Violate("validator-unchanged-by-transfer", sig("validator-changed-by-transfer"), fmt.Sprintf("%s: tokens %s -> %s, shares %s -> %s", name, preVal.Tokens, postVal.Tokens, preVal.DelegatorShares, postVal.DelegatorShares))
		}
		if viaFrom {
			postAllow := sk.GetAllowance(c.Ctx, val, from.Acc(), sender.Acc())
			if new(big.Int).Sub(preAllow, postAllow).Cmp(amt) != 0 {
				c.Violate("allowance-decreases-by-moved-amount", sig("allowance-delta-wrong"), fmt.Sprintf("%s: allowance %s -> %s, moved %s", name, preAllow, postAllow, amt))
			}
		}
		// both parties were paid what had accrued: an immediate withdraw yields nothing more
		for _, p := range []world.Actor{from, to} {
			if s.shares(c.Ctx, p.Acc(), val).IsZero() {
				continue
			}
			scratch := world.Branch(c.Ctx)
			before := s.w.App.BankKeeper.GetBalance(scratch, p.Acc(), "FX").Amount
			wr := s.w.CallABI(scratch, p, stAddr, stABI, nil, 3_000_000, "withdraw", val.String())
			after := s.w.App.BankKeeper.GetBalance(scratch, p.Acc(), "FX").Amount
			if !wr.Success() {
				c.Violate("parties-can-withdraw-after-transfer", sig("withdraw-fails-after-transfer"), fmt.Sprintf("%s: withdraw by %s: %s", name, p.Name, wr))
			} else if after.Sub(before).GT(sdkmath.NewInt(1000)) {
				c.Violate("rewards-paid-at-transfer", sig("rewards-left-unpaid-by-transfer"), fmt.Sprintf("%s: %s could still withdraw %s right after the transfer", name, p.Name, after.Sub(before)))
			}
		}
	}}
}

func (s *Spec) Ops(st *explore.State) []explore.Op {
	ctx := st.Ctx
	v1, v2 := s.w.Vals[0].ValAddr(), s.w.Vals[1].ValAddr()
	a, b, cc := s.users[0], s.users[1], s.users[2]
	var ops []explore.Op
	hundred := new(big.Int).Mul(big.NewInt(100), big.NewInt(1e18))
	for _, u := range []world.Actor{a, b} {
		u := u
		if s.shares(ctx, u.Acc(), v1).LT(sdkmath.LegacyNewDecFromBigInt(hundred).MulInt64(2)) {
			ops = append(ops, explore.Op{Name: "Delegate(" + u.Name + ",v1,100)", Run: func(c *explore.State) { s.call(c, u, "delegateV2", v1.String(), hundred) }})
		}
		if sh := s.shares(ctx, u.Acc(), v1); sh.IsPositive() {
			half := func(x sdk.Context) *big.Int { return s.shares(x, u.Acc(), v1).QuoInt64(2).TruncateInt().BigInt() }
			all := func(x sdk.Context) *big.Int { return s.shares(x, u.Acc(), v1).TruncateInt().BigInt() }
			ops = append(ops, explore.Op{Name: "Undelegate(" + u.Name + ",v1,half)", Run: func(c *explore.State) {
				val, _ := s.w.App.StakingKeeper.GetValidator(c.Ctx, v1)
				tok := val.TokensFromShares(s.shares(c.Ctx, u.Acc(), v1).QuoInt64(2)).TruncateInt().BigInt()
				s.call(c, u, "undelegateV2", v1.String(), tok)
			}})
			ops = append(ops, explore.Op{Name: "Withdraw(" + u.Name + ",v1)", Run: func(c *explore.State) { s.call(c, u, "withdraw", v1.String()) }})
			for _, to := range s.users {
				ops = append(ops, s.transferOp(fmt.Sprintf("Transfer(%s->%s,half)", u.Name, to.Name), u, u, to, v1, half, false))
				ops = append(ops, s.transferOp(fmt.Sprintf("Transfer(%s->%s,all)", u.Name, to.Name), u, u, to, v1, all, false))
				if s.OneShare {
					ops = append(ops, s.transferOp(fmt.Sprintf("Transfer(%s->%s,1)", u.Name, to.Name), u, u, to, v1, func(sdk.Context) *big.Int { return big.NewInt(1) }, false))
				}
			}
		}
	}
	if s.V2 {
		for _, u := range []world.Actor{a, b} {
			u := u
			if sh := s.shares(ctx, u.Acc(), v2); sh.IsPositive() {
				half := func(x sdk.Context) *big.Int { return s.shares(x, u.Acc(), v2).QuoInt64(2).TruncateInt().BigInt() }
				all := func(x sdk.Context) *big.Int { return s.shares(x, u.Acc(), v2).TruncateInt().BigInt() }
				ops = append(ops, explore.Op{Name: "Undelegate(" + u.Name + ",v2,half)", Run: func(c *explore.State) {
					val, _ := s.w.App.StakingKeeper.GetValidator(c.Ctx, v2)
					tok := val.TokensFromShares(s.shares(c.Ctx, u.Acc(), v2).QuoInt64(2)).TruncateInt().BigInt()
					s.call(c, u, "undelegateV2", v2.String(), tok)
				}})
				ops = append(ops, explore.Op{Name: "Withdraw(" + u.Name + ",v2)", Run: func(c *explore.State) { s.call(c, u, "withdraw", v2.String()) }})
				for _, to := range []world.Actor{a, b} {
					if to.Name == u.Name {
						continue
					}
					ops = append(ops, s.transferOp(fmt.Sprintf("Transfer(%s->%s,v2,half)", u.Name, to.Name), u, u, to, v2, half, false))
					ops = append(ops, s.transferOp(fmt.Sprintf("Transfer(%s->%s,v2,all)", u.Name, to.Name), u, u, to, v2, all, false))
				}
			}
		}
		if s.shares(ctx, b.Acc(), v1).IsPositive() {
			ops = append(ops, explore.Op{Name: "Redelegate(b,v1->v2,all)", Run: func(c *explore.State) {
				val, _ := s.w.App.StakingKeeper.GetValidator(c.Ctx, v1)
				tok := val.TokensFromShares(s.shares(c.Ctx, b.Acc(), v1)).TruncateInt().BigInt()
				s.call(c, b, "redelegateV2", v1.String(), v2.String(), tok)
			}})
		}
	}
	if s.shares(ctx, a.Acc(), v1).IsPositive() {
		if s.w.App.StakingKeeper.GetAllowance(ctx, v1, a.Acc(), b.Acc()).Sign() == 0 {
			ops = append(ops, explore.Op{Name: "Approve(a->b,v1,all)", Run: func(c *explore.State) {
				s.call(c, a, "approveShares", v1.String(), b.Hex(), s.shares(c.Ctx, a.Acc(), v1).TruncateInt().BigInt())
			}})
		} else {
			ops = append(ops, s.transferOp("TransferFrom(b:a->c,half)", b, a, cc, v1, func(x sdk.Context) *big.Int { return s.shares(x, a.Acc(), v1).QuoInt64(2).TruncateInt().BigInt() }, true))
			ops = append(ops, s.transferOp("TransferFrom(b:a->a,half)", b, a, a, v1, func(x sdk.Context) *big.Int { return s.shares(x, a.Acc(), v1).QuoInt64(2).TruncateInt().BigInt() }, true))
		}
		if s.Redeleg {
			ops = append(ops, explore.Op{Name: "Redelegate(a,v1->v2,half)", Run: func(c *explore.State) {
				val, _ := s.w.App.StakingKeeper.GetValidator(c.Ctx, v1)
				tok := val.TokensFromShares(s.shares(c.Ctx, a.Acc(), v1).QuoInt64(2)).TruncateInt().BigInt()
				s.call(c, a, "redelegateV2", v1.String(), v2.String(), tok)
			}})
		}
	}
	ops = append(ops, explore.Op{Name: "Block", Run: func(c *explore.State) {
		next, r := s.w.NextBlock(c.Ctx, 5*time.Second)
		c.Ctx = next
		c.Accepted = r.Err == nil && r.Panic == nil
		c.Outcome = "ok"
		if !c.Accepted {
			c.Outcome = "halt"
			c.Violate("block-never-halts", sig("block-halt"), fmt.Sprintf("%v %v\n%s", r.Panic, r.Err, r.Stack))
		}
	}})
	if s.Slash {
		ops = append(ops, explore.Op{Name: "SlashV1(5%)", Run: func(c *explore.State) {
			val, _ := s.w.App.StakingKeeper.GetValidator(c.Ctx, v1)
			if val.Tokens.LT(world.FX(50)) {
				c.Outcome = "n/a"
				return
			}
			power := sdk.TokensToConsensusPower(val.Tokens, sdk.DefaultPowerReduction)
			infraction := c.Ctx.BlockHeight()
			if s.OldInfraction && infraction > 4 {
				infraction -= 3
			}
			_, err := s.w.App.StakingKeeper.Slash(c.Ctx, s.w.Vals[0].ConsAddr(), infraction, power, sdkmath.LegacyNewDecWithPrec(5, 2))
			c.Accepted = err == nil
			c.Outcome = map[bool]string{true: "ok", false: "error"}[err == nil]
		}})
	}
	return ops
}

func (s *Spec) Check(st *explore.State) {
	ctx := st.Ctx
	sk := s.w.App.StakingKeeper
	// delegations sum to the validator's shares
	sums := map[string]sdkmath.LegacyDec{}
	_ = sk.IterateAllDelegations(ctx, func(d stakingtypes.Delegation) bool {
		cur, ok := sums[d.ValidatorAddress]
		if !ok {
			cur = sdkmath.LegacyZeroDec()
		}
		sums[d.ValidatorAddress] = cur.Add(d.Shares)
		return false
	})
	for _, v := range s.w.Vals {
		val, _ := sk.GetValidator(ctx, v.ValAddr())
		sum, ok := sums[v.ValAddr().String()]
		if !ok {
			sum = sdkmath.LegacyZeroDec()
		}
		if !sum.Equal(val.DelegatorShares) {
			st.Violate("delegations-sum-to-validator-shares", sig("delegator-shares-do-not-sum-to-validator-shares"), fmt.Sprintf("validator %s: sum of delegations %s, validator shares %s", v.Operator.Name, sum, val.DelegatorShares))
		}
	}
	// every registered crisis invariant (bank, staking, distribution, gov, ...)
	for _, r := range s.w.App.CrisisKeeper.Routes() {
		func() {
			defer func() {
				if x := recover(); x != nil {
					st.Violate("sdk-invariants-hold", sig("invariant-panics/"+r.FullRoute()), fmt.Sprint(x))
				}
			}()
			if msg, broken := r.Invar(world.Branch(ctx)); broken {
				st.Violate("sdk-invariants-hold", sig("invariant-broken/"+r.FullRoute()), msg)
			}
		}()
	}
	// look-ahead: every participant can still withdraw and fully undelegate
	for _, u := range s.users {
		for _, v := range s.w.Vals {
			sh := s.shares(ctx, u.Acc(), v.ValAddr())
			if !sh.IsPositive() {
				continue
			}
			scratch := world.Branch(ctx)
			if wr := s.w.CallABI(scratch, u, stAddr, stABI, nil, 3_000_000, "withdraw", v.ValAddr().String()); !wr.Success() {
				st.Violate("can-withdraw-rewards", sig("exit-withdraw-fails"), fmt.Sprintf("%s on %s: %s", u.Name, v.Operator.Name, wr))
				continue
			}
			val, _ := sk.GetValidator(scratch, v.ValAddr())
			tok := val.TokensFromShares(sh).TruncateInt()
			if !tok.IsPositive() {
				continue
			}
			if ur := s.w.CallABI(scratch, u, stAddr, stABI, nil, 3_000_000, "undelegateV2", v.ValAddr().String(), tok.BigInt()); !ur.Success() {
				st.Violate("can-fully-undelegate", sig("exit-undelegate-fails"), fmt.Sprintf("%s on %s (%s tokens): %s", u.Name, v.Operator.Name, tok, ur))
			}
		}
	}
}

func (s *Spec) Counters(st *explore.State) []string {
	var out []string
	n := 0
	for _, u := range s.users {
		if s.shares(st.Ctx, u.Acc(), s.w.Vals[0].ValAddr()).IsPositive() {
			n++
		}
	}
	if n >= 1 {
		out = append(out, "has-delegation")
	}
	if n >= 2 {
		out = append(out, "two-delegators")
	}
	if s.shares(st.Ctx, s.users[2].Acc(), s.w.Vals[0].ValAddr()).IsPositive() {
		out = append(out, "c-received-shares")
	}
	return out
}

var _ = common.Address{}

func init() {
	registry.Register(&registry.Check{
		ID:    "C11",
		Level: "model_checking",
		Rule:  "explicit-state DFS over signed EVM transactions to the staking precompile by accounts a, b (c only receives): delegate, undelegate half, withdraw, approve, transfer half/all/1 share to a, b, c including the sender itself and a recipient without delegation, transferFrom, redelegate, reward-producing blocks, 5% validator slash; a second job adds the same operations on the second validator (delegations that arrived by redelegation, incl. a full redelegation) and a slash for an infraction three blocks back (unbonding and redelegation entries created since are slashed too); per transfer: share deltas, validator unchanged, allowance delta, nothing left to withdraw; every state: delegations sum to validator shares, every registered crisis invariant holds, every participant can withdraw and fully undelegate on a scratch branch",
		Assumptions: []string{"stake unit 100 FX; validator commission 10%; rewards come from the real mint/distribution begin-blockers"},
		Jobs: func(tier string) []registry.Job {
			if tier == "thorough" {
				return []registry.Job{
					{Name: "full", Spec: &Spec{Slash: true, Redeleg: true, OneShare: true}, Depth: 6, ShardDepth: 2},
					{Name: "no-slash-deeper", Spec: &Spec{Redeleg: true}, Depth: 7, ShardDepth: 2},
					{Name: "second-validator+old-infraction", Spec: &Spec{Slash: true, Redeleg: true, V2: true, OldInfraction: true}, Depth: 6, ShardDepth: 2},
				}
			}
			return []registry.Job{
				{Name: "slash+redelegate", Spec: &Spec{Slash: true, Redeleg: true}, Depth: 5, ShardDepth: 2},
				{Name: "second-validator+old-infraction", Spec: &Spec{Slash: true, Redeleg: true, V2: true, OldInfraction: true}, Depth: 5, ShardDepth: 2},
			}
		},
	})
}
