// Package bridge is the bridge scenario shared by C04 (solvency ledger), C05 (pool / batch / bridge-call book)
// and C06 (co-simulated external chain).
package bridge

import (
	"bytes"
	"encoding/hex"
	"encoding/json"
	"fmt"
	"math/big"
	"sort"
	"strings"
	"time"

	sdkmath "cosmossdk.io/math"
	sdk "github.com/cosmos/cosmos-sdk/types"
	"github.com/ethereum/go-ethereum/common"

	cctypes "github.com/functionx/fx-core/v8/x/crosschain/types"
	erc20types "github.com/functionx/fx-core/v8/x/erc20/types"

	"fxmc/evmasm"
	"fxmc/explore"
	"fxmc/scen"
	"fxmc/world"
)

type Spec struct {
	Prop       string   // C04 | C05 | C06
	Chains     []string // first chain is the one user sends go to
	Tokens     []string // subset of FX, usdt, tok
	Ledger     bool     // C04 oracles
	Book       bool     // C05 oracles
	ExtSim     bool     // C06: co-simulated external chain drives claims / heights
	Calls      bool     // outgoing bridge calls
	Inbound    bool     // inbound bridge calls to an EOA
	EVM        bool     // precompile entry points (crossChain from ERC-20, cancel, increase fee)
	MaxSend    int      // max pool transfers ever created
	Params     bool     // C06: parameter changes
	LateExec   bool     // an observed bridge-call result stays parked; executing it is a separate, later step
	Prefill    int      // pool transfers created by the set-up (a pool larger than one batch can hold)
	Lookalike  bool     // the oracles report a new bridge token whose symbol differs from the native coin's only in letter case
	SendCallTo bool     // inbound bridge calls whose memo is the send-call-to flag (tokens go to the sender's address)
	Focus      string   // "batches": narrowed alphabet (one sender, two fee shapes, owner cancel, plain batch requests) for deeper batch life-cycle histories

	w               *world.World
	os              map[string][]scen.Oracle
	toks            map[string]scen.Token
	tracked         []world.Actor
	fxBase          map[string]sdkmath.Int
	lastVoteFailure string
	reverter        common.Address
}

func (s *Spec) Name() string {
	return fmt.Sprintf("bridge/%s/%s/%s/calls=%v/in=%v/evm=%v/ext=%v/max=%d/focus=%s/prefill=%d/late=%v", s.Prop, strings.Join(s.Chains, "+"), strings.Join(s.Tokens, "+"), s.Calls, s.Inbound, s.EVM, s.ExtSim, s.MaxSend, s.Focus, s.Prefill, s.LateExec) + fmt.Sprintf("/sendcallto=%v/lookalike=%v", s.SendCallTo, s.Lookalike)
}

// ---------------------------------------------------------------- model

type Rec struct {
	ID     uint64
	Chain  string
	Sender string
	Dest   string
	Tok    string
	Amt    int64
	Fee    int64
	State  string // pool | batch:<nonce> | executed | refunded
	EVM    bool
}

type Batch struct {
	Nonce   uint64
	Chain   string
	Tok     string
	IDs     []uint64
	Timeout uint64
	Height  int64
}

type Call struct {
	Nonce   uint64
	Chain   string
	Sender  string
	Refund  string
	Toks    map[string]int64
	State   string // open | executed | refunded
	Timeout uint64
	FromMsg bool
	// ResultParked: the external chain's result for this call has been observed and is waiting to be executed; from
	// then on the result settles the call, the timeout clean-up leaves it alone
	ResultParked bool
	ParkedEvent  uint64 // event nonce of the parked result (LateExec)
	ParkedOK     bool   // the success flag it carries
}

type ExtChain struct {
	Height     uint64
	EventNonce uint64            // last event emitted
	Relayed    uint64            // last event relayed to fxcore
	Events     []ExtEvent        // emitted, in order
	BatchDone  map[string]uint64 // token -> last executed batch nonce
	CallDone   map[uint64]bool
}

type ExtEvent struct {
	Nonce  uint64
	Height uint64
	Kind   string // deposit | batch | callresult
	Tok    string
	N      uint64 // batch nonce / call nonce
	OK     bool
}

type Model struct {
	Hold      map[string]map[string]int64 // account name -> token -> expected holdings (all representations)
	Recs      map[uint64]*Rec
	Batches   map[string]*Batch // key chain/tok/nonce
	Calls     map[uint64]*Call
	Dep       map[string]int64
	Wd        map[string]int64
	Escrow    map[string]int64 // chain/tok -> what entered through the chain minus what left (external tokens)
	ExtSupply map[string]int64 // chain/tok -> executed withdrawals minus deposits (what can physically be deposited)
	Nonce     map[string]uint64
	ExtH      map[string]uint64
	Ext       map[string]*ExtChain
	NextRec   map[string]uint64
	// Sink: token -> amount delivered to contracts the scenario deployed (they keep what they receive)
	Sink map[string]int64
}

func (m *Model) Clone() explore.Model {
	bz, _ := json.Marshal(m)
	var c Model
	_ = json.Unmarshal(bz, &c)
	return &c
}

func (m *Model) Canon() []byte {
	bz, _ := json.Marshal(m) // maps are emitted with sorted keys
	return bz
}

func bkey(ch, tok string, n uint64) string { return fmt.Sprintf("%s/%s/%d", ch, tok, n) }

// ---------------------------------------------------------------- init

var startHold = map[string]int64{"FX": 0, "usdt": 0, "tok": 0}

func (s *Spec) Init() *explore.State {
	w := world.New(world.Config{Validators: 2, Actors: []string{"bank", "u1", "u2", "mallory", "rel"}})
	s.w = w
	ctx := w.Root
	s.os = map[string][]scen.Oracle{}
	nonces := map[string]uint64{}
	for _, ch := range s.Chains {
		s.os[ch] = scen.SetupOracles(w, ctx, ch, []string{ch + "-o1"}, []int64{10000})
	}
	s.toks = map[string]scen.Token{}
	for _, t := range s.Tokens {
		switch t {
		case "FX":
			s.toks[t] = scen.RegisterFX(w, ctx, s.os, nonces, 1000)
		case "usdt":
			s.toks[t] = scen.RegisterModuleToken(w, ctx, "USDT", s.os, nonces, 1000)
		case "tok":
			s.toks[t] = scen.RegisterExternalToken(w, ctx, w.A("u1"), "TOK", 1000, s.os, nonces, 1000)
		}
	}
	s.tracked = []world.Actor{w.A("u1"), w.A("u2"), w.A("mallory")}
	if s.Inbound {
		// a contract that always reverts (target of failing inbound bridge calls); tracked like an account
		s.reverter = w.Deploy(ctx, w.A("rel"), evmasm.Program{Revert: true}.InitCode())
	}
	m := &Model{Hold: map[string]map[string]int64{}, Recs: map[uint64]*Rec{}, Batches: map[string]*Batch{}, Calls: map[uint64]*Call{}, Dep: map[string]int64{}, Wd: map[string]int64{},
		Escrow: map[string]int64{}, ExtSupply: map[string]int64{}, Nonce: nonces, ExtH: map[string]uint64{}, Ext: map[string]*ExtChain{}, NextRec: map[string]uint64{}, Sink: map[string]int64{}}
	for _, ch := range s.Chains {
		m.ExtH[ch] = 1000
		m.Ext[ch] = &ExtChain{Height: 1000, EventNonce: nonces[ch], Relayed: nonces[ch], BatchDone: map[string]uint64{}, CallDone: map[uint64]bool{}}
	}
	st := &explore.State{W: w, Ctx: ctx, Model: m}
	// seed holdings: u1 and u2 receive 20 units of each token through real deposits (FX: they already hold FX; tracked as delta 0)
	for _, a := range s.tracked {
		m.Hold[a.Name] = map[string]int64{}
	}
	for _, t := range s.Tokens {
		tk := s.toks[t]
		switch tk.Kind {
		case "module":
			for _, u := range []string{"u1", "u2"} {
				s.deposit(st, s.Chains[0], u, t, 20, true)
			}
		case "external":
			m.Hold["u1"][t] = 1000
			// u1 keeps part of the token as base coin (user-level conversion)
			w.MustDeliver(ctx, &erc20types.MsgConvertERC20{ContractAddress: tk.ERC20.String(), Amount: sdkmath.NewInt(100), Receiver: w.A("u1").Bech(), Sender: w.A("u1").Hex().String()})
		}
	}
	// FX is tracked relative to the root balances
	for _, a := range s.tracked {
		if _, ok := s.toks["FX"]; ok {
			m.Hold[a.Name]["FX"] = 0
		}
	}
	s.fxBase = map[string]sdkmath.Int{}
	for _, a := range s.tracked {
		if tk, ok := s.toks["FX"]; ok {
			s.fxBase[a.Name] = scen.Holdings(w, ctx, tk, a.Acc())
		}
	}
	// a pool that one batch cannot empty: the set-up queues Prefill transfers of the first token through the ordinary send
	for i := 0; i < s.Prefill; i++ {
		s.sendOp(s.Chains[0], "u2", s.Tokens[0], 1, 2).Run(st) // on the root context itself: it is part of the scenario
		if !st.Accepted {
			panic("set-up: prefill send refused")
		}
	}
	st.Accepted, st.Outcome = false, ""
	return st
}

// deposit runs one observed SendToFx claim and its execution; returns whether the execution succeeded.
// voteFailed is set when the oracle's claim transaction itself failed (panic or error inside event handling).
func (s *Spec) deposit(st *explore.State, ch, user, tok string, amt int64, must bool) (ok bool) {
	m := st.Model.(*Model)
	tk := s.toks[tok]
	m.Nonce[ch]++
	n := m.Nonce[ch]
	h := m.ExtH[ch]
	vr := scen.Vote(s.w, st.Ctx, ch, s.os[ch][0], scen.SendToFxClaim(ch, n, h, tk.Ext[ch], amt, scen.ExtAddr(ch, "depositor"), s.w.A(user).Acc(), "", ""))
	if !vr.OK() {
		if must {
			panic("set-up deposit vote failed: " + vr.String())
		}
		m.Nonce[ch]--
		s.lastVoteFailure = vr.String() + "\n" + vr.Stack
		return false
	}
	s.lastVoteFailure = ""
	r := s.w.CallABI(st.Ctx, s.w.A("rel"), cctypes.GetAddress(), cctypes.GetABI(), nil, 800000, "executeClaim", ch, new(big.Int).SetUint64(n))
	if !r.Success() {
		if must {
			panic(fmt.Sprintf("set-up deposit failed: %s", r))
		}
		return false
	}
	m.Hold[user][tok] += amt
	m.Dep[tok] += amt
	m.ExtSupply[ch+"/"+tok] -= amt
	if tk.Kind == "external" {
		m.Escrow[ch+"/"+tok] -= amt
	}
	return true
}

func (s *Spec) sig(x string) string { return s.Prop + "/" + x }

func (s *Spec) baseCoin(tok string, amt int64) sdk.Coin {
	return sdk.NewInt64Coin(s.toks[tok].Base, amt)
}

func (s *Spec) holdings(ctx sdk.Context, a world.Actor, tok string) int64 {
	h := scen.Holdings(s.w, ctx, s.toks[tok], a.Acc())
	if tok == "FX" {
		h = h.Sub(s.fxBase[a.Name])
	}
	return h.Int64()
}

// ---------------------------------------------------------------- ops

func res(c *explore.State, ok bool) {
	c.Accepted = ok
	c.Outcome = map[bool]string{true: "ok", false: "rejected"}[ok]
}

func insufficient(err error) bool {
	return err != nil && (strings.Contains(err.Error(), "insufficient funds") || strings.Contains(err.Error(), "smaller than"))
}

func (s *Spec) Ops(st *explore.State) []explore.Op {
	m := st.Model.(*Model)
	ctx := st.Ctx
	var ops []explore.Op
	ch0 := s.Chains[0]
	users := []string{"u1", "u2"}

	focus := s.Focus == "batches"
	// deposits (one observed event each)
	if !s.ExtSim && s.Ledger && !focus {
		for _, ch := range s.Chains {
			for _, t := range s.Tokens {
				ch, t := ch, t
				if len(m.Recs)+int(m.Dep[t]) > 60 {
					continue
				}
				// an externally-owned (fxcore-native) token exists on the external chain only after an executed withdrawal
				if s.toks[t].Kind == "external" && m.ExtSupply[ch+"/"+t] < 2 {
					continue
				}
				ops = append(ops, explore.Op{Name: fmt.Sprintf("Deposit(%s,u1,%s,2)", ch, t), Run: func(c *explore.State) {
					cm := c.Model.(*Model)
					tk := s.toks[t]
					ok := s.deposit(c, ch, "u1", t, 2, false)
					res(c, ok)
					if !ok && s.lastVoteFailure != "" {
						c.Outcome = "vote-failed"
						c.Violate("observed-event-is-processed", s.sig("deposit-claim-vote-failed"), s.lastVoteFailure)
						return
					}
					if !ok {
						// an externally-owned token can only come back if it left through this chain before
						if !(tk.Kind == "external" && cm.Escrow[ch+"/"+t] < 2) && s.Ledger {
							c.Violate("deposit-credits-receiver", s.sig("deposit-execution-failed"), fmt.Sprintf("deposit of 2 %s through %s could not be executed", t, ch))
						}
					}
				}})
			}
		}
	}
	if s.Lookalike {
		for _, sym := range []string{"fx", "Fx"} {
			sym := sym
			contract := scen.ExtAddr(ch0, "lookalike-"+sym)
			if _, known := scen.Keeper(s.w, ch0).GetBridgeDenomByContract(st.Ctx, contract); !known {
				// a token of another project whose symbol happens to read like the native coin's (18 decimals): whatever
				// becomes of it, the native coin's books on this chain are not its business
				ops = append(ops, explore.Op{Name: fmt.Sprintf("RegisterLookalike(%s,%s)", ch0, sym), Run: func(c *explore.State) {
					cm := c.Model.(*Model)
					cm.Nonce[ch0]++
					vr := scen.Vote(s.w, c.Ctx, ch0, s.os[ch0][0], scen.BridgeTokenClaim(ch0, cm.Nonce[ch0], cm.ExtH[ch0], contract, "Lookalike", sym, 18, ""))
					if !vr.OK() {
						cm.Nonce[ch0]--
					}
					res(c, vr.OK())
				}})
			} else {
				ops = append(ops, explore.Op{Name: fmt.Sprintf("DepositLookalike(%s,%s,u2,2)", ch0, sym), Run: func(c *explore.State) {
					cm := c.Model.(*Model)
					cm.Nonce[ch0]++
					n := cm.Nonce[ch0]
					vr := scen.Vote(s.w, c.Ctx, ch0, s.os[ch0][0], scen.SendToFxClaim(ch0, n, cm.ExtH[ch0], contract, 2, scen.ExtAddr(ch0, "depositor"), s.w.A("u2").Acc(), "", ""))
					if !vr.OK() {
						cm.Nonce[ch0]--
						res(c, false)
						return
					}
					er := s.w.CallABI(c.Ctx, s.w.A("rel"), cctypes.GetAddress(), cctypes.GetABI(), nil, 800000, "executeClaim", ch0, new(big.Int).SetUint64(n))
					res(c, er.Success())
					// the ledger is not told anything: every tracked holding (the native coin above all) must stay as it is
				}})
			}
		}
	}
	// sends
	nSend := len(m.Recs)
	if nSend < s.MaxSend {
		for _, u := range users {
			for _, t := range s.Tokens {
				for _, af := range [][2]int64{{2, 1}, {1, 2}} {
					u, t, amt, fee := u, t, af[0], af[1]
					if u == "u2" && (focus || amt != 2 || t != s.Tokens[0]) {
						continue // second sender: one shape is enough to collide with the first
					}
					ops = append(ops, s.sendOp(ch0, u, t, amt, fee))
				}
			}
		}
		if s.EVM {
			for _, t := range s.Tokens {
				ops = append(ops, s.sendEvmOp(ch0, "u1", t, 2, 1))
			}
		}
	}
	// cancel / increase fee on the two oldest pool entries
	var poolIDs []uint64
	for id, r := range m.Recs {
		if r.State == "pool" {
			poolIDs = append(poolIDs, id)
		}
	}
	sort.Slice(poolIDs, func(i, j int) bool { return poolIDs[i] < poolIDs[j] })
	if len(poolIDs) > 2 {
		poolIDs = poolIDs[:2]
	}
	if focus && len(poolIDs) > 1 {
		poolIDs = poolIDs[:1]
	}
	for _, id := range poolIDs {
		r := m.Recs[id]
		if focus {
			ops = append(ops, s.cancelOp(id, r.Sender, false))
			continue
		}
		ops = append(ops, s.cancelOp(id, r.Sender, false), s.cancelOp(id, "mallory", false), s.feeOp(id, r.Sender, false))
		// somebody else adds to the fee (allowed: it costs that account the added fee, the entry stays its creator's),
		// and a fee offered in a different token than the entry's (never allowed)
		other := "u2"
		if r.Sender == "u2" {
			other = "u1"
		}
		ops = append(ops, s.feeOp(id, other, false))
		for _, t := range s.Tokens {
			if t != r.Tok {
				ops = append(ops, s.feeOtherTokenOp(id, r.Sender, t))
				break
			}
		}
		if s.EVM {
			ops = append(ops, s.cancelOp(id, r.Sender, true), s.feeOp(id, r.Sender, true))
		}
	}
	// a cancel of something that is not in the pool any more (batched or settled): must be refused
	for id, r := range m.Recs {
		if r.State != "pool" && id <= 2 {
			ops = append(ops, s.cancelOp(id, r.Sender, false))
		}
	}
	// batches
	for _, t := range s.Tokens {
		hasPool := false
		for _, r := range m.Recs {
			if r.State == "pool" && r.Tok == t {
				hasPool = true
			}
		}
		if hasPool && focus {
			ops = append(ops, s.batchOp(ch0, t, 0, 1))
		} else if hasPool {
			ops = append(ops, s.batchOp(ch0, t, 0, 1), s.batchOp(ch0, t, 2, 1), s.batchOp(ch0, t, 0, 1000))
		}
	}
	if !s.ExtSim {
		var bks []string
		for k := range m.Batches {
			bks = append(bks, k)
		}
		sort.Strings(bks)
		for _, k := range bks {
			ops = append(ops, s.batchExecutedOp(m.Batches[k]))
		}
		// a far-future external height observed through a deposit: everything open times out
		ops = append(ops, explore.Op{Name: "ObserveFarHeight(" + ch0 + ")", Run: func(c *explore.State) {
			cm := c.Model.(*Model)
			saved := cm.Clone().(*Model)
			cm.ExtH[ch0] += 1_000_000
			s.observeHeightEffects(c, ch0, cm.ExtH[ch0])
			t := s.Tokens[0]
			ok := s.deposit(c, ch0, "u2", t, 1, false)
			res(c, ok)
			if !ok && s.lastVoteFailure != "" {
				// the oracle's claim transaction failed inside the timeout handling: the event can never be observed
				c.Outcome = "vote-failed"
				c.Violate("timeout-refund-succeeds", s.sig("timeout-of-bridge-call-cannot-be-processed/"+s.openKinds(saved)+"/"+world.Site(s.lastVoteFailure)), "the claim that proves the timeout height fails inside the timeout handling, so the event can never be observed: "+s.lastVoteFailure)
				*cm = *saved
			}
		}})
	}
	// bridge calls
	if s.Calls {
		if len(m.Calls) < 2 {
			for _, t := range s.Tokens {
				ops = append(ops, s.callOutOp(ch0, "u1", []string{t}, "u1"), s.callOutOp(ch0, "u1", []string{t}, "u2"))
			}
			if len(s.Tokens) > 1 {
				ops = append(ops, s.callOutOp(ch0, "u1", s.Tokens[:2], "u1"))
			}
		}
		if !s.ExtSim {
			for n, c := range m.Calls {
				if c.State == "open" && c.ParkedEvent == 0 {
					ops = append(ops, s.callResultOp(n, true), s.callResultOp(n, false))
				}
				if c.ParkedEvent != 0 {
					ops = append(ops, s.execParkedOp(n))
				}
			}
		}
	}
	if s.Inbound {
		for _, t := range s.Tokens {
			if s.toks[t].Kind == "external" && m.ExtSupply[ch0+"/"+t] < 2 {
				continue
			}
			if len(m.Calls) < 3 {
				ops = append(ops, s.callInFailOp(ch0, t, "u2"))
			}
			ops = append(ops, s.callInOp(ch0, t, "u2", "u2"), s.callInOp(ch0, t, "u2", "mallory"))
			if s.SendCallTo {
				ops = append(ops, s.callInSendCallToOp(ch0, t, "u2", "u1", false), s.callInSendCallToOp(ch0, t, "u2", "mallory", true))
			}
			if len(m.Sink) == 0 && t == s.Tokens[len(s.Tokens)-1] {
				ops = append(ops, s.callInReentrantOp(ch0, t))
			}
		}
	}
	ops = append(ops, explore.Op{Name: "Block", Run: func(c *explore.State) {
		next, r := s.w.NextBlock(c.Ctx, 5*time.Second)
		c.Ctx = next
		res(c, r.Err == nil && r.Panic == nil)
		if !c.Accepted {
			c.Violate("block-never-halts", s.sig("block-halt"), fmt.Sprintf("%v %v\n%s", r.Panic, r.Err, r.Stack))
		}
	}})
	if s.ExtSim {
		ops = append(ops, s.extOps(st)...)
	}
	_ = ctx
	sort.SliceStable(ops, func(i, j int) bool { return false })
	return ops
}

func (s *Spec) sendOp(ch, user, tok string, amt, fee int64) explore.Op {
	return explore.Op{Name: fmt.Sprintf("Send(%s,%s,%d+%d)", user, tok, amt, fee), Run: func(c *explore.State) {
		u := s.w.A(user)
		base := s.w.App.BankKeeper.GetBalance(c.Ctx, u.Acc(), s.toks[tok].Base).Amount
		dest := scen.ExtAddr(ch, user+"-ext")
		r := s.w.Deliver(c.Ctx, &cctypes.MsgSendToExternal{ChainName: ch, Sender: u.Bech(), Dest: dest, Amount: s.baseCoin(tok, amt), BridgeFee: s.baseCoin(tok, fee)})
		res(c, r.OK())
		if !r.OK() {
			if base.GTE(sdkmath.NewInt(amt+fee)) && s.Ledger {
				c.Outcome = "refused-with-funds"
				c.Violate("holdings-stay-withdrawable", s.sig("send-refused-although-holder-has-funds"), fmt.Sprintf("%s holds %s %s but a send of %d+%d to %s was refused: %v", user, base, s.toks[tok].Base, amt, fee, ch, r.Err))
			}
			return
		}
		s.recordSend(c, ch, user, dest, tok, amt, fee, false)
	}}
}

func (s *Spec) recordSend(c *explore.State, ch, user, dest, tok string, amt, fee int64, evm bool) {
	m := c.Model.(*Model)
	id := scen.LastTxPoolID(s.w, c.Ctx, ch)
	m.NextRec[ch]++
	if s.Book && id != m.NextRec[ch] {
		c.Violate("ids-unique-increasing", s.sig("pool-id-not-next"), fmt.Sprintf("new transfer got id %d, expected %d", id, m.NextRec[ch]))
	}
	if _, dup := m.Recs[id]; dup && s.Book {
		c.Violate("ids-never-reused", s.sig("pool-id-reused"), fmt.Sprintf("id %d", id))
	}
	m.Recs[id] = &Rec{ID: id, Chain: ch, Sender: user, Dest: dest, Tok: tok, Amt: amt, Fee: fee, State: "pool", EVM: evm}
	m.Hold[user][tok] -= amt + fee
	if s.toks[tok].Kind == "external" {
		m.Escrow[ch+"/"+tok] += amt + fee
	}
}

// sendEvmOp: the user converts base coin to ERC-20 (if needed), approves the precompile and calls crossChain.
func (s *Spec) sendEvmOp(ch, user, tok string, amt, fee int64) explore.Op {
	return explore.Op{Name: fmt.Sprintf("SendEVM(%s,%s,%d+%d)", user, tok, amt, fee), Run: func(c *explore.State) {
		u := s.w.A(user)
		tk := s.toks[tok]
		total := big.NewInt(amt + fee)
		var value *big.Int
		token := tk.ERC20
		if tk.Kind == "fx" {
			token = common.Address{}
			value = total
		} else {
			if scen.BalanceOf(s.w, c.Ctx, tk.ERC20, u.Hex()).LT(sdkmath.NewInt(amt + fee)) {
				r := s.w.Deliver(c.Ctx, &erc20types.MsgConvertCoin{Coin: s.baseCoin(tok, amt+fee), Receiver: u.Hex().String(), Sender: u.Bech()})
				if !r.OK() {
					c.Outcome = "convert-rejected"
					return
				}
			}
			ar := s.w.CallABI(c.Ctx, u, tk.ERC20, erc20ABI, nil, 200000, "approve", cctypes.GetAddress(), total)
			if !ar.Success() {
				c.Outcome = "approve-failed"
				return
			}
		}
		dest := scen.ExtAddr(ch, user+"-ext")
		var target [32]byte
		copy(target[:], ch)
		r := s.w.CallABI(c.Ctx, u, cctypes.GetAddress(), cctypes.GetABI(), value, 1_000_000, "crossChain", token, dest, big.NewInt(amt), big.NewInt(fee), target, "")
		res(c, r.Success())
		if !r.Success() {
			if s.Ledger && r.Kept() {
				c.Outcome = "refused-with-funds"
				c.Violate("holdings-stay-withdrawable", s.sig("evm-send-refused-although-holder-has-funds"), fmt.Sprintf("crossChain of %d+%d %s from %s reverted: %s", amt, fee, tok, user, r))
			}
			return
		}
		s.recordSend(c, ch, user, dest, tok, amt, fee, true)
	}}
}

func (s *Spec) cancelOp(id uint64, who string, evm bool) explore.Op {
	name := fmt.Sprintf("Cancel(%d,%s)", id, who)
	if evm {
		name = fmt.Sprintf("CancelEVM(%d,%s)", id, who)
	}
	return explore.Op{Name: name, Run: func(c *explore.State) {
		m := c.Model.(*Model)
		r := m.Recs[id]
		a := s.w.A(who)
		var ok bool
		var errText string
		if evm {
			er := s.w.CallABI(c.Ctx, a, cctypes.GetAddress(), cctypes.GetABI(), nil, 1_000_000, "cancelSendToExternal", r.Chain, new(big.Int).SetUint64(id))
			ok = er.Success()
			errText = er.String()
		} else {
			dr := s.w.Deliver(c.Ctx, &cctypes.MsgCancelSendToExternal{ChainName: r.Chain, TransactionId: id, Sender: a.Bech()})
			ok = dr.OK()
			errText = dr.String()
		}
		res(c, ok)
		owner := who == r.Sender
		switch {
		case ok && !owner:
			c.Violate("only-creator-cancels", s.sig("cancelled-by-non-owner"), fmt.Sprintf("%s cancelled transfer %d of %s", who, id, r.Sender))
		case ok && r.State != "pool":
			c.Violate("settled-once", s.sig("cancelled-although-not-in-pool"), fmt.Sprintf("transfer %d is %s", id, r.State))
		case !ok && owner && r.State == "pool":
			if s.Book || s.Ledger {
				c.Outcome = "owner-cancel-refused"
				c.Violate("creator-can-cancel", s.sig("owner-cancel-of-pooled-transfer-refused"), fmt.Sprintf("transfer %d (evm-created=%v, via-precompile=%v): %s", id, r.EVM, evm, errText))
			}
		}
		if ok {
			r.State = "refunded"
			m.Hold[r.Sender][r.Tok] += r.Amt + r.Fee
			if s.toks[r.Tok].Kind == "external" {
				m.Escrow[r.Chain+"/"+r.Tok] -= r.Amt + r.Fee
			}
		}
	}}
}

// feeOtherTokenOp offers a fee increase in the bridge denomination of a token other than the entry's own.
func (s *Spec) feeOtherTokenOp(id uint64, who, otherTok string) explore.Op {
	return explore.Op{Name: fmt.Sprintf("IncreaseFee(%d,%s,+1 %s)", id, who, otherTok), Run: func(c *explore.State) {
		m := c.Model.(*Model)
		r := m.Recs[id]
		a := s.w.A(who)
		tk := s.toks[otherTok]
		denom := tk.Bridge[r.Chain]
		if s.w.App.BankKeeper.GetBalance(c.Ctx, a.Acc(), denom).Amount.IsZero() {
			denom = tk.Base
		}
		if s.w.App.BankKeeper.GetBalance(c.Ctx, a.Acc(), denom).Amount.IsZero() {
			c.Outcome = "n/a"
			return
		}
		dr := s.w.Deliver(c.Ctx, &cctypes.MsgIncreaseBridgeFee{ChainName: r.Chain, TransactionId: id, Sender: a.Bech(), AddBridgeFee: sdk.NewInt64Coin(denom, 1)})
		res(c, dr.OK())
		if dr.OK() {
			c.Violate("fee-increase-costs-exactly-the-added-fee", s.sig("fee-increase-paid-in-another-token"), fmt.Sprintf("transfer %d carries %s; a fee increase offered as 1 %s was accepted", id, r.Tok, denom))
		}
	}}
}

func (s *Spec) feeOp(id uint64, who string, evm bool) explore.Op {
	name := fmt.Sprintf("IncreaseFee(%d,%s,+1)", id, who)
	if evm {
		name = fmt.Sprintf("IncreaseFeeEVM(%d,%s,+1)", id, who)
	}
	return explore.Op{Name: name, Run: func(c *explore.State) {
		m := c.Model.(*Model)
		r := m.Recs[id]
		a := s.w.A(who)
		tk := s.toks[r.Tok]
		var ok bool
		if evm {
			token := tk.ERC20
			var value *big.Int
			if tk.Kind == "fx" {
				token = common.Address{}
				value = big.NewInt(1)
			} else {
				if scen.BalanceOf(s.w, c.Ctx, tk.ERC20, a.Hex()).LT(sdkmath.NewInt(1)) {
					if cr := s.w.Deliver(c.Ctx, &erc20types.MsgConvertCoin{Coin: s.baseCoin(r.Tok, 1), Receiver: a.Hex().String(), Sender: a.Bech()}); !cr.OK() {
						c.Outcome = "convert-rejected"
						return
					}
				}
				if ar := s.w.CallABI(c.Ctx, a, tk.ERC20, erc20ABI, nil, 200000, "approve", cctypes.GetAddress(), big.NewInt(1)); !ar.Success() {
					c.Outcome = "approve-failed"
					return
				}
			}
			er := s.w.CallABI(c.Ctx, a, cctypes.GetAddress(), cctypes.GetABI(), value, 1_000_000, "increaseBridgeFee", r.Chain, new(big.Int).SetUint64(id), token, big.NewInt(1))
			ok = er.Success()
		} else {
			// the message names the fee in the denomination the pool entry is kept in (bridge denom; FX for FX)
			denom := tk.Bridge[r.Chain]
			if s.w.App.BankKeeper.GetBalance(c.Ctx, a.Acc(), denom).Amount.IsZero() {
				denom = tk.Base
			}
			dr := s.w.Deliver(c.Ctx, &cctypes.MsgIncreaseBridgeFee{ChainName: r.Chain, TransactionId: id, Sender: a.Bech(), AddBridgeFee: sdk.NewInt64Coin(denom, 1)})
			ok = dr.OK()
		}
		res(c, ok)
		if ok {
			if r.State != "pool" {
				c.Violate("fee-increase-only-in-pool", s.sig("fee-increased-outside-pool"), fmt.Sprintf("transfer %d is %s", id, r.State))
			}
			r.Fee++
			m.Hold[who][r.Tok]--
			if tk.Kind == "external" {
				m.Escrow[r.Chain+"/"+r.Tok]++
			}
		}
	}}
}

func (s *Spec) batchOp(ch, tok string, baseFee, minFee int64) explore.Op {
	return explore.Op{Name: fmt.Sprintf("RequestBatch(%s,base=%d,min=%d)", tok, baseFee, minFee), Run: func(c *explore.State) {
		m := c.Model.(*Model)
		k := scen.Keeper(s.w, ch)
		tk := s.toks[tok]
		before := scen.LastBatchID(s.w, c.Ctx, ch)
		r := s.w.Deliver(c.Ctx, &cctypes.MsgRequestBatch{ChainName: ch, Sender: s.os[ch][0].Bridger.Bech(), Denom: tk.Bridge[ch], MinimumFee: sdkmath.NewInt(minFee), FeeReceive: scen.ExtAddr(ch, "feercv"), BaseFee: sdkmath.NewInt(baseFee)})
		res(c, r.OK())
		if !r.OK() {
			return
		}
		n := scen.LastBatchID(s.w, c.Ctx, ch)
		if s.Book && n != before+1 {
			c.Violate("ids-unique-increasing", s.sig("batch-nonce-not-next"), fmt.Sprintf("%d after %d", n, before))
		}
		b := k.GetOutgoingTxBatch(c.Ctx, tk.Ext[ch], n)
		if b == nil {
			c.Violate("batch-stored", s.sig("batch-missing-after-request"), fmt.Sprintf("%s nonce %d", tok, n))
			return
		}
		mb := &Batch{Nonce: n, Chain: ch, Tok: tok, Timeout: b.BatchTimeout, Height: c.Ctx.BlockHeight()}
		total := int64(0)
		for _, tx := range b.Transactions {
			rec, ok := m.Recs[tx.Id]
			if !ok || rec.State != "pool" || rec.Tok != tok {
				if s.Book {
					c.Violate("exactly-one-place", s.sig("batched-transfer-not-from-pool"), fmt.Sprintf("batch %d contains transfer %d whose model state is %v", n, tx.Id, rec))
				}
				continue
			}
			if rec.Fee < baseFee && s.Book {
				c.Violate("batch-respects-base-fee", s.sig("batched-below-base-fee"), fmt.Sprintf("transfer %d fee %d < base fee %d", tx.Id, rec.Fee, baseFee))
			}
			rec.State = fmt.Sprintf("batch:%d", n)
			mb.IDs = append(mb.IDs, tx.Id)
			total += rec.Fee
		}
		if total < minFee && s.Book {
			c.Violate("batch-respects-minimum-fee", s.sig("batch-below-minimum-fee"), fmt.Sprintf("total fee %d < minimum %d", total, minFee))
		}
		sort.Slice(mb.IDs, func(i, j int) bool { return mb.IDs[i] < mb.IDs[j] })
		m.Batches[bkey(ch, tok, n)] = mb
		if m.Ext[ch] != nil && s.ExtSim {
			if lo := k.GetLastObservedBlockHeight(c.Ctx); lo.ExternalBlockHeight == 0 {
				c.Violate("nothing-batched-before-observation", s.sig("batch-before-any-external-height"), "")
			}
		}
	}}
}

// settleBatch applies "batch b executed on the external chain" to the model.
func (s *Spec) settleBatch(m *Model, b *Batch) {
	for _, id := range b.IDs {
		r := m.Recs[id]
		r.State = "executed"
		m.Wd[r.Tok] += r.Amt + r.Fee
		m.ExtSupply[b.Chain+"/"+r.Tok] += r.Amt + r.Fee
	}
	delete(m.Batches, bkey(b.Chain, b.Tok, b.Nonce))
	// every older batch of the same token is cancelled: its transfers return to the pool
	for k, ob := range m.Batches {
		if ob.Chain == b.Chain && ob.Tok == b.Tok && ob.Nonce < b.Nonce {
			for _, id := range ob.IDs {
				m.Recs[id].State = "pool"
			}
			delete(m.Batches, k)
		}
	}
}

func (s *Spec) batchExecutedOp(b *Batch) explore.Op {
	return explore.Op{Name: fmt.Sprintf("BatchExecuted(%s,%d)", b.Tok, b.Nonce), Run: func(c *explore.State) {
		m := c.Model.(*Model)
		ch := b.Chain
		m.Nonce[ch]++
		m.ExtH[ch]++
		tk := s.toks[b.Tok]
		claim := &cctypes.MsgSendToExternalClaim{EventNonce: m.Nonce[ch], BlockHeight: m.ExtH[ch], BatchNonce: b.Nonce, TokenContract: tk.Ext[ch], ChainName: ch}
		r := scen.Vote(s.w, c.Ctx, ch, s.os[ch][0], claim)
		res(c, r.OK())
		if !r.OK() {
			m.Nonce[ch]--
			c.Violate("execution-claim-accepted", s.sig("batch-executed-claim-rejected"), r.String())
			return
		}
		s.settleBatch(m, m.Batches[bkey(ch, b.Tok, b.Nonce)])
		s.observeHeightEffects(c, ch, m.ExtH[ch])
	}}
}

// observeHeightEffects applies the model's timeout rule after an event at external height h was observed:
// batches with timeout < h are cancelled, bridge calls with timeout <= h are refunded.
func (s *Spec) observeHeightEffects(c *explore.State, ch string, h uint64) {
	m := c.Model.(*Model)
	for k, b := range m.Batches {
		if b.Chain == ch && b.Timeout < h {
			for _, id := range b.IDs {
				m.Recs[id].State = "pool"
			}
			delete(m.Batches, k)
		}
	}
	var ns []uint64
	for n := range m.Calls {
		ns = append(ns, n)
	}
	sort.Slice(ns, func(i, j int) bool { return ns[i] < ns[j] })
	for _, n := range ns {
		call := m.Calls[n]
		if call.Chain != ch || call.State != "open" {
			continue
		}
		if call.Timeout > h {
			break // the implementation stops at the first call that has not timed out
		}
		if call.ResultParked {
			continue
		}
		s.refundCall(m, call)
	}
}

func (s *Spec) refundCall(m *Model, call *Call) {
	call.State = "refunded"
	for t, a := range call.Toks {
		m.Hold[call.Refund][t] += a
		if s.toks[t].Kind == "external" {
			m.Escrow[call.Chain+"/"+t] -= a
		}
	}
}

func (s *Spec) afterTimeoutEvent(c *explore.State, ch string) {}

func (s *Spec) callOutOp(ch, user string, toks []string, refund string) explore.Op {
	return explore.Op{Name: fmt.Sprintf("BridgeCallOut(%s,%s,refund=%s)", user, strings.Join(toks, "+"), refund), Run: func(c *explore.State) {
		m := c.Model.(*Model)
		u := s.w.A(user)
		coins := sdk.NewCoins()
		enough := true
		for _, t := range toks {
			coins = coins.Add(s.baseCoin(t, 2))
			if s.w.App.BankKeeper.GetBalance(c.Ctx, u.Acc(), s.toks[t].Base).Amount.LT(sdkmath.NewInt(2)) {
				enough = false
			}
		}
		before := scen.LastBridgeCallID(s.w, c.Ctx, ch)
		r := s.w.Deliver(c.Ctx, &cctypes.MsgBridgeCall{ChainName: ch, Sender: u.Bech(), Refund: s.w.A(refund).Bech(), Coins: coins, To: scen.ExtAddr(ch, "callee"), Data: "01", Value: sdkmath.ZeroInt(), Memo: "02"})
		res(c, r.OK())
		if !r.OK() {
			if enough && s.Ledger {
				c.Violate("holdings-stay-withdrawable", s.sig("bridge-call-refused-although-holder-has-funds"), r.String())
			}
			return
		}
		n := scen.LastBridgeCallID(s.w, c.Ctx, ch)
		if s.Book && n != before+1 {
			c.Violate("ids-unique-increasing", s.sig("bridge-call-nonce-not-next"), fmt.Sprintf("%d after %d", n, before))
		}
		k := scen.Keeper(s.w, ch)
		oc, _ := k.GetOutgoingBridgeCallByNonce(c.Ctx, n)
		call := &Call{Nonce: n, Chain: ch, Sender: user, Refund: refund, Toks: map[string]int64{}, State: "open", FromMsg: true}
		if oc != nil {
			call.Timeout = oc.Timeout
		}
		for _, t := range toks {
			call.Toks[t] = 2
			m.Hold[user][t] -= 2
			if s.toks[t].Kind == "external" {
				m.Escrow[ch+"/"+t] += 2
			}
		}
		m.Calls[n] = call
	}}
}

func (s *Spec) callResultOp(n uint64, success bool) explore.Op {
	return explore.Op{Name: fmt.Sprintf("BridgeCallResult(%d,%v)", n, success), Run: func(c *explore.State) {
		m := c.Model.(*Model)
		call := m.Calls[n]
		ch := call.Chain
		m.Nonce[ch]++
		m.ExtH[ch]++
		en := m.Nonce[ch]
		claim := &cctypes.MsgBridgeCallResultClaim{ChainName: ch, EventNonce: en, BlockHeight: m.ExtH[ch], Nonce: n, TxOrigin: scen.ExtAddr(ch, "origin"), Success: success, Cause: ""}
		r := scen.Vote(s.w, c.Ctx, ch, s.os[ch][0], claim)
		if !r.OK() {
			m.Nonce[ch]--
			res(c, false)
			c.Violate("execution-claim-accepted", s.sig("bridge-call-result-claim-rejected"), r.String())
			return
		}
		if call.State == "open" {
			call.ResultParked = true // the observed result is parked before the timeout clean-up of this event runs
		}
		s.observeHeightEffects(c, ch, m.ExtH[ch])
		if s.LateExec {
			call.ParkedEvent, call.ParkedOK = en, success
			res(c, true)
			c.Outcome = "parked"
			return
		}
		s.executeCallResult(c, call, en, success)
	}}
}

// execParkedOp: somebody executes the parked result of call n.
func (s *Spec) execParkedOp(n uint64) explore.Op {
	return explore.Op{Name: fmt.Sprintf("ExecuteParkedResult(%d)", n), Run: func(c *explore.State) {
		call := c.Model.(*Model).Calls[n]
		s.executeCallResult(c, call, call.ParkedEvent, call.ParkedOK)
	}}
}

// executeCallResult runs executeClaim for the observed result (event nonce en) of call and applies it to the model.
func (s *Spec) executeCallResult(c *explore.State, call *Call, en uint64, success bool) {
	m := c.Model.(*Model)
	ch, n := call.Chain, call.Nonce
	{
		er := s.w.CallABI(c.Ctx, s.w.A("rel"), cctypes.GetAddress(), cctypes.GetABI(), nil, 1_000_000, "executeClaim", ch, new(big.Int).SetUint64(en))
		res(c, er.Success())
		if !er.Success() {
			c.Outcome = "execute-failed"
			if call.State == "open" {
				c.Violate("result-settles-call", s.sig(fmt.Sprintf("bridge-call-result-not-executable/success=%v/%s/%s", success, s.callKinds(call), world.Site(er.String()+"\n"+er.Stack))), er.String()+"\n"+er.Stack)
			}
			return
		}
		call.ParkedEvent = 0
		if call.State != "open" {
			c.Violate("settled-once", s.sig("bridge-call-settled-twice"), fmt.Sprintf("call %d was already %s", n, call.State))
			return
		}
		if success {
			call.State = "executed"
			for t, a := range call.Toks {
				m.Wd[t] += a
				m.ExtSupply[ch+"/"+t] += a
			}
		} else {
			s.refundCall(m, call)
		}
	}
}

// callInOp: an inbound bridge call carrying 2 units of tok to an externally owned account.
func (s *Spec) callInOp(ch, tok, to, refund string) explore.Op {
	return explore.Op{Name: fmt.Sprintf("BridgeCallIn(%s,to=%s,refund=%s)", tok, to, refund), Run: func(c *explore.State) {
		m := c.Model.(*Model)
		tk := s.toks[tok]
		m.Nonce[ch]++
		m.ExtH[ch]++
		en := m.Nonce[ch]
		claim := &cctypes.MsgBridgeCallClaim{ChainName: ch, EventNonce: en, BlockHeight: m.ExtH[ch], Sender: scen.ExtAddr(ch, "depositor"), Refund: s.w.A(refund).Hex().String(),
			TokenContracts: []string{tk.Ext[ch]}, Amounts: []sdkmath.Int{sdkmath.NewInt(2)}, To: s.w.A(to).Hex().String(), Data: "", Value: sdkmath.ZeroInt(), Memo: "", TxOrigin: scen.ExtAddr(ch, "origin")}
		r := scen.Vote(s.w, c.Ctx, ch, s.os[ch][0], claim)
		if !r.OK() {
			m.Nonce[ch]--
			res(c, false)
			return
		}
		s.observeHeightEffects(c, ch, m.ExtH[ch])
		er := s.w.CallABI(c.Ctx, s.w.A("rel"), cctypes.GetAddress(), cctypes.GetABI(), nil, 2_000_000, "executeClaim", ch, new(big.Int).SetUint64(en))
		res(c, er.Success())
		if !er.Success() {
			c.Outcome = "execute-failed"
			if !(tk.Kind == "external" && m.Escrow[ch+"/"+tok] < 2) && s.Ledger {
				c.Violate("deposit-credits-receiver", s.sig("inbound-bridge-call-not-executable"), er.String())
			}
			return
		}
		m.Hold[to][tok] += 2
		m.Dep[tok] += 2
		m.ExtSupply[ch+"/"+tok] -= 2
		if tk.Kind == "external" {
			m.Escrow[ch+"/"+tok] -= 2
		}
	}}
}

// callInSendCallToOp: an inbound bridge call whose memo is the send-call-to flag. The external sender has the same 20-byte
// address as the local account `sender`; the 2 units of tok are delivered to that address (not to the call's target) and the
// target is called from it. toReverter=false: the target is a plain account, nothing is called, the sender's address holds
// the tokens. toReverter=true: the target reverts, the tokens go into a refund record for `refund`, nobody's holdings change.
func (s *Spec) callInSendCallToOp(ch, tok, sender, refund string, toReverter bool) explore.Op {
	return explore.Op{Name: fmt.Sprintf("BridgeCallInSendCallTo(%s,sender=%s,refund=%s,reverter=%v)", tok, sender, refund, toReverter), Run: func(c *explore.State) {
		m := c.Model.(*Model)
		tk := s.toks[tok]
		m.Nonce[ch]++
		m.ExtH[ch]++
		en := m.Nonce[ch]
		to := s.w.A("u1").Hex()
		if toReverter {
			to = s.reverter
		}
		claim := &cctypes.MsgBridgeCallClaim{ChainName: ch, EventNonce: en, BlockHeight: m.ExtH[ch], Sender: scen.ExtAddrOfHex(ch, s.w.A(sender).Hex()), Refund: scen.ExtAddrOfHex(ch, s.w.A(refund).Hex()),
			TokenContracts: []string{tk.Ext[ch]}, Amounts: []sdkmath.Int{sdkmath.NewInt(2)}, To: scen.ExtAddrOfHex(ch, to), Data: "", Value: sdkmath.ZeroInt(), Memo: hex.EncodeToString(cctypes.MemoSendCallTo.Bytes()), TxOrigin: scen.ExtAddr(ch, "origin")}
		r := scen.Vote(s.w, c.Ctx, ch, s.os[ch][0], claim)
		if !r.OK() {
			m.Nonce[ch]--
			res(c, false)
			return
		}
		s.observeHeightEffects(c, ch, m.ExtH[ch])
		before := scen.LastBridgeCallID(s.w, c.Ctx, ch)
		er := s.w.CallABI(c.Ctx, s.w.A("rel"), cctypes.GetAddress(), cctypes.GetABI(), nil, 3_000_000, "executeClaim", ch, new(big.Int).SetUint64(en))
		res(c, er.Success())
		if !er.Success() {
			c.Outcome = "execute-failed"
			if !(tk.Kind == "external" && m.Escrow[ch+"/"+tok] < 2) && s.Ledger {
				c.Violate("deposit-credits-receiver", s.sig("inbound-bridge-call-not-executable/send-call-to"), er.String())
			}
			return
		}
		m.Dep[tok] += 2
		m.ExtSupply[ch+"/"+tok] -= 2
		if tk.Kind == "external" {
			m.Escrow[ch+"/"+tok] -= 2
		}
		if !toReverter {
			m.Hold[sender][tok] += 2
			return
		}
		n := scen.LastBridgeCallID(s.w, c.Ctx, ch)
		if n != before+1 {
			c.Violate("failed-inbound-call-is-refunded", s.sig("failing-inbound-bridge-call-created-no-refund-record/send-call-to"), "")
			return
		}
		c.Outcome = "refund-record"
		oc, _ := scen.Keeper(s.w, ch).GetOutgoingBridgeCallByNonce(c.Ctx, n)
		m.Calls[n] = &Call{Nonce: n, Chain: ch, Sender: refund, Refund: refund, Toks: map[string]int64{tok: 2}, State: "open", Timeout: oc.Timeout}
	}}
}

// callInReentrantOp: an inbound bridge call carrying 2 units of tok to a contract that, while it is being called,
// asks the precompile to execute the very claim that is delivering the tokens (and ignores the answer).
// Ledger expectation: one observed deposit of 2 credits the contract exactly 2.
func (s *Spec) callInReentrantOp(ch, tok string) explore.Op {
	return explore.Op{Name: fmt.Sprintf("BridgeCallIn(%s,to=reentrant-contract)", tok), Run: func(c *explore.State) {
		m := c.Model.(*Model)
		tk := s.toks[tok]
		en := m.Nonce[ch] + 1
		data, err := cctypes.GetABI().Pack("executeClaim", ch, new(big.Int).SetUint64(en))
		if err != nil {
			panic(err)
		}
		// the guard ends the recursion: the contract re-enters only while it holds no more than the one delivery
		prog := s.w.Deploy(c.Ctx, s.w.A("rel"), evmasm.Program{Actions: []evmasm.Action{
			{StopIfBalanceAbove: &evmasm.BalanceGuard{Token: tk.ERC20, Amount: 2}},
			evmasm.CallOf(evmasm.CALL, cctypes.GetAddress(), data, evmasm.Ignore)}}.InitCode())
		m.Nonce[ch]++
		m.ExtH[ch]++
		claim := &cctypes.MsgBridgeCallClaim{ChainName: ch, EventNonce: en, BlockHeight: m.ExtH[ch], Sender: scen.ExtAddr(ch, "depositor"), Refund: s.w.A("u2").Hex().String(),
			TokenContracts: []string{tk.Ext[ch]}, Amounts: []sdkmath.Int{sdkmath.NewInt(2)}, To: prog.String(), Data: "", Value: sdkmath.ZeroInt(), Memo: "", TxOrigin: scen.ExtAddr(ch, "origin")}
		r := scen.Vote(s.w, c.Ctx, ch, s.os[ch][0], claim)
		if !r.OK() {
			m.Nonce[ch]--
			res(c, false)
			return
		}
		s.observeHeightEffects(c, ch, m.ExtH[ch])
		before := scen.LastBridgeCallID(s.w, c.Ctx, ch)
		er := s.w.CallABI(c.Ctx, s.w.A("rel"), cctypes.GetAddress(), cctypes.GetABI(), nil, 3_000_000, "executeClaim", ch, new(big.Int).SetUint64(en))
		res(c, er.Success())
		if !er.Success() {
			c.Outcome = "execute-failed"
			return
		}
		m.Dep[tok] += 2
		m.ExtSupply[ch+"/"+tok] -= 2
		if tk.Kind == "external" {
			m.Escrow[ch+"/"+tok] -= 2
		}
		got := scen.Holdings(s.w, c.Ctx, tk, prog.Bytes()).Int64()
		if n := scen.LastBridgeCallID(s.w, c.Ctx, ch); n != before {
			// the delivery was turned into a refund record (the contract call counted as failed): nothing reaches the contract
			c.Outcome = "refund-record"
			k := scen.Keeper(s.w, ch)
			oc, _ := k.GetOutgoingBridgeCallByNonce(c.Ctx, n)
			m.Calls[n] = &Call{Nonce: n, Chain: ch, Sender: "u2", Refund: "u2", Toks: map[string]int64{tok: 2}, State: "open", Timeout: oc.Timeout}
			if got != 0 && s.Ledger {
				c.Violate("one-deposit-credits-once", s.sig("reentrant-receiver-credited-besides-refund-record"), fmt.Sprintf("refund record created and the contract holds %d %s", got, tok))
			}
			return
		}
		m.Sink[tok] += 2
		if got != 2 && s.Ledger {
			c.Violate("one-deposit-credits-once", s.sig("reentrant-receiver-credited-other-than-the-deposit"), fmt.Sprintf("one observed inbound bridge call of 2 %s left the receiving contract with %d", tok, got))
		}
	}}
}

// ---------------------------------------------------------------- state oracles

var erc20ABI = mustERC20ABI()

func (s *Spec) Check(st *explore.State) {
	m := st.Model.(*Model)
	ctx := st.Ctx
	if s.Ledger {
		for _, a := range s.tracked {
			for _, t := range s.Tokens {
				got := s.holdings(ctx, a, t)
				if want := m.Hold[a.Name][t]; got != want {
					st.Violate("every-account-moves-by-what-the-operation-moves", s.sig("holdings-differ-from-ledger/"+s.toks[t].Kind), fmt.Sprintf("%s holds %d %s (all representations), the ledger says %d", a.Name, got, t, want))
				}
			}
		}
		// conservation: tracked holdings + in flight = seeded + deposits - withdrawals (non-FX tokens are closed systems)
		for _, t := range s.Tokens {
			if t == "FX" {
				continue
			}
			sum, flight := int64(0), int64(0)
			for _, a := range s.tracked {
				sum += s.holdings(ctx, a, t)
			}
			for _, r := range m.Recs {
				if r.Tok == t && (r.State == "pool" || strings.HasPrefix(r.State, "batch")) {
					flight += r.Amt + r.Fee
				}
			}
			for _, c := range m.Calls {
				if c.State == "open" {
					flight += c.Toks[t]
				}
			}
			seeded := int64(0)
			if s.toks[t].Kind == "external" {
				seeded = 1000
			}
			if want := seeded + m.Dep[t] - m.Wd[t]; sum+flight+m.Sink[t] != want {
				st.Violate("holdings-equal-deposits-minus-withdrawals", s.sig("solvency-equation-broken/"+s.toks[t].Kind), fmt.Sprintf("%s: holders %d + in flight %d + delivered to scenario contracts %d != seeded %d + deposits %d - withdrawals %d", t, sum, flight, m.Sink[t], seeded, m.Dep[t], m.Wd[t]))
			}
		}
	}
	if s.Book {
		s.checkBook(st)
	}
}

func (s *Spec) checkBook(st *explore.State) {
	m := st.Model.(*Model)
	ctx := st.Ctx
	for _, ch := range s.Chains {
		k := scen.Keeper(s.w, ch)
		seen := map[uint64]string{}
		place := func(id uint64, where string) {
			if prev, dup := seen[id]; dup {
				st.Violate("exactly-one-place", s.sig("transfer-in-two-places"), fmt.Sprintf("transfer %d is in %s and in %s", id, prev, where))
			}
			seen[id] = where
		}
		tokOf := func(contract string) string {
			for n, t := range s.toks {
				if t.Ext[ch] == contract {
					return n
				}
			}
			return "?" + contract
		}
		cmp := func(tx *cctypes.OutgoingTransferTx, where string) {
			r, ok := m.Recs[tx.Id]
			if !ok {
				st.Violate("book-matches-store", s.sig("unknown-transfer-in-store"), fmt.Sprintf("%s holds id %d", where, tx.Id))
				return
			}
			if r.State != where {
				st.Violate("book-matches-store", s.sig("transfer-state-differs"), fmt.Sprintf("transfer %d: store %s, book %s", tx.Id, where, r.State))
			}
			if tx.Sender != s.w.A(r.Sender).Bech() || tx.DestAddress != r.Dest || tokOf(tx.Token.Contract) != r.Tok || tx.Token.Amount.Int64() != r.Amt || tx.Fee.Amount.Int64() != r.Fee || tx.Fee.Contract != tx.Token.Contract {
				st.Violate("queued-as-supplied", s.sig("queued-transfer-differs-from-request"), fmt.Sprintf("transfer %d stored as %+v, requested %+v", tx.Id, tx, r))
			}
		}
		for _, tx := range k.GetUnbatchedTransactions(ctx) {
			place(tx.Id, "pool")
			cmp(tx, "pool")
		}
		nb := 0
		for _, b := range k.GetOutgoingTxBatches(ctx) {
			nb++
			mb, ok := m.Batches[bkey(ch, tokOf(b.TokenContract), b.BatchNonce)]
			if !ok {
				st.Violate("book-matches-store", s.sig("unknown-batch-in-store"), fmt.Sprintf("batch %s/%d", tokOf(b.TokenContract), b.BatchNonce))
				continue
			}
			var ids []uint64
			for _, tx := range b.Transactions {
				place(tx.Id, fmt.Sprintf("batch:%d", b.BatchNonce))
				cmp(tx, fmt.Sprintf("batch:%d", b.BatchNonce))
				ids = append(ids, tx.Id)
			}
			sort.Slice(ids, func(i, j int) bool { return ids[i] < ids[j] })
			if fmt.Sprint(ids) != fmt.Sprint(mb.IDs) {
				st.Violate("book-matches-store", s.sig("batch-content-differs"), fmt.Sprintf("batch %d holds %v, book %v", b.BatchNonce, ids, mb.IDs))
			}
		}
		nmb := 0
		for _, mb := range m.Batches {
			if mb.Chain == ch {
				nmb++
			}
		}
		if nb != nmb {
			st.Violate("book-matches-store", s.sig("batch-count-differs"), fmt.Sprintf("store %d, book %d", nb, nmb))
		}
		for id, r := range m.Recs {
			if r.Chain != ch {
				continue
			}
			if _, ok := seen[id]; !ok && (r.State == "pool" || strings.HasPrefix(r.State, "batch")) {
				st.Violate("exactly-one-place", s.sig("transfer-lost"), fmt.Sprintf("transfer %d should be %s but is nowhere in the store", id, r.State))
			}
		}
		// outgoing bridge calls
		open := map[uint64]bool{}
		k.IterateOutgoingBridgeCalls(ctx, func(oc *cctypes.OutgoingBridgeCall) bool {
			open[oc.Nonce] = true
			c, ok := m.Calls[oc.Nonce]
			if !ok || c.State != "open" {
				st.Violate("book-matches-store", s.sig("bridge-call-state-differs"), fmt.Sprintf("call %d open in store, book %+v", oc.Nonce, c))
				return false
			}
			if oc.Refund != s.w.A(c.Refund).Hex().String() || oc.Sender != s.w.A(c.Sender).Hex().String() || oc.Data != "01" || oc.Memo != "02" || oc.To != scen.ExtAddr(ch, "callee") || len(oc.Tokens) != len(c.Toks) {
				st.Violate("queued-as-supplied", s.sig("queued-bridge-call-differs-from-request"), fmt.Sprintf("stored %+v, requested %+v", oc, c))
			}
			for _, tkn := range oc.Tokens {
				if c.Toks[tokOf(tkn.Contract)] != tkn.Amount.Int64() {
					st.Violate("queued-as-supplied", s.sig("queued-bridge-call-differs-from-request"), fmt.Sprintf("stored %+v, requested %+v", oc, c))
				}
			}
			return false
		})
		for n, c := range m.Calls {
			if c.Chain == ch && c.State == "open" && !open[n] {
				st.Violate("book-matches-store", s.sig("bridge-call-lost"), fmt.Sprintf("call %d open in book, absent in store", n))
			}
		}
	}
}

func (s *Spec) Counters(st *explore.State) []string {
	m := st.Model.(*Model)
	var out []string
	states := map[string]bool{}
	for _, r := range m.Recs {
		st := r.State
		if strings.HasPrefix(st, "batch") {
			st = "batch"
		}
		states[st] = true
	}
	for k := range states {
		out = append(out, "transfer-"+k)
	}
	for _, c := range m.Calls {
		out = append(out, "call-"+c.State)
		break
	}
	if len(m.Batches) > 1 {
		out = append(out, "two-batches-alive")
	}
	return out
}

var _ = bytes.Equal

func (s *Spec) callKinds(c *Call) string {
	k := "none"
	for t := range c.Toks {
		switch s.toks[t].Kind {
		case "external":
			return "externally-owned-token"
		case "module":
			k = "module-owned-token"
		case "fx":
			if k == "none" {
				k = "FX"
			}
		}
	}
	return k
}

// openKinds: the most specific token kind among the open outgoing bridge calls.
func (s *Spec) openKinds(m *Model) string {
	k := "none"
	for _, c := range m.Calls {
		if c.State != "open" {
			continue
		}
		ck := s.callKinds(c)
		if ck == "externally-owned-token" {
			return ck
		}
		if ck == "module-owned-token" || k == "none" {
			k = ck
		}
	}
	return k
}

// callInFailOp: an inbound bridge call carrying 2 units of tok to a contract that reverts; refund address is an ordinary account.
// Ledger expectation: the call fails, the tokens go into a refund record (outgoing bridge call) and nobody's holdings change.
func (s *Spec) callInFailOp(ch, tok, refund string) explore.Op {
	return explore.Op{Name: fmt.Sprintf("BridgeCallInFailing(%s,to=reverter,refund=%s)", tok, refund), Run: func(c *explore.State) {
		m := c.Model.(*Model)
		tk := s.toks[tok]
		m.Nonce[ch]++
		m.ExtH[ch]++
		en := m.Nonce[ch]
		claim := &cctypes.MsgBridgeCallClaim{ChainName: ch, EventNonce: en, BlockHeight: m.ExtH[ch], Sender: scen.ExtAddr(ch, "depositor"), Refund: s.w.A(refund).Hex().String(),
			TokenContracts: []string{tk.Ext[ch]}, Amounts: []sdkmath.Int{sdkmath.NewInt(2)}, To: s.reverter.String(), Data: "", Value: sdkmath.ZeroInt(), Memo: "", TxOrigin: scen.ExtAddr(ch, "origin")}
		r := scen.Vote(s.w, c.Ctx, ch, s.os[ch][0], claim)
		if !r.OK() {
			m.Nonce[ch]--
			res(c, false)
			return
		}
		s.observeHeightEffects(c, ch, m.ExtH[ch])
		revBefore := scen.Holdings(s.w, c.Ctx, tk, s.reverter.Bytes())
		before := scen.LastBridgeCallID(s.w, c.Ctx, ch)
		er := s.w.CallABI(c.Ctx, s.w.A("rel"), cctypes.GetAddress(), cctypes.GetABI(), nil, 3_000_000, "executeClaim", ch, new(big.Int).SetUint64(en))
		res(c, er.Success())
		m.Dep[tok] += 2
		m.ExtSupply[ch+"/"+tok] -= 2
		if !er.Success() {
			c.Outcome = "execute-failed"
			// the claim stays parked and can never be executed: the deposited value is stuck outside every account
			m.Dep[tok] -= 2
			m.ExtSupply[ch+"/"+tok] += 2
			if s.Ledger {
				c.Violate("failed-inbound-call-is-refunded", s.sig("inbound-bridge-call-to-failing-contract-not-executable/refund-differs-from-receiver"), er.String())
			}
			return
		}
		n := scen.LastBridgeCallID(s.w, c.Ctx, ch)
		if n != before+1 {
			c.Violate("failed-inbound-call-is-refunded", s.sig("failing-inbound-bridge-call-created-no-refund-record"), "")
			return
		}
		c.Outcome = "refund-record"
		k := scen.Keeper(s.w, ch)
		oc, _ := k.GetOutgoingBridgeCallByNonce(c.Ctx, n)
		m.Calls[n] = &Call{Nonce: n, Chain: ch, Sender: refund, Refund: refund, Toks: map[string]int64{tok: 2}, State: "open", Timeout: oc.Timeout}
		if s.Ledger {
			if got := scen.Holdings(s.w, c.Ctx, tk, s.reverter.Bytes()); !got.Equal(revBefore) {
				c.Violate("failed-inbound-call-is-refunded", s.sig("receiver-of-failed-inbound-bridge-call-keeps-the-tokens"), fmt.Sprintf("the reverting contract's holdings of %s went %s -> %s; the refund record was funded by %s instead", tok, revBefore, got, refund))
			}
		}
	}}
}
