package bridge

import (
	"github.com/ethereum/go-ethereum/accounts/abi"

	"github.com/functionx/fx-core/v8/contract"
)

func mustERC20ABI() abi.ABI { return contract.GetFIP20().ABI }
