package bridge

import "fxmc/explore"

// extOps is filled in by the C06 co-simulation (ext_sim.go); without it no external-chain ops are offered.
var extOpsImpl func(s *Spec, st *explore.State) []explore.Op

func (s *Spec) extOps(st *explore.State) []explore.Op {
	if extOpsImpl == nil {
		return nil
	}
	return extOpsImpl(s, st)
}
