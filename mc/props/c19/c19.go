// Package c19: IBC transfers through the fx middleware credit or refund exactly once.
//
// Both ends of every channel live on this application (09-localhost loop-back); the L end is the
// end under test, the harness plays the remote chain at the R end by writing the commitment /
// acknowledgement a remote chain would have written and then submitting the real relayer message,
// which goes through the real IBC core handlers and the middleware stack wired in app.go.
package c19

import (
	"bytes"
	"crypto/sha256"
	"encoding/hex"
	"fmt"
	"math/big"
	"os"
	"sort"
	"strings"
	"time"

	sdkmath "cosmossdk.io/math"
	sdk "github.com/cosmos/cosmos-sdk/types"
	authtypes "github.com/cosmos/cosmos-sdk/x/auth/types"
	transfertypes "github.com/cosmos/ibc-go/v8/modules/apps/transfer/types"
	clienttypes "github.com/cosmos/ibc-go/v8/modules/core/02-client/types"
	channeltypes "github.com/cosmos/ibc-go/v8/modules/core/04-channel/types"
	"github.com/ethereum/go-ethereum/common"

	"github.com/functionx/fx-core/v8/contract"
	fxtypes "github.com/functionx/fx-core/v8/types"
	cctypes "github.com/functionx/fx-core/v8/x/crosschain/types"
	erc20types "github.com/functionx/fx-core/v8/x/erc20/types"
	ibcmwtypes "github.com/functionx/fx-core/v8/x/ibc/middleware/types"

	"fxmc/evmasm"
	"fxmc/explore"
	"fxmc/props/registry"
	"fxmc/scen"
	"fxmc/world"
)

const (
	remoteBase = "remoteusdt" // the token's denom on the remote chain
	junkBase   = "junkcoin"   // a remote denom no token pair is registered for
	inAmt      = 2
)

var farFuture = uint64(world.GenesisTime.Add(10 * 365 * 24 * time.Hour).UnixNano())

type Spec struct {
	Prop     string // property the job reports for (default C19; the deposit job also serves C04)
	Mode     string // inbound | outbound | mixed | deposit
	MaxOut   int    // outbound transfers per path
	MaxAdv   int    // 13h time jumps per path
	w        *world.World
	pairs    []scen.Pair
	u1, u2   world.Actor
	att, rel world.Actor
	usdt     common.Address // ERC-20 of "usdt": a remote chain's coin, known here through one IBC voucher alias per channel
	tkn      common.Address // ERC-20 of "tkn": a coin native to this chain that can leave and return over IBC
	recorder common.Address
	reverter common.Address
	book     map[string]bool // bech32 of bookkeeping (module / escrow) accounts
	tracked  []named         // ERC-20 holders that are watched
	// deposit mode: the token is also bridged from eth
	ethOracles []scen.Oracle
	ethNonce   uint64
}

type named struct {
	Name string
	Addr common.Address
}

func (s *Spec) Name() string {
	return fmt.Sprintf("c19/%s/out=%d/adv=%d/%s", s.Mode, s.MaxOut, s.MaxAdv, s.Prop)
}

func sig(x string) string { return "C19/" + x }

// ------------------------------------------------------------------ model

type flight struct {
	Pair     int
	Seq      uint64
	Tok      string // usdt | fx
	Amt      int64
	Relation bool // an EVM-origin ERC-20 transfer: a tracking record must exist while in flight
	Pkt      channeltypes.Packet
}

type Model struct {
	InSeq   []uint64 // next inbound sequence per pair
	Flights []flight
	Settled []flight
	LastIn  *channeltypes.Packet
	Outs    int
	Advs    int
	Toggles int  // governance pauses / resumes of the usdt pair so far
	Paused  bool // conversions of the usdt pair are switched off
}

func (m *Model) Clone() explore.Model {
	c := &Model{InSeq: append([]uint64(nil), m.InSeq...), Flights: append([]flight(nil), m.Flights...), Settled: append([]flight(nil), m.Settled...), LastIn: m.LastIn, Outs: m.Outs, Advs: m.Advs, Toggles: m.Toggles, Paused: m.Paused}
	return c
}

func (m *Model) Canon() []byte {
	var b bytes.Buffer
	fmt.Fprintf(&b, "in=%v|outs=%d|advs=%d|tog=%d/%v|", m.InSeq, m.Outs, m.Advs, m.Toggles, m.Paused)
	for _, f := range m.Flights {
		fmt.Fprintf(&b, "F%d/%d/%s/%d;", f.Pair, f.Seq, f.Tok, f.Amt)
	}
	for _, f := range m.Settled {
		fmt.Fprintf(&b, "S%d/%d;", f.Pair, f.Seq)
	}
	if m.LastIn != nil {
		fmt.Fprintf(&b, "L%s/%d", m.LastIn.SourceChannel, m.LastIn.Sequence)
	}
	return b.Bytes()
}

// ------------------------------------------------------------------ set-up

var (
	erc20ABI = contract.GetFIP20().ABI
	// recorder: counter at slot 2 += 1 ; slot 0 = CALLER
	recorderRT = []byte{0x60, 0x01, 0x60, 0x02, 0x54, 0x01, 0x60, 0x02, 0x55, 0x33, 0x60, 0x00, 0x55, 0x00}
	reverterRT = []byte{0x60, 0x00, 0x60, 0x00, 0xfd}
)

func (s *Spec) Init() *explore.State {
	w := world.New(world.Config{Validators: 2, Actors: []string{"bank", "u1", "u2", "attacker", "relayer"}})
	s.w = w
	ctx := w.Root
	s.u1, s.u2, s.att, s.rel = w.A("u1"), w.A("u2"), w.A("attacker"), w.A("relayer")
	scen.EnableLocalhost(w, ctx)
	s.pairs = []scen.Pair{scen.OpenLoopback(w, ctx, s.rel), scen.OpenLoopback(w, ctx, s.rel)}
	// the token: a remote chain's coin, known here as "usdt", arriving as one IBC voucher per channel
	var aliases []string
	for _, p := range s.pairs {
		aliases = append(aliases, p.VoucherDenom(remoteBase))
	}
	if s.Mode == "deposit" {
		aliases = append(aliases, cctypes.NewBridgeDenom("eth", scen.ExtAddr("eth", "usdt-token")))
	}
	w.MustDeliver(ctx, &erc20types.MsgRegisterCoin{Authority: world.GovAuthority(), Metadata: fxtypes.GetCrossChainMetadataManyToOne("USDT Token", "USDT", 6, aliases...)})
	s.usdt = scen.ERC20Addr(w, ctx, "usdt")
	w.MustDeliver(ctx, &erc20types.MsgRegisterCoin{Authority: world.GovAuthority(), Metadata: fxtypes.GetCrossChainMetadataManyToOne("TKN Token", "TKN", 18, cctypes.NewBridgeDenom("eth", scen.ExtAddr("eth", "tkn-token")))})
	s.tkn = scen.ERC20Addr(w, ctx, "tkn")
	tk := sdk.NewCoins(sdk.NewCoin("tkn", sdkmath.NewInt(100)))
	must(w.App.BankKeeper.MintCoins(ctx, erc20types.ModuleName, tk)) // u2's initial holdings of the native coin
	must(w.App.BankKeeper.SendCoinsFromModuleToAccount(ctx, erc20types.ModuleName, s.u2.Acc(), tk))
	s.recorder = w.Deploy(ctx, s.u2, evmasm.WrapRuntime(recorderRT))
	s.reverter = w.Deploy(ctx, s.u2, evmasm.WrapRuntime(reverterRT))
	// a memo call is made from an account derived from (port/channel, remote sender); on this tree the EVM keeper refuses
	// a call from an address that has no account record, so every memo call from a fresh derived sender ends in an error
	// acknowledgement. The derived senders of the alphabet therefore exist already (somebody sent them one base unit),
	// which is what lets a memo call run at all
	for i := range s.pairs {
		for _, sender := range s.senders() {
			for _, d := range s.derived(i, sender) {
				scen.Fund(w, ctx, d.Bytes(), sdk.NewCoins(sdk.NewCoin(fxtypes.DefaultDenom, sdkmath.NewInt(1))))
			}
		}
	}

	s.book = map[string]bool{
		authtypes.NewModuleAddress(transfertypes.ModuleName).String(): true,
		authtypes.NewModuleAddress(erc20types.ModuleName).String():    true,
	}
	for _, p := range s.pairs {
		s.book[transfertypes.GetEscrowAddress(scen.TransferPort, p.L).String()] = true
		s.book[transfertypes.GetEscrowAddress(scen.TransferPort, p.R).String()] = true
	}
	s.tracked = []named{{"u1", s.u1.Hex()}, {"u2", s.u2.Hex()}, {"attacker", s.att.Hex()}, {"relayer", s.rel.Hex()}, {"recorder", s.recorder}, {"reverter", s.reverter},
		{"erc20-module", common.BytesToAddress(authtypes.NewModuleAddress(erc20types.ModuleName))}}
	for i := range s.pairs {
		for _, snd := range s.senders() {
			for _, a := range s.derived(i, snd) {
				s.tracked = append(s.tracked, named{fmt.Sprintf("derived(%d,%s)", i, short(snd)), a})
			}
		}
	}

	m := &Model{InSeq: make([]uint64, len(s.pairs))}
	for i := range m.InSeq {
		m.InSeq[i] = 1
	}
	for _, p := range s.pairs {
		// The voucher state a chain has from transfers received under earlier versions: the denom trace is known,
		// u1 holds ten usdt as ERC-20, backed by ten vouchers kept by the transfer module. (On this tree a fresh
		// voucher cannot get in through MsgRecvPacket: ibc-go registers bank metadata for a newly minted voucher,
		// fx-core's ManyToOne then takes the voucher for a base denom and the conversion fails - every such
		// receive answers with an error acknowledgement. That satisfies the property, so it is not a finding,
		// but it means this state has to be written here, with the same keeper functions the middleware uses.)
		w.App.IBCTransferKeeper.SetDenomTrace(ctx, transfertypes.ParseDenomTrace(scen.TransferPort+"/"+p.L+"/"+remoteBase))
		vc := sdk.NewCoins(sdk.NewCoin(p.VoucherDenom(remoteBase), sdkmath.NewInt(10)))
		must(w.App.BankKeeper.MintCoins(ctx, transfertypes.ModuleName, vc))
		must(w.App.BankKeeper.SendCoinsFromModuleToAccount(ctx, transfertypes.ModuleName, s.u1.Acc(), vc))
		must(scen.Keeper(w, "eth").IBCCoinToEvm(ctx, vc[0], s.u1.Acc()))
		// FX and tkn escrowed on the channel (u2 sent 5 of each out earlier, acknowledged), so they can come back
		for _, c := range []sdk.Coin{sdk.NewCoin(fxtypes.DefaultDenom, sdkmath.NewInt(5)), sdk.NewCoin("tkn", sdkmath.NewInt(5))} {
			r := w.MustDeliver(ctx, transfertypes.NewMsgTransfer(scen.TransferPort, p.L, c, s.u2.Bech(), "remote1receiver", clienttypes.ZeroHeight(), farFuture, ""))
			out, ok := scen.SentPacket(r.Events)
			if !ok {
				panic("set-up: no send_packet event")
			}
			if ar := scen.Ack(w, ctx, out, scen.SuccessAck(), s.rel); !ar.OK() {
				panic("set-up ack failed: " + ar.String())
			}
		}
	}
	if s.Mode == "deposit" {
		// the same token is also bridged from eth: one oracle, the token registered by an observed event
		s.ethOracles = scen.SetupOracles(w, ctx, "eth", []string{"eth-o1"}, []int64{10000})
		scen.Observe(w, ctx, "eth", s.ethOracles, scen.BridgeTokenClaim("eth", 1, 100, scen.ExtAddr("eth", "usdt-token"), "USDT Token", "USDT", 6, ""))
		s.ethNonce = 1
	}
	if got := scen.BalanceOf(w, ctx, s.usdt, s.u1.Hex()); !got.Equal(sdkmath.NewInt(int64(10 * len(s.pairs)))) {
		panic("set-up: u1 holds " + got.String() + " usdt")
	}
	return &explore.State{W: w, Ctx: ctx, Model: m}
}

func must(err error) {
	if err != nil {
		panic(err)
	}
}

func (s *Spec) tokens() map[string]common.Address {
	return map[string]common.Address{"usdt": s.usdt, "tkn": s.tkn}
}

func short(s string) string {
	if len(s) > 10 {
		return s[:10]
	}
	return s
}

func (s *Spec) senders() []string { return []string{"remote-sender-1", s.u2.Bech()} }

// derived lists the admissible intermediate senders for a memo call on pair i from sender:
// hash("port/channel", sender) for either end of the channel (written out here, not taken from the repo).
func (s *Spec) derived(i int, sender string) []common.Address {
	var out []common.Address
	for _, ch := range []string{s.pairs[i].R, s.pairs[i].L} {
		th := sha256.Sum256([]byte(scen.TransferPort + "/" + ch))
		h := sha256.New()
		h.Write(th[:])
		h.Write([]byte(sender))
		out = append(out, common.BytesToAddress(h.Sum(nil)))
	}
	return out
}

// ------------------------------------------------------------------ snapshots

type snap struct {
	bank   map[string]sdkmath.Int // "bech32|denom"
	erc    map[string]sdkmath.Int // "token:holder" -> ERC-20 balance of a watched holder
	supply map[string]sdkmath.Int
	caller common.Hash
	count  uint64
	rel    []string
}

func (s *Spec) snapshot(ctx sdk.Context) snap {
	sn := snap{bank: map[string]sdkmath.Int{}, erc: map[string]sdkmath.Int{}, supply: map[string]sdkmath.Int{}}
	for _, b := range s.w.App.BankKeeper.GetAccountsBalances(ctx) {
		for _, c := range b.Coins {
			sn.bank[b.Address+"|"+c.Denom] = c.Amount
		}
	}
	for tok, addr := range s.tokens() {
		for _, t := range s.tracked {
			sn.erc[tok+":"+t.Name] = scen.BalanceOf(s.w, ctx, addr, t.Addr)
		}
		sn.supply[tok] = scen.TotalSupply(s.w, ctx, addr)
	}
	sn.caller = s.w.Slot(ctx, s.recorder, 0)
	sn.count = s.w.Slot(ctx, s.recorder, 2).Big().Uint64()
	sn.rel = s.relations(ctx)
	return sn
}

// relations lists the IBC tracking records of the erc20 module ("channel/sequence").
func (s *Spec) relations(ctx sdk.Context) []string {
	var out []string
	st := scen.Store(s.w, ctx, erc20types.StoreKey)
	it := st.Iterator([]byte{0x04}, []byte{0x05})
	defer it.Close()
	for ; it.Valid(); it.Next() {
		out = append(out, string(it.Key()[1:]))
	}
	sort.Strings(out)
	return out
}

type delta struct {
	Key string
	D   sdkmath.Int
}

func bankDeltas(a, b snap) []delta {
	var out []delta
	for k, va := range a.bank {
		vb, ok := b.bank[k]
		if !ok {
			vb = sdkmath.ZeroInt()
		}
		if !va.Equal(vb) {
			out = append(out, delta{k, vb.Sub(va)})
		}
	}
	for k, vb := range b.bank {
		if _, ok := a.bank[k]; !ok && !vb.IsZero() {
			out = append(out, delta{k, vb})
		}
	}
	sort.Slice(out, func(i, j int) bool { return out[i].Key < out[j].Key })
	return out
}

// userBankDeltas drops the bookkeeping accounts.
func (s *Spec) userBankDeltas(a, b snap) []delta {
	var out []delta
	for _, d := range bankDeltas(a, b) {
		if !s.book[strings.SplitN(d.Key, "|", 2)[0]] {
			out = append(out, d)
		}
	}
	return out
}

func ercDeltas(a, b snap) []delta {
	var out []delta
	for k, va := range a.erc {
		if vb := b.erc[k]; !va.Equal(vb) {
			out = append(out, delta{k, vb.Sub(va)})
		}
	}
	sort.Slice(out, func(i, j int) bool { return out[i].Key < out[j].Key })
	return out
}

func fmtDeltas(ds []delta) string {
	var p []string
	for _, d := range ds {
		p = append(p, d.Key+":"+d.D.String())
	}
	return "[" + strings.Join(p, " ") + "]"
}

// expectOnly checks that the user-visible deltas are exactly want (key -> delta).
func (s *Spec) expectOnly(c *explore.State, what, sigName string, pre, post snap, wantBank, wantErc map[string]int64) {
	check := func(kind string, got []delta, want map[string]int64) {
		seen := map[string]bool{}
		for _, d := range got {
			w, ok := want[d.Key]
			seen[d.Key] = true
			if !ok || !d.D.Equal(sdkmath.NewInt(w)) {
				c.Violate("exact-credit-or-refund", sig(sigName), fmt.Sprintf("%s: %s deltas %s, expected %v", what, kind, fmtDeltas(got), want))
				return
			}
		}
		for k, w := range want {
			if w != 0 && !seen[k] {
				c.Violate("exact-credit-or-refund", sig(sigName), fmt.Sprintf("%s: %s deltas %s, expected %v", what, kind, fmtDeltas(got), want))
				return
			}
		}
	}
	check("bank", s.userBankDeltas(pre, post), wantBank)
	check("erc20", ercDeltas(pre, post), wantErc)
}

// nonIBCDiff lists the differences between two dumps outside the IBC core store.
func nonIBCDiff(a, b map[string][]byte) []string {
	var out []string
	for _, d := range world.DiffDumps(a, b) {
		if !strings.HasPrefix(d, "ibc/") {
			out = append(out, d)
		}
	}
	return out
}

// ------------------------------------------------------------------ inbound

type inbound struct {
	Pair  int
	Denom string // usdt | fxret | junk
	Recv  string // hex | bech
	Memo  string // none | nonjson | call | revert | steal
	From  int    // index into senders()
}

// tokOf names the registered token an inbound denom kind belongs to ("" for FX and unregistered denoms).
func tokOf(kind string) string {
	switch kind {
	case "usdt":
		return "usdt"
	case "tknret":
		return "tkn"
	}
	return ""
}

func (in inbound) String() string {
	return fmt.Sprintf("Inbound(ch%d,%s,%s,memo=%s,from=%d)", in.Pair, in.Denom, in.Recv, in.Memo, in.From)
}

func (s *Spec) memo(kind string) string {
	mk := func(to common.Address, data []byte) string {
		bz, err := s.w.App.AppCodec().MarshalInterfaceJSON(&ibcmwtypes.IbcCallEvmPacket{To: to.String(), Data: hex.EncodeToString(data), Value: sdkmath.ZeroInt()})
		if err != nil {
			panic(err)
		}
		return string(bz)
	}
	switch kind {
	case "nonjson":
		return "hello, not json"
	case "call":
		return mk(s.recorder, nil)
	case "revert":
		return mk(s.reverter, nil)
	case "steal":
		data, _ := erc20ABI.Pack("transfer", s.att.Hex(), big.NewInt(1))
		return mk(s.tkn, data)
	}
	return ""
}

func (s *Spec) inboundOp(in inbound) explore.Op {
	return explore.Op{Name: in.String(), Run: func(c *explore.State) {
		m := c.Model.(*Model)
		p := s.pairs[in.Pair]
		target := s.u2
		if in.Memo == "steal" {
			target = s.att // the packet names u2 as remote sender and pays the attacker; u2 must not lose anything
		}
		recv := target.Hex().String()
		if in.Recv == "bech" {
			recv = target.Bech()
		}
		denom := remoteBase
		switch in.Denom {
		case "fxret":
			denom = scen.TransferPort + "/" + p.R + "/" + fxtypes.DefaultDenom
		case "tknret":
			denom = scen.TransferPort + "/" + p.R + "/tkn"
		case "junk":
			denom = junkBase
		case "fakefx":
			denom = fxtypes.DefaultDenom // a foreign chain's coin that happens to be spelled like the native coin
		case "fakefx2":
			denom = scen.TransferPort + "/channel-77/" + fxtypes.DefaultDenom // the same after one more hop
		}
		sender := s.senders()[in.From]
		data := transfertypes.NewFungibleTokenPacketData(denom, fmt.Sprint(inAmt), sender, recv, s.memo(in.Memo))
		pkt := p.InboundPacket(m.InSeq[in.Pair], data, farFuture)
		m.InSeq[in.Pair]++
		pre, preDump := s.snapshot(c.Ctx), s.w.Dump(c.Ctx)
		r := scen.Recv(s.w, c.Ctx, pkt, s.rel)
		if r.Panic != nil {
			c.Outcome = "panic"
			c.Violate("relay-never-panics", sig("recv-packet-panics"), fmt.Sprintf("%s: %v\n%s", in, r.Panic, r.Stack))
			return
		}
		if !r.OK() {
			c.Outcome = "tx-rejected"
			return
		}
		m.LastIn = &pkt
		ack := scen.StoredAck(s.w, c.Ctx, pkt)
		post := s.snapshot(c.Ctx)
		if ack == nil {
			c.Outcome = "no-ack"
			c.Violate("credit-or-error-ack", sig("received-packet-without-acknowledgement"), in.String())
			return
		}
		if !scen.AckIsSuccess(ack) {
			c.Outcome = "error-ack/memo=" + in.Memo + "/" + in.Denom + "/" + in.Recv
			if os.Getenv("FXMC_DEBUG") != "" {
				err := s.w.App.IBCMiddlewareKeeper.HandlerIbcCall(world.Branch(c.Ctx), pkt.DestinationPort, pkt.DestinationChannel, data)
				fmt.Fprintf(os.Stderr, "DEBUG %s: the memo call alone: %v (block max gas %d)\n", in, err, c.Ctx.ConsensusParams().Block.GetMaxGas())
			}
			if d := nonIBCDiff(preDump, s.w.Dump(c.Ctx)); len(d) > 0 {
				c.Violate("error-ack-credits-nothing", sig("error-ack-but-state-changed/"+in.Denom+"/"+in.Memo), fmt.Sprintf("%s answered with an error acknowledgement but changed\n%s", in, strings.Join(d, "\n")))
			}
			return
		}
		c.Accepted = true
		c.Outcome = "credited/memo=" + in.Memo + "/" + in.Denom + "/" + in.Recv
		what := in.String() + " (success ack)"
		name := target.Name
		wantBank, wantErc := map[string]int64{}, map[string]int64{}
		switch {
		case in.Denom == "fxret":
			wantBank[target.Bech()+"|"+fxtypes.DefaultDenom] = inAmt
		case in.Denom == "junk" || in.Denom == "fakefx" || in.Denom == "fakefx2":
			c.Violate("credited-as-erc20", sig("success-ack-for-unregistered-denom"), what+": no token pair exists for the received denom, so nothing can have been credited as ERC-20")
			return
		case in.Recv == "hex":
			wantErc[tokOf(in.Denom)+":"+name] = inAmt
		default:
			// bech32 receiver, non-FX denom: the statement is silent; if it is accepted the receiver must hold exactly the amount
			got := sdkmath.ZeroInt()
			for _, d := range s.userBankDeltas(pre, post) {
				if strings.HasPrefix(d.Key, target.Bech()+"|") {
					got = got.Add(d.D)
					wantBank[d.Key] = d.D.Int64()
				}
			}
			ek := tokOf(in.Denom) + ":" + name
			got = got.Add(post.erc[ek].Sub(pre.erc[ek]))
			wantErc[ek] = post.erc[ek].Sub(pre.erc[ek]).Int64()
			if !got.Equal(sdkmath.NewInt(inAmt)) {
				c.Violate("exact-credit-or-refund", sig("inbound-credit-differs-from-amount"), fmt.Sprintf("%s: receiver gained %s in total", what, got))
			}
		}
		if in.Memo == "steal" {
			// the call moved 1 unit from the derived sender, which holds nothing: it cannot have succeeded
			c.Violate("memo-call-failure-refuses-packet", sig("memo-call-moved-tokens-of-an-account-that-holds-none"), what)
		}
		if in.Memo == "revert" {
			c.Violate("memo-call-failure-refuses-packet", sig("success-ack-although-memo-call-reverted"), what)
		}
		s.expectOnly(c, what, "inbound-credit-differs-from-amount", pre, post, wantBank, wantErc)
		if tk := tokOf(in.Denom); tk != "" && in.Recv == "hex" && !post.supply[tk].Sub(pre.supply[tk]).Equal(sdkmath.NewInt(inAmt)) {
			c.Violate("exact-credit-or-refund", sig("inbound-erc20-supply-delta"), fmt.Sprintf("%s: ERC-20 total supply %s -> %s", what, pre.supply[tk], post.supply[tk]))
		}
		switch in.Memo {
		case "call":
			if post.count != pre.count+1 {
				c.Violate("memo-call-runs-once", sig("memo-call-count"), fmt.Sprintf("%s: target contract ran %d times", what, post.count-pre.count))
			}
			got := common.BytesToAddress(post.caller.Bytes())
			ok := false
			for _, d := range s.derived(in.Pair, sender) {
				ok = ok || d == got
			}
			if !ok {
				c.Violate("memo-sender-derived-from-channel-and-sender", sig("memo-call-sender-not-derived-from-channel-and-sender"), fmt.Sprintf("%s: msg.sender of the call was %s, expected hash(port/channel, %q) = %v", what, got, sender, s.derived(in.Pair, sender)))
			}
			for _, a := range s.w.Actors {
				if a.Hex() == got {
					c.Violate("memo-sender-never-a-local-account", sig("memo-call-impersonates-local-account"), fmt.Sprintf("%s: msg.sender %s is local account %s", what, got, a.Name))
				}
			}
		default:
			if post.count != pre.count && in.Memo != "steal" {
				c.Violate("memo-call-runs-once", sig("memo-call-count"), fmt.Sprintf("%s: recorder ran although no call was requested", what))
			}
		}
	}}
}

func (s *Spec) replayInOp() explore.Op {
	return explore.Op{Name: "ReplayLastInbound", Run: func(c *explore.State) {
		m := c.Model.(*Model)
		pre := s.w.Dump(c.Ctx)
		r := scen.RecvReplay(s.w, c.Ctx, *m.LastIn, s.rel)
		c.Accepted = r.OK()
		c.Outcome = map[bool]string{true: "no-op", false: "rejected"}[r.OK()]
		if r.Panic != nil {
			c.Violate("relay-never-panics", sig("recv-packet-panics"), fmt.Sprintf("replayed receive: %v\n%s", r.Panic, r.Stack))
			return
		}
		if d := world.DiffDumps(pre, s.w.Dump(c.Ctx)); len(d) > 0 {
			c.Violate("replayed-packet-has-no-effect", sig("replayed-inbound-packet-had-effect"), strings.Join(d, "\n"))
		}
	}}
}

// ------------------------------------------------------------------ outbound

func (s *Spec) outboundOp(pi int, tok string, amt int64) explore.Op {
	name := fmt.Sprintf("OutboundEVM(ch%d,%s,%d)", pi, tok, amt)
	return explore.Op{Name: name, Run: func(c *explore.State) {
		m := c.Model.(*Model)
		m.Outs++
		p := s.pairs[pi]
		pre := s.snapshot(c.Ctx)
		token, value := s.usdt, (*big.Int)(nil)
		if tok == "fx" {
			token, value = common.Address{}, big.NewInt(amt)
		} else if ar := s.w.CallABI(c.Ctx, s.u1, s.usdt, erc20ABI, nil, 200000, "approve", cctypes.GetAddress(), big.NewInt(amt)); !ar.Success() {
			c.Outcome = "approve-failed"
			return
		}
		var target [32]byte
		copy(target[:], "fx/"+scen.TransferPort+"/"+p.L)
		r := s.w.CallABI(c.Ctx, s.u1, cctypes.GetAddress(), cctypes.GetABI(), value, 2_000_000, "crossChain", token, s.att.Bech(), big.NewInt(amt), big.NewInt(0), target, "")
		post := s.snapshot(c.Ctx)
		if r.Panic != nil {
			c.Outcome = "panic"
			c.Violate("relay-never-panics", sig("outbound-panics"), fmt.Sprintf("%s: %v\n%s", name, r.Panic, r.Stack))
			return
		}
		if !r.Success() {
			c.Outcome = "refused"
			s.expectOnly(c, name+" (refused: "+r.String()+")", "refused-outbound-moved-funds", pre, post, map[string]int64{}, map[string]int64{})
			if len(post.rel) != len(pre.rel) {
				c.Violate("tracking-record-matches-flights", sig("refused-outbound-left-tracking-record"), name)
			}
			return
		}
		c.Accepted = true
		c.Outcome = "sent"
		pkt, ok := scen.SentPacket(r.Events)
		if !ok || pkt.SourceChannel != p.L {
			c.Violate("outbound-sends-a-packet", sig("outbound-without-packet"), fmt.Sprintf("%s succeeded, packet found=%v on %q", name, ok, pkt.SourceChannel))
			return
		}
		f := flight{Pair: pi, Seq: pkt.Sequence, Tok: tok, Amt: amt, Relation: tok != "fx", Pkt: pkt}
		m.Flights = append(m.Flights, f)
		if tok == "fx" {
			s.expectOnly(c, name, "outbound-debit-differs-from-amount", pre, post, map[string]int64{s.u1.Bech() + "|" + fxtypes.DefaultDenom: -amt}, map[string]int64{})
		} else {
			s.expectOnly(c, name, "outbound-debit-differs-from-amount", pre, post, map[string]int64{}, map[string]int64{"usdt:u1": -amt})
		}
		var d transfertypes.FungibleTokenPacketData
		if err := transfertypes.ModuleCdc.UnmarshalJSON(pkt.Data, &d); err != nil || d.Amount != fmt.Sprint(amt) || d.Sender != s.u1.Bech() || d.Receiver != s.att.Bech() {
			c.Violate("outbound-packet-carries-the-request", sig("outbound-packet-differs-from-request"), fmt.Sprintf("%s: packet data %s", name, string(pkt.Data)))
		}
	}}
}

func (s *Spec) settle(m *Model, idx int) flight {
	f := m.Flights[idx]
	m.Flights = append(append([]flight(nil), m.Flights[:idx]...), m.Flights[idx+1:]...)
	m.Settled = append(m.Settled, f)
	if len(m.Settled) > 2 {
		m.Settled = m.Settled[len(m.Settled)-2:]
	}
	return f
}

// settleOp: kind = ackok | ackerr | timeout for the idx-th packet in flight.
func (s *Spec) settleOp(idx int, f flight, kind string) explore.Op {
	name := fmt.Sprintf("%s(ch%d#%d)", map[string]string{"ackok": "AckOK", "ackerr": "AckErr", "timeout": "Timeout"}[kind], f.Pair, f.Seq)
	return explore.Op{Name: name, Run: func(c *explore.State) {
		m := c.Model.(*Model)
		pre := s.snapshot(c.Ctx)
		var r world.MsgResult
		switch kind {
		case "ackok":
			r = scen.Ack(s.w, c.Ctx, f.Pkt, scen.SuccessAck(), s.rel)
		case "ackerr":
			r = scen.Ack(s.w, c.Ctx, f.Pkt, scen.ErrorAck(), s.rel)
		default:
			r = scen.Timeout(s.w, c.Ctx, f.Pkt, s.rel)
		}
		if r.Panic != nil {
			c.Outcome = "panic"
			c.Violate("relay-never-panics", sig("settlement-panics/"+kind), fmt.Sprintf("%s: %v\n%s", name, r.Panic, r.Stack))
			return
		}
		if !r.OK() {
			c.Outcome = "rejected"
			due := kind != "timeout" || uint64(c.Ctx.BlockTime().UnixNano()) >= f.Pkt.TimeoutTimestamp
			if m.Paused && f.Tok != "fx" && kind != "ackok" {
				// the refund cannot be converted back while governance has the pair switched off: refusing the whole
				// message keeps the packet in flight (it can be delivered again later), provided nothing at all was kept
				c.Outcome = "rejected-while-paused"
				if d := userAndRecordDiff(pre, s.snapshot(c.Ctx)); d != "" {
					c.Violate("refused-settlement-leaves-nothing", sig("refused-"+kind+"-while-paused-had-effect"), name+": "+d)
				}
				return
			}
			if due {
				c.Violate("settlement-is-processed", sig("valid-"+kind+"-cannot-be-processed"), fmt.Sprintf("%s for a packet in flight was refused: %s", name, r))
			}
			return
		}
		c.Accepted = true
		c.Outcome = "settled"
		s.settle(m, idx)
		post := s.snapshot(c.Ctx)
		key := fmt.Sprintf("%s/%d", s.pairs[f.Pair].L, f.Seq)
		for _, k := range post.rel {
			if k == key {
				c.Violate("tracking-record-removed-on-settlement", sig("tracking-record-survives-"+kind), fmt.Sprintf("%s: erc20 tracking record %q still present (records now %v)", name, key, post.rel))
			}
		}
		wantBank, wantErc := map[string]int64{}, map[string]int64{}
		if kind != "ackok" {
			if f.Tok == "fx" {
				wantBank[s.u1.Bech()+"|"+fxtypes.DefaultDenom] = f.Amt
			} else {
				wantErc["usdt:u1"] = f.Amt
			}
		}
		s.expectOnly(c, name, "refund-differs-from-amount/"+kind+"/"+f.Tok, pre, post, wantBank, wantErc)
	}}
}

// userAndRecordDiff describes what differs between two snapshots in user-visible balances and tracking records.
func userAndRecordDiff(a, b snap) string {
	if fmt.Sprint(a.rel) != fmt.Sprint(b.rel) {
		return fmt.Sprintf("tracking records %v -> %v", a.rel, b.rel)
	}
	if fmt.Sprint(a.bank) != fmt.Sprint(b.bank) {
		return fmt.Sprintf("bank balances %v -> %v", a.bank, b.bank)
	}
	if fmt.Sprint(a.erc) != fmt.Sprint(b.erc) {
		return fmt.Sprintf("erc20 balances %v -> %v", a.erc, b.erc)
	}
	return ""
}

// dupOp: a second acknowledgement / timeout for an already settled packet.
func (s *Spec) dupOp(f flight, kind string) explore.Op {
	name := fmt.Sprintf("Dup%s(ch%d#%d)", map[string]string{"ackok": "AckOK", "ackerr": "AckErr", "timeout": "Timeout"}[kind], f.Pair, f.Seq)
	return explore.Op{Name: name, Run: func(c *explore.State) {
		pre := s.w.Dump(c.Ctx)
		var r world.MsgResult
		switch kind {
		case "ackok":
			r = scen.Ack(s.w, c.Ctx, f.Pkt, scen.SuccessAck(), s.rel)
		case "ackerr":
			r = scen.Ack(s.w, c.Ctx, f.Pkt, scen.ErrorAck(), s.rel)
		default:
			r = scen.Timeout(s.w, c.Ctx, f.Pkt, s.rel)
		}
		c.Accepted = r.OK()
		c.Outcome = map[bool]string{true: "no-op", false: "rejected"}[r.OK()]
		if r.Panic != nil {
			c.Violate("relay-never-panics", sig("settlement-panics/dup-"+kind), fmt.Sprintf("%s: %v\n%s", name, r.Panic, r.Stack))
			return
		}
		if d := nonIBCDiff(pre, s.w.Dump(c.Ctx)); len(d) > 0 {
			c.Violate("refund-exactly-once", sig("duplicate-"+kind+"-had-effect"), fmt.Sprintf("%s changed\n%s", name, strings.Join(d, "\n")))
		}
	}}
}

func (s *Spec) psig(x string) string {
	if s.Prop != "" {
		return s.Prop + "/" + x
	}
	return sig(x)
}

// depositToIBCOp: a deposit observed on eth whose receiver asked for the coins to be sent on through an IBC channel.
// Whatever happens to the onward transfer, the deposited amount is either on its way in a packet, or with the receiver,
// or the claim is still waiting to be executed - it is never nowhere.
func (s *Spec) depositToIBCOp(pi int, amt int64) explore.Op {
	name := fmt.Sprintf("DepositEthToIBC(ch%d,%d)", pi, amt)
	return explore.Op{Name: name, Run: func(c *explore.State) {
		m := c.Model.(*Model)
		p := s.pairs[pi]
		k := scen.Keeper(s.w, "eth")
		n := k.GetLastObservedEventNonce(c.Ctx) + 1
		target := hex.EncodeToString([]byte("px/" + scen.TransferPort + "/" + p.L))
		claim := scen.SendToFxClaim("eth", n, 100+n, scen.ExtAddr("eth", "usdt-token"), amt, scen.ExtAddr("eth", "depositor"), s.u2.Acc(), target, "")
		if r := scen.Vote(s.w, c.Ctx, "eth", s.ethOracles[0], claim); !r.OK() {
			c.Outcome = "vote-rejected"
			c.Violate("observed-event-is-processed", s.psig("deposit-claim-vote-failed"), r.String())
			return
		}
		holds := func(ctx sdk.Context) sdkmath.Int {
			total := scen.BalanceOf(s.w, ctx, s.usdt, s.u2.Hex())
			for _, coin := range s.w.App.BankKeeper.GetAllBalances(ctx, s.u2.Acc()) {
				if coin.Denom == "usdt" || strings.HasPrefix(coin.Denom, "ibc/") || strings.HasPrefix(coin.Denom, "eth0x") {
					total = total.Add(coin.Amount)
				}
			}
			return total
		}
		before := holds(c.Ctx)
		pre := s.w.Dump(c.Ctx)
		er := s.w.CallABI(c.Ctx, s.rel, cctypes.GetAddress(), cctypes.GetABI(), nil, 3_000_000, "executeClaim", "eth", new(big.Int).SetUint64(n))
		if er.Panic != nil {
			c.Outcome = "panic"
			c.Violate("relay-never-panics", s.psig("deposit-execution-panics"), fmt.Sprintf("%s: %v\n%s", name, er.Panic, er.Stack))
			return
		}
		_, parked := k.GetPendingExecuteClaim(c.Ctx, n)
		if !er.Success() {
			c.Outcome = "execution-refused"
			if d := nonIBCDiff(pre, s.w.Dump(c.Ctx)); len(d) > 0 && er.Kept() {
				// a failed EVM transaction keeps its fee and nonce only
				var real []string
				for _, l := range d {
					if !strings.HasPrefix(l, "evm/") && !strings.HasPrefix(l, "acc/") && !strings.HasPrefix(l, "feemarket/") {
						real = append(real, l)
					}
				}
				if len(real) > 0 {
					c.Violate("refused-execution-leaves-nothing", s.psig("refused-deposit-execution-had-effect"), name+": "+strings.Join(real, "; "))
				}
			}
			if !parked {
				c.Violate("refused-execution-leaves-nothing", s.psig("refused-deposit-execution-consumed-the-claim"), name)
			}
			return
		}
		c.Accepted = true
		gained := holds(c.Ctx).Sub(before)
		pkt, sent := scen.SentPacket(er.Events)
		inPacket := sdkmath.ZeroInt()
		if sent {
			var d transfertypes.FungibleTokenPacketData
			if err := transfertypes.ModuleCdc.UnmarshalJSON(pkt.Data, &d); err == nil {
				inPacket, _ = sdkmath.NewIntFromString(d.Amount)
			}
			m.Flights = append(m.Flights, flight{Pair: pi, Seq: pkt.Sequence, Tok: "usdt", Amt: amt, Relation: false, Pkt: pkt})
			c.Outcome = "forwarded"
		} else {
			c.Outcome = "kept-by-receiver"
		}
		if !gained.Add(inPacket).Equal(sdkmath.NewInt(amt)) || parked {
			c.Violate("deposit-is-never-nowhere", s.psig("deposit-neither-forwarded-nor-credited"), fmt.Sprintf("%s executed: receiver's holdings changed by %s, packet carries %s, claim still parked=%v - the observed deposit was %d", name, gained, inPacket, parked, amt))
		}
	}}
}

// ------------------------------------------------------------------ spec

func (s *Spec) Ops(st *explore.State) []explore.Op {
	m := st.Model.(*Model)
	var ops []explore.Op
	if s.Mode == "inbound" {
		for _, denom := range []string{"tknret", "usdt", "fxret", "junk"} {
			for _, recv := range []string{"hex", "bech"} {
				for _, memo := range []string{"none", "nonjson", "call", "revert"} {
					ops = append(ops, s.inboundOp(inbound{0, denom, recv, memo, 0}))
				}
			}
		}
		ops = append(ops, s.inboundOp(inbound{0, "tknret", "hex", "call", 1}))
		ops = append(ops, s.inboundOp(inbound{0, "tknret", "hex", "steal", 1}))
		ops = append(ops, s.inboundOp(inbound{0, "fxret", "hex", "steal", 1}))
		ops = append(ops, s.inboundOp(inbound{1, "tknret", "hex", "call", 0}))
		ops = append(ops, s.inboundOp(inbound{1, "tknret", "hex", "call", 1}))
		ops = append(ops, s.inboundOp(inbound{1, "fxret", "hex", "none", 0}))
		for _, d := range []string{"fakefx", "fakefx2"} {
			ops = append(ops, s.inboundOp(inbound{0, d, "hex", "none", 0}), s.inboundOp(inbound{0, d, "bech", "none", 0}), s.inboundOp(inbound{0, d, "hex", "call", 0}))
		}
	}
	if s.Mode == "mixed" {
		ops = append(ops, s.inboundOp(inbound{0, "tknret", "hex", "none", 0}))
		ops = append(ops, s.inboundOp(inbound{0, "tknret", "hex", "call", 1}))
		ops = append(ops, s.inboundOp(inbound{0, "usdt", "hex", "none", 0}))
		ops = append(ops, s.inboundOp(inbound{0, "fxret", "hex", "none", 0}))
		ops = append(ops, s.inboundOp(inbound{0, "junk", "hex", "none", 0}))
	}
	if s.Mode == "deposit" {
		for pi := range s.pairs {
			for _, amt := range []int64{2, 50} {
				ops = append(ops, s.depositToIBCOp(pi, amt))
			}
		}
		return ops
	}
	if m.LastIn != nil && s.Mode != "outbound" {
		ops = append(ops, s.replayInOp())
	}
	if s.Mode != "inbound" {
		if m.Outs < s.MaxOut && len(m.Flights) < 2 {
			for pi := range s.pairs {
				toks, amts := []string{"usdt", "fx"}, []int64{1, 2}
				if s.Mode == "mixed" {
					toks, amts = []string{"usdt"}, []int64{1}
				}
				for _, tok := range toks {
					for _, amt := range amts {
						ops = append(ops, s.outboundOp(pi, tok, amt))
					}
				}
			}
		}
		for i, f := range m.Flights {
			for _, k := range []string{"ackok", "ackerr", "timeout"} {
				ops = append(ops, s.settleOp(i, f, k))
			}
		}
		for _, f := range m.Settled {
			for _, k := range []string{"ackok", "ackerr", "timeout"} {
				ops = append(ops, s.dupOp(f, k))
			}
		}
		// governance switches the usdt pair off while a transfer is in flight, and on again
		if s.Mode == "outbound" && m.Toggles < 2 && (m.Paused || len(m.Flights) > 0) {
			ops = append(ops, explore.Op{Name: "TogglePair(usdt)", Run: func(c *explore.State) {
				mm := c.Model.(*Model)
				r := s.w.Deliver(c.Ctx, &erc20types.MsgToggleTokenConversion{Authority: world.GovAuthority(), Token: "usdt"})
				c.Accepted = r.OK()
				c.Outcome = map[bool]string{true: "ok", false: "rejected"}[r.OK()]
				if r.OK() {
					mm.Toggles++
					mm.Paused = !mm.Paused
				}
			}})
		}
		if m.Advs < s.MaxAdv && len(m.Flights) > 0 {
			ops = append(ops, explore.Op{Name: "Advance(13h)", Run: func(c *explore.State) {
				c.Model.(*Model).Advs++
				next, r := s.w.NextBlock(c.Ctx, 13*time.Hour)
				c.Ctx = next
				c.Accepted = r.Err == nil && r.Panic == nil
				c.Outcome = map[bool]string{true: "ok", false: "halt"}[c.Accepted]
			}})
		}
	}
	return ops
}

func (s *Spec) Check(st *explore.State) {
	m := st.Model.(*Model)
	var want []string
	for _, f := range m.Flights {
		if f.Relation {
			want = append(want, fmt.Sprintf("%s/%d", s.pairs[f.Pair].L, f.Seq))
		}
	}
	sort.Strings(want)
	got := s.relations(st.Ctx)
	if strings.Join(want, ",") != strings.Join(got, ",") {
		kind := "tracking-record-missing-for-packet-in-flight"
		if len(got) > len(want) {
			kind = "tracking-record-without-packet-in-flight"
		}
		st.Violate("tracking-record-matches-flights", sig(kind), fmt.Sprintf("erc20 tracking records %v, EVM-origin ERC-20 transfers in flight %v", got, want))
	}
	// every ERC-20 unit is held by a watched account (nothing leaked to an unknown holder)
	for tok, addr := range s.tokens() {
		sum := sdkmath.ZeroInt()
		for _, t := range s.tracked {
			sum = sum.Add(scen.BalanceOf(s.w, st.Ctx, addr, t.Addr))
		}
		if ts := scen.TotalSupply(s.w, st.Ctx, addr); !ts.Equal(sum) {
			st.Violate("erc20-held-by-known-accounts", sig("erc20-supply-not-held-by-watched-accounts"), fmt.Sprintf("%s: total supply %s, watched holders %s", tok, ts, sum))
		}
	}
}

func (s *Spec) Counters(st *explore.State) []string {
	m := st.Model.(*Model)
	var out []string
	if len(m.Flights) > 0 {
		out = append(out, "packet-in-flight")
	}
	if len(m.Flights) > 1 {
		out = append(out, "two-in-flight")
		if m.Flights[0].Pair != m.Flights[1].Pair {
			out = append(out, "in-flight-on-two-channels")
		}
	}
	if len(m.Settled) > 0 {
		out = append(out, "settled>=1")
	}
	return out
}

func init() {
	registry.Register(&registry.Check{
		ID:    "C19",
		Level: "model_checking",
		Rule:  "explicit-state DFS over two loop-back (09-localhost) transfer channel pairs through the real IBC core handlers (MsgRecvPacket / MsgAcknowledgement / MsgTimeout with real commitment, receipt and acknowledgement bookkeeping) and the fx middleware stack. Inbound alphabet: denom {registered voucher, FX returning from escrow, unregistered} x receiver {hex, bech32} x memo {none, non-JSON, EVM call to a recorder, reverting call, call that tries to move tokens} x remote sender {foreign string, a local account's bech32} + replay of the last packet; oracle: success ack => exactly the amount credited as ERC-20 (FX: natively) to the receiver and no other watched account or user bank balance changes, error ack => every store except the IBC core store is byte-identical, memo call runs once with msg.sender = hash(port/channel, sender) which is no local account. Outbound alphabet: crossChain precompile from u1 {ERC-20 usdt, native FX} x amount {1,2} x channel {0,1}, then AckOK / AckErr / Timeout (after a 13h jump) per packet in flight and duplicates of each for settled packets; oracle: debit exactly the amount, tracking records == EVM-origin ERC-20 packets in flight in every state, refund exactly once in ERC-20 form on error/timeout, nothing on success, duplicates change nothing outside the IBC core store",
		Assumptions: []string{
			"the remote chain is played by the harness writing the remote end's commitment / acknowledgement; remote behaviour beyond {success ack, error ack, never received} is not modelled",
			"amounts 1..2 base units, at most 2 packets in flight, at most 3 outbound transfers per path",
			"FX arriving over IBC counts as credited in EVM form when credited as native balance (DESIGN 6b)",
		},
		Jobs: func(tier string) []registry.Job {
			if tier == "thorough" {
				return []registry.Job{
					{Name: "inbound", Spec: &Spec{Mode: "inbound"}, Depth: 3, ShardDepth: 2},
					{Name: "outbound", Spec: &Spec{Mode: "outbound", MaxOut: 3, MaxAdv: 2}, Depth: 7, ShardDepth: 2},
					{Name: "mixed", Spec: &Spec{Mode: "mixed", MaxOut: 3, MaxAdv: 1}, Depth: 6, ShardDepth: 2},
					{Name: "deposit-forwarded-over-ibc", Spec: &Spec{Mode: "deposit"}, Depth: 3, ShardDepth: 1, NoConform: true},
				}
			}
			return []registry.Job{
				{Name: "inbound", Spec: &Spec{Mode: "inbound"}, Depth: 2, ShardDepth: 1},
				{Name: "outbound", Spec: &Spec{Mode: "outbound", MaxOut: 2, MaxAdv: 1}, Depth: 5, ShardDepth: 2},
				{Name: "mixed", Spec: &Spec{Mode: "mixed", MaxOut: 2, MaxAdv: 1}, Depth: 4, ShardDepth: 2},
				{Name: "deposit-forwarded-over-ibc", Spec: &Spec{Mode: "deposit"}, Depth: 2, ShardDepth: 1, NoConform: true},
			}
		},
	})
}
