// Package c03: the executed event is field-for-field the event the quorum voted for.
package c03

import (
	"encoding/hex"
	"fmt"
	"math/big"
	"reflect"
	"sort"
	"strings"
	"time"

	sdkmath "cosmossdk.io/math"
	sdk "github.com/cosmos/cosmos-sdk/types"

	fxtypes "github.com/functionx/fx-core/v8/types"
	cctypes "github.com/functionx/fx-core/v8/x/crosschain/types"

	"fxmc/explore"
	"fxmc/props/registry"
	"fxmc/props/vote"
	"fxmc/scen"
	"fxmc/world"
)

// relevant lists, per claim type, the fields a handler (or anything it calls) reads when the event is executed.
var relevant = map[string][]string{
	"SendToFx":         {"EventNonce", "BlockHeight", "TokenContract", "Amount", "Sender", "Receiver", "TargetIbc"},
	"BridgeToken":      {"EventNonce", "BlockHeight", "TokenContract", "Symbol", "Decimals"},
	"SendToExternal":   {"EventNonce", "BlockHeight", "BatchNonce", "TokenContract"},
	"OracleSetUpdated": {"EventNonce", "BlockHeight", "OracleSetNonce", "Members"},
	"BridgeCall":       {"EventNonce", "BlockHeight", "Sender", "Refund", "TokenContracts", "Amounts", "To", "Data", "Value", "Memo", "TxOrigin"},
	"BridgeCallResult": {"EventNonce", "BlockHeight", "Nonce", "Success", "Cause", "TxOrigin"},
}

func domains(chain, typ string, thorough bool) map[string][]interface{} {
	a := func(l string) string { return scen.ExtAddr(chain, l) }
	i := func(v int64) sdkmath.Int { return sdkmath.NewInt(v) }
	memoCallTo := hex.EncodeToString(cctypes.MemoSendCallTo.Bytes()) // the send-call-to flag
	switch typ {
	case "SendToFx":
		return map[string][]interface{}{
			"EventNonce": {uint64(2), uint64(20)}, "BlockHeight": {uint64(102), uint64(1)},
			"TokenContract": {a("fx-token"), a("tok2")}, "Amount": {i(7), i(70)}, "Sender": {a("depositor"), a("d2")},
			"Receiver": {world.NewActor("u1").Bech(), world.NewActor("u2").Bech()}, // targets are parsed before use: every spelling the parser knows, and strings that look like a parsed form
			"TargetIbc": {"", hex.EncodeToString([]byte("erc20")), hex.EncodeToString([]byte("px/transfer/channel-0")), hex.EncodeToString([]byte("ibc/0/px")), hex.EncodeToString([]byte("channel-0/px")),
				hex.EncodeToString([]byte("module/evm")), hex.EncodeToString([]byte("chain/gravity")), hex.EncodeToString([]byte("eth")), hex.EncodeToString([]byte("px/transfer/channel-1")), hex.EncodeToString([]byte("transfer/channel-0"))},
		}
	case "BridgeToken":
		names := []interface{}{"Other", "A", "A/B", "A/B/C", "B", "B/C"}
		syms := []interface{}{"OTH", "FX", "B/FX", "C", "B/C", "A"}
		return map[string][]interface{}{
			"EventNonce": {uint64(2), uint64(20)}, "BlockHeight": {uint64(102), uint64(1)}, "TokenContract": {a("other-token"), a("tok2")},
			"Name": names, "Symbol": syms, "Decimals": {uint64(6), uint64(18)}, "ChannelIbc": {"", hex.EncodeToString([]byte("transfer/channel-0"))},
		}
	case "SendToExternal":
		return map[string][]interface{}{
			"EventNonce": {uint64(2), uint64(20)}, "BlockHeight": {uint64(102), uint64(1)}, "BatchNonce": {uint64(1), uint64(2), uint64(12)}, "TokenContract": {a("fx-token"), a("tok2")},
		}
	case "OracleSetUpdated":
		m := func(p uint64, l string) cctypes.BridgeValidator {
			return cctypes.BridgeValidator{Power: p, ExternalAddress: a(l)}
		}
		return map[string][]interface{}{
			"EventNonce": {uint64(2), uint64(20)}, "BlockHeight": {uint64(102), uint64(1)}, "OracleSetNonce": {uint64(1), uint64(2), uint64(0)},
			"Members": {[]cctypes.BridgeValidator{m(1000, "m1")}, []cctypes.BridgeValidator{m(1000, "m2")}, []cctypes.BridgeValidator{m(10, "m1")}, []cctypes.BridgeValidator{m(1000, "m1"), m(1000, "m2")}, []cctypes.BridgeValidator{m(1000, "m2"), m(1000, "m1")}},
		}
	case "BridgeCall":
		return map[string][]interface{}{
			"EventNonce": {uint64(2), uint64(20)}, "BlockHeight": {uint64(102), uint64(1)}, "Sender": {a("depositor"), a("d2")}, "Refund": {a("refund"), a("depositor")},
			"TokenContracts": {[]string{a("fx-token")}, []string{a("tok2")}, []string{}, []string{a("fx-token"), a("tok2")}, []string{a("tok2"), a("fx-token")}},
			"Amounts":        {[]sdkmath.Int{i(5)}, []sdkmath.Int{i(50)}, []sdkmath.Int{}, []sdkmath.Int{i(5), i(50)}, []sdkmath.Int{i(50), i(5)}},
			"To":             {a("callee"), a("c2")}, "Data": {"", "00", "0000"}, "Value": {i(0), i(1)}, "Memo": {"", "00", memoCallTo}, "TxOrigin": {a("origin"), a("o2")},
		}
	case "BridgeCallResult":
		return map[string][]interface{}{
			"EventNonce": {uint64(2), uint64(20)}, "BlockHeight": {uint64(102), uint64(1)}, "Nonce": {uint64(1), uint64(2)}, "TxOrigin": {a("origin"), a("o2")},
			"Success": {true, false}, "Cause": {"", "00"},
		}
	}
	panic(typ)
}

// extended adds, per field kind, values chosen so that two neighbouring fields of a hashed string
// collide whenever their separator is missing: integers {1,12,112 | 3,23,123,120,0}, hex strings
// {"", 12, 1212, aa, aa12}, free-form strings with digits and separators.
func extended(dom map[string][]interface{}) map[string][]interface{} {
	out := map[string][]interface{}{}
	for f, vs := range dom {
		ext := append([]interface{}(nil), vs...)
		switch vs[0].(type) {
		case uint64:
			for _, x := range []uint64{1, 12, 112, 3, 23, 123, 120, 0} {
				ext = append(ext, x)
			}
		case sdkmath.Int:
			for _, x := range []int64{1, 12, 112, 3, 23, 123, 120, 0} {
				ext = append(ext, sdkmath.NewInt(x))
			}
		case string:
			switch f {
			case "Data", "Memo", "Cause", "TargetIbc", "ChannelIbc":
				for _, x := range []string{"", "12", "1212", "aa", "aa12", "0012"} {
					ext = append(ext, x)
				}
			case "Name", "Symbol":
				for _, x := range []string{"1", "12", "A/1", "1/A", "6", "18"} {
					ext = append(ext, x)
				}
			}
		}
		out[f] = ext
	}
	return out
}

func clone(c cctypes.ExternalClaim) cctypes.ExternalClaim {
	return scen.WithBridger(c, reflect.ValueOf(c).Elem().FieldByName("BridgerAddress").String())
}

func set(c cctypes.ExternalClaim, field string, v interface{}) {
	reflect.ValueOf(c).Elem().FieldByName(field).Set(reflect.ValueOf(v))
}

func project(typ string, c cctypes.ExternalClaim) map[string]string {
	out := map[string]string{}
	for _, f := range relevant[typ] {
		out[f] = fmt.Sprintf("%#v", reflect.ValueOf(c).Elem().FieldByName(f).Interface())
		if iv, ok := reflect.ValueOf(c).Elem().FieldByName(f).Interface().(sdkmath.Int); ok {
			out[f] = iv.String()
		}
		if iv, ok := reflect.ValueOf(c).Elem().FieldByName(f).Interface().([]sdkmath.Int); ok {
			out[f] = fmt.Sprint(iv)
		}
		if f == "TargetIbc" {
			// what is executed is the parsed target: two spellings of one route are the same event
			t := fxtypes.ParseFxTarget(reflect.ValueOf(c).Elem().FieldByName(f).String(), true)
			out[f] = fmt.Sprintf("ibc=%v target=%q prefix=%q port=%q channel=%q", t.IsIBC(), t.GetTarget(), t.Prefix, t.SourcePort, t.SourceChannel)
		}
	}
	return out
}

func diffFields(a, b map[string]string) []string {
	var d []string
	for k, v := range a {
		if b[k] != v {
			d = append(d, k)
		}
	}
	sort.Strings(d)
	return d
}

func safeValidate(c cctypes.ExternalClaim) (err error) {
	defer func() {
		if r := recover(); r != nil {
			err = fmt.Errorf("panic: %v", r)
		}
	}()
	return c.ValidateBasic()
}

func run(thorough bool) func(shard, shards int, deadline time.Time) *explore.Result {
	return func(shard, shards int, deadline time.Time) *explore.Result {
		start := time.Now()
		res := &explore.Result{Spec: "c03/claim-hash", Outcomes: map[string]int{}, Counters: map[string]int{}, ViolationCounts: map[string]int{}, Exhaustive: true, DeterminismOK: true, Extra: map[string]float64{}}
		chains := []string{"eth"}
		if thorough {
			chains = []string{"eth", "tron"}
		}
		addViol := func(sig, oracle, detail string, path []string) {
			res.ViolationCounts[sig]++
			for _, v := range res.Violations {
				if v.Signature == sig {
					return
				}
			}
			res.Violations = append(res.Violations, explore.Violation{Oracle: oracle, Signature: sig, Detail: detail, Path: path})
		}
		for _, chain := range chains {
			// real keeper with a 2-of-2 quorum for the schedule half
			w := world.New(world.Config{Validators: 2, Actors: []string{"bank", "u1", "u2"}})
			ctx := w.Root
			os := scen.SetupOracles(w, ctx, chain, []string{"o1", "o2"}, []int64{10000, 10000})
			token := scen.ExtAddr(chain, "fx-token")
			scen.Observe(w, ctx, chain, os, scen.BridgeTokenClaim(chain, 1, 100, token, "Function X", "FX", 18, ""))
			k := scen.Keeper(w, chain)
			for _, typ := range scen.ClaimTypes {
				base := scen.WithBridger(scen.SampleClaims(chain, 2, token, w.A("u1").Acc(), os[0].ExtAddr)[typ], os[0].Bridger.Bech())
				dom := domains(chain, typ, thorough)
				var fields []string
				for f := range dom {
					fields = append(fields, f)
				}
				sort.Strings(fields)
				// ---- half 1: full product, bucket by hash
				type entry struct {
					proj map[string]string
					desc string
				}
				buckets := map[string][]entry{}
				var rec func(i int, c cctypes.ExternalClaim, desc []string)
				rec = func(i int, c cctypes.ExternalClaim, desc []string) {
					if i == len(fields) {
						res.Extra["evaluations"]++
						if safeValidate(c) != nil {
							res.Outcomes[typ+"=invalid"]++
							return
						}
						res.Outcomes[typ+"=valid"]++
						// claims for different event nonces are never tallied together: bucket per nonce
						h := fmt.Sprintf("%d|%s", c.GetEventNonce(), hex.EncodeToString(c.ClaimHash()))
						p := project(typ, c)
						for _, e := range buckets[h] {
							if d := diffFields(e.proj, p); len(d) > 0 {
								sig := fmt.Sprintf("C03/same-hash-different-%s/%s", strings.Join(d, "+"), typ)
								addViol(sig, "claim-hash-injective-on-executed-fields", fmt.Sprintf("%s claims with equal ClaimHash %s differ in executed field(s) %v:\n  %s\n  %s", typ, h[:18], d, e.desc, strings.Join(desc, " ")), []string{e.desc, strings.Join(desc, " ")})
							}
						}
						if len(buckets[h]) < 8 {
							buckets[h] = append(buckets[h], entry{p, strings.Join(desc, " ")})
						}
						return
					}
					for _, v := range dom[fields[i]] {
						cc := clone(c)
						set(cc, fields[i], v)
						rec(i+1, cc, append(append([]string(nil), desc...), fmt.Sprintf("%s=%v", fields[i], v)))
					}
				}
				rec(0, base, nil)
				// ---- half 1c: the chain name written into the claim is not hashed and not executed, but it selects how the
				// claim's own address fields are read. The product is repeated over {this chain, another EVM chain, the chain with
				// the other address format} x every address value in both formats (same 20 bytes): claims that pass ValidateBasic
				// and share a hash must still agree on every executed field as written
				{
					otherFmt, otherEvm := "tron", "bsc"
					if chain == "tron" {
						otherFmt = "eth"
					}
					if chain == "bsc" {
						otherEvm = "eth"
					}
					alt := map[string]string{}
					for _, l := range []string{"c2", "callee", "d2", "depositor", "fx-token", "o2", "origin", "other-token", "refund", "tok2"} {
						alt[scen.ExtAddr(chain, l)] = scen.ExtAddr(otherFmt, l)
					}
					saved := dom
					dom = map[string][]interface{}{}
					for f, vs := range saved {
						if f == "BlockHeight" || f == "EventNonce" { // kept at the baseline: they do not interact with address formats
							dom[f] = vs[:1]
							continue
						}
						out := append([]interface{}(nil), vs[:min(2, len(vs))]...)
						for _, v := range vs[:min(2, len(vs))] {
							switch x := v.(type) {
							case string:
								if y, ok := alt[x]; ok {
									out = append(out, y)
								}
							case []string:
								var ys []string
								for _, e := range x {
									ys = append(ys, alt[e])
								}
								if len(ys) > 0 {
									out = append(out, ys)
								}
							}
						}
						dom[f] = out
					}
					dom["ChainName"] = []interface{}{chain, otherEvm, otherFmt}
					savedFields := fields
					fields = nil
					for f := range dom {
						fields = append(fields, f)
					}
					sort.Strings(fields)
					savedBuckets := buckets
					buckets = map[string][]entry{}
					rec(0, base, nil)
					res.Counters["hash-buckets-with-chain-name-variants/"+typ] += len(buckets)
					dom, fields, buckets = saved, savedFields, savedBuckets
				}
				// ---- half 1b: every pair of fields over the extended (shift-closed) domains, the other fields at
				// the baseline: finds collisions that need two fields to change together (a digit or byte moving
				// across a field boundary of the hashed string)
				ext := extended(dom)
				for i := 0; i < len(fields); i++ {
					for j := i + 1; j < len(fields); j++ {
						for _, vi := range ext[fields[i]] {
							for _, vj := range ext[fields[j]] {
								cc := clone(base)
								set(cc, fields[i], vi)
								set(cc, fields[j], vj)
								rec(len(fields), cc, []string{fmt.Sprintf("%s=%v", fields[i], vi), fmt.Sprintf("%s=%v", fields[j], vj), "(others baseline)"})
							}
						}
					}
				}
				res.Extra["distinct_nontrivial"] += float64(len(buckets))
				res.Counters["hash-buckets/"+typ] += len(buckets)
				// ---- half 2a: claims that differ only in fields outside the hash (the chain name written into the claim itself;
				// the bridger is each voter's own) are tallied together - then the effect must not depend on whose copy
				// crosses the threshold: both orders and the all-identical control end in the same state
				{
					other := "bsc"
					if chain == "bsc" {
						other = "eth"
					}
					alt := clone(base)
					set(alt, "ChainName", other)
					if safeValidate(alt) == nil && safeValidate(base) == nil && hex.EncodeToString(alt.ClaimHash()) == hex.EncodeToString(base.ClaimHash()) {
						effect := func(first, second cctypes.ExternalClaim) (map[string][]byte, string) {
							br := world.Branch(ctx)
							r1 := scen.Vote(w, br, chain, os[0], first)
							r2 := scen.Vote(w, br, chain, os[1], second)
							res.Transitions += 2
							note := fmt.Sprintf("votes %s / %s, observed=%v", r1, r2, k.GetLastObservedEventNonce(br) == 2)
							if _, parked := k.GetPendingExecuteClaim(br, 2); parked {
								er := w.CallABI(br, w.A("u2"), cctypes.GetAddress(), cctypes.GetABI(), nil, 2_000_000, "executeClaim", chain, big.NewInt(2))
								note += fmt.Sprintf(", execution %s", er)
							}
							_, stillParked := k.GetPendingExecuteClaim(br, 2)
							note += fmt.Sprintf(", still parked=%v", stillParked)
							d := w.Dump(br)
							d["(claim 2 still parked)"] = []byte(fmt.Sprint(stillParked))
							for key := range d { // the attestation and a parked claim keep a voter's copy of the claim: copies, not effects
								if strings.HasPrefix(key, chain+"/"+hex.EncodeToString(cctypes.OracleAttestationKey)) || strings.HasPrefix(key, chain+"/"+hex.EncodeToString(cctypes.PendingExecuteClaimKey)) || strings.HasPrefix(key, "evm/") || strings.HasPrefix(key, "acc/") || strings.HasPrefix(key, "feemarket/") {
									delete(d, key)
								}
							}
							return d, note
						}
						control, cn := effect(base, base)
						for _, order := range []string{"variant crosses the threshold", "variant votes first"} {
							first, second := base, alt
							if order == "variant votes first" {
								first, second = alt, base
							}
							got, gn := effect(first, second)
							res.Outcomes["same-hash-pair/compared"]++
							if d := world.DiffDumps(control, got); len(d) > 0 {
								addViol(fmt.Sprintf("C03/effect-depends-on-which-vote-crosses-the-threshold/ChainName/%s", typ), "effect-is-the-one-voted-for",
									fmt.Sprintf("%s/%s: two claims with the same hash (they differ in the chain name written into the claim: %q vs %q), %s: the resulting state differs from the state after two identical votes (%s | control: %s): %v", chain, typ, chain, other, order, gn, cn, d[:min(4, len(d))]), []string{typ + " " + order})
							}
						}
					}
				}
				// ---- half 2: schedules in the real keeper: o1 votes A, o2 votes B for every single-field-different pair
				for _, f := range fields {
					for _, v := range dom[f] {
						alt := clone(base)
						set(alt, f, v)
						if safeValidate(alt) != nil || safeValidate(base) != nil {
							continue
						}
						pa, pb := project(typ, base), project(typ, alt)
						d := diffFields(pa, pb)
						if len(d) == 0 {
							continue // same event as far as execution goes
						}
						if base.GetEventNonce() != alt.GetEventNonce() {
							continue // different nonces are never tallied together
						}
						for _, order := range []string{"AB", "BA"} {
							br := world.Branch(ctx)
							first, second := base, alt
							if order == "BA" {
								first, second = alt, base
							}
							r1 := scen.Vote(w, br, chain, os[0], first)
							r2 := scen.Vote(w, br, chain, os[1], second)
							res.Transitions += 2
							name := fmt.Sprintf("%s/%s: o1 votes %s, o2 votes %s=%v (%s)", chain, typ, map[string]string{"AB": "baseline", "BA": "variant"}[order], f, v, order)
							if len(res.Samples) < 5 {
								res.Samples = append(res.Samples, []string{name, r1.String(), r2.String()})
							}
							if !r1.OK() || (!r2.OK() && r2.Panic == nil && k.GetLastObservedEventNonce(br) == 1) {
								res.Outcomes["pair=vote-rejected"]++
								continue
							}
							if k.GetLastObservedEventNonce(br) != 1 {
								res.Outcomes["pair=OBSERVED"]++
								sig := fmt.Sprintf("C03/tallied-together-despite-different-%s/%s", strings.Join(d, "+"), typ)
								addViol(sig, "disagreeing-votes-are-not-tallied-together", fmt.Sprintf("%s: event nonce 2 became observed although the two voters disagree on %v (ClaimHash equal: %v)", name, d, hex.EncodeToString(first.ClaimHash()) == hex.EncodeToString(second.ClaimHash())), []string{name})
							} else {
								res.Outcomes["pair=not-observed"]++
							}
						}
					}
				}
			}
		}
		res.States = int(res.Extra["distinct_nontrivial"])
		res.WallS = time.Since(start).Seconds()
		_ = sdk.AccAddress{}
		return res
	}
}

func init() {
	registry.Register(&registry.Check{
		ID:    "C03",
		Level: "model_checking",
		Rule:  "per claim type, every claim in the product of per-field value domains (values containing the path separator, reordered lists, boundary integers) that passes ValidateBasic is hashed and bucketed; inside a bucket all claims must agree on every executed field. Schedule half: for every single-field-different pair, oracle 1 votes one and oracle 2 the other (both orders) in the real keeper with a 2-of-2 quorum; the event must not become observed. states = distinct hash buckets; transitions = votes delivered. Tally half (E1): every order of votes by four equal oracles for two competing claims per nonce plus executeClaim calls, to the depth bound; in every state each stored attestation lists only oracles whose accepted vote named exactly that claim, at most one attestation per nonce is observed, and the receiver holds the amounts of the observed variants",
		Assumptions: []string{
			"executed fields per claim type are read off the handlers (listed in props/c03/c03.go: relevant)",
			"value domains are finite (2-6 values per field); collisions that need values outside the domains are not found",
		},
		Jobs: func(tier string) []registry.Job {
			// tally half: four equal oracles (3-of-4 quorum), two competing claims per nonce, every vote order; in every
			// state each attestation's recorded voters must be oracles whose accepted vote named exactly that claim
			depth := 6
			if tier == "thorough" {
				depth = 8
			}
			return []registry.Job{
				{Name: "claim-hash", Custom: run(tier == "thorough"), Shards: 1},
				{Name: "competing-claims-tally", Spec: &vote.Spec{Prop: "C03", Chain: "eth", Stakes: []int64{10000, 10000, 10000, 10000}, Variants: []string{"A", "B"}, Execute: true, MaxNonce: 3}, Depth: depth, ShardDepth: 2},
			}
		},
	})
}

func min(a, b int) int {
	if a < b {
		return a
	}
	return b
}
