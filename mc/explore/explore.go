// Package explore is engine E1: explicit-state, depth-bounded exhaustive search
// over the real fx-core application. A state is a store branch
// (sdk.Context.CacheContext) plus a small monitor/reference model; a transition
// runs a real handler on a fresh child branch.
package explore

import (
	"crypto/sha256"
	"encoding/hex"
	"fmt"
	"sort"
	"strings"
	"sync"
	"time"

	sdk "github.com/cosmos/cosmos-sdk/types"

	"fxmc/world"
)

// Model is the monitor / reference model carried along a path.
type Model interface {
	Clone() Model
	// Canon is the canonical encoding of the history variables that matter for future behaviour.
	Canon() []byte
}

// NoModel is for specs whose oracles only look at the store.
type NoModel struct{}

func (NoModel) Clone() Model  { return NoModel{} }
func (NoModel) Canon() []byte { return nil }

// Violation is one failed oracle.
type Violation struct {
	Property  string   `json:"property"`
	Oracle    string   `json:"oracle"`
	Signature string   `json:"signature"` // stable class used by known_findings.json
	Detail    string   `json:"detail"`
	Path      []string `json:"path"`
	Scenario  string   `json:"scenario"`
}

// State is one node of the search.
type State struct {
	W     *world.World
	Ctx   sdk.Context
	Model Model
	Path  []string

	// set by ops on the child
	Accepted bool
	Outcome  string // short class of the outcome, for the vacuity table
	viols    []Violation
	spec     Spec
}

func (s *State) Violate(oracle, signature, detail string) {
	s.viols = append(s.viols, Violation{Oracle: oracle, Signature: signature, Detail: detail, Path: append([]string(nil), s.Path...)})
}

// Op is one letter of the alphabet, instantiated for a given state.
type Op struct {
	Name string
	// Run executes the real entry point on st (a fresh child of the state the op was generated for).
	Run func(st *State)
}

// Spec is what a property provides.
type Spec interface {
	Name() string
	// Init builds the scenario on a fresh world and returns the root state.
	Init() *State
	// Ops lists the enabled alphabet in a fixed (simplest first) order.
	Ops(s *State) []Op
	// Check evaluates the state invariants; called once per distinct state.
	Check(s *State)
	// Counters lets a spec report non-triviality counters for a state (e.g. "observed>=1").
	Counters(s *State) []string
}

type Options struct {
	Depth    int
	Shard    int // this worker's index
	Shards   int // total workers
	Deadline time.Time
	// ShardDepth: number of leading op choices used to deal work (1 or 2)
	ShardDepth int
	MaxViol    int
}

type Result struct {
	Spec            string             `json:"spec"`
	Depth           int                `json:"depth"`
	Shard           int                `json:"shard"`
	States          int                `json:"states"`
	Transitions     int                `json:"transitions"`
	Accepted        int                `json:"accepted"`
	Rejected        int                `json:"rejected"`
	MaxDepth        int                `json:"max_depth"`
	Exhaustive      bool               `json:"exhaustive"`
	CompletedDepth  int                `json:"completed_depth"`
	Outcomes        map[string]int     `json:"outcomes"`
	Counters        map[string]int     `json:"counters"`
	Violations      []Violation        `json:"violations"`
	Samples         [][]string         `json:"samples"`
	Digests         []string           `json:"digests,omitempty"`
	WallS           float64            `json:"wall_s"`
	DeterminismOK   bool               `json:"determinism_ok"`
	DeterminismDiff string             `json:"determinism_diff,omitempty"`
	ViolationCounts map[string]int     `json:"violation_counts"`
	Extra           map[string]float64 `json:"extra,omitempty"`
	// Conformance: divergences between emulated and real-block replays of this job's op sequences (harness errors)
	Conformance []string `json:"conformance,omitempty"`
}

// IsolationSignature is the suffix-free signature of the self-check's finding; drivers prefix nothing: it is the same
// defect whatever property's scenario exposes it.
const IsolationSignature = "state-outside-the-store-survives-a-discarded-execution"

// IsolationCheck re-runs the self-check of Run for a replay file.
func IsolationCheck(spec Spec) (string, bool) {
	e := &explorer{spec: spec, visited: map[[32]byte]int{}, res: &Result{Outcomes: map[string]int{}, Counters: map[string]int{}, ViolationCounts: map[string]int{}}}
	a := spec.Init()
	a.spec = spec
	f1 := e.firstLevel(a, false)
	b := spec.Init()
	b.spec = spec
	f2 := e.firstLevel(b, true)
	for i := range f1 {
		if i < len(f2) && f1[i] != f2[i] {
			return fmt.Sprintf("%s  vs  %s", f1[i], f2[i]), true
		}
	}
	return "", false
}

// Progress is stamped before every transition; a worker's watchdog uses it to turn an operation that does not
// terminate into a harness error instead of a hang.
var (
	progressMu   sync.Mutex
	progressAt   time.Time
	progressPath []string
	progressSeq  uint64
)

func stamp(path []string, op string) {
	progressMu.Lock()
	progressAt = time.Now()
	progressPath = append(append([]string(nil), path...), op)
	progressSeq++
	progressMu.Unlock()
}

// StalledSeq is Stalled plus the running transition's sequence number (it changes whenever a new transition starts).
func StalledSeq() (time.Duration, []string, uint64) {
	progressMu.Lock()
	defer progressMu.Unlock()
	if progressAt.IsZero() {
		return 0, nil, 0
	}
	return time.Since(progressAt), progressPath, progressSeq
}

// Stalled reports how long the current transition has been running and which one it is.
func Stalled() (time.Duration, []string) {
	progressMu.Lock()
	defer progressMu.Unlock()
	if progressAt.IsZero() {
		return 0, nil
	}
	return time.Since(progressAt), progressPath
}

type explorer struct {
	spec    Spec
	opt     Options
	visited map[[32]byte]int // digest -> largest remaining depth it was expanded with
	res     *Result
	capped  bool
	leaf    int
}

func stateKey(s *State) [32]byte {
	d := s.W.Digest(s.Ctx)
	h := sha256.New()
	h.Write(d[:])
	h.Write(s.Model.Canon())
	var out [32]byte
	copy(out[:], h.Sum(nil))
	return out
}

// Child creates the successor skeleton of s for op.
func Child(s *State, name string) *State {
	return &State{
		W:     s.W,
		Ctx:   world.Branch(s.Ctx),
		Model: s.Model.Clone(),
		Path:  append(append([]string(nil), s.Path...), name),
		spec:  s.spec,
	}
}

// Run explores spec to opt.Depth.
func Run(spec Spec, opt Options) *Result {
	start := time.Now()
	if opt.Shards <= 0 {
		opt.Shards = 1
	}
	if opt.ShardDepth <= 0 {
		opt.ShardDepth = 1
	}
	if opt.MaxViol <= 0 {
		opt.MaxViol = 50
	}
	res := &Result{Spec: spec.Name(), Depth: opt.Depth, Shard: opt.Shard, Outcomes: map[string]int{}, Counters: map[string]int{}, ViolationCounts: map[string]int{}, Exhaustive: true}
	e := &explorer{spec: spec, opt: opt, visited: map[[32]byte]int{}, res: res}

	// determinism self-check: build the scenario twice, take every first-level op on both, compare fingerprints.
	// (a spec owns its world, so the first root is abandoned once the second is built)
	// The second world takes the first-level operations in reverse order: every successor is computed on a branch that
	// is thrown away, so an operation's result must not depend on which discarded siblings ran before it (state kept
	// outside the store - a cache in a keeper, a package variable - would make the search itself meaningless).
	first := spec.Init()
	first.spec = spec
	fp1 := e.firstLevel(first, false)
	root := spec.Init()
	root.spec = spec
	fp2 := e.firstLevel(root, true)
	res.DeterminismOK = strings.Join(fp1, "\n") == strings.Join(fp2, "\n")
	if !res.DeterminismOK {
		for i := range fp1 {
			if i < len(fp2) && fp1[i] != fp2[i] {
				res.DeterminismDiff = fmt.Sprintf("%s  vs  %s", fp1[i], fp2[i])
				break
			}
		}
		// tell apart "the harness is not deterministic" from "an execution that was thrown away influenced a later one":
		// a third world takes the forward order again; if it agrees with the first, the order is what matters
		// (a spec owns its latest world: the search below gets a fresh one afterwards)
		third := spec.Init()
		third.spec = spec
		fp3 := e.firstLevel(third, false)
		root = spec.Init()
		root.spec = spec
		if strings.Join(fp1, "\n") == strings.Join(fp3, "\n") {
			res.DeterminismOK = true
			v := Violation{Oracle: "discarded-execution-leaves-no-trace", Signature: IsolationSignature,
				Detail: "the same operation on the same state gives different results depending on which other operations were executed before it on branches that were thrown away (state kept outside the store): " + res.DeterminismDiff,
				Path:   []string{"(first-level operations in forward and in reverse order)"}, Scenario: spec.Name()}
			res.Violations = append(res.Violations, v)
			res.ViolationCounts[v.Signature]++
		}
	}

	e.dfs(root, opt.Depth, 0)
	progressMu.Lock()
	progressAt = time.Time{} // the search is over: what follows (conformance replay) is not a single transition
	progressMu.Unlock()
	res.States = len(e.visited)
	for k := range e.visited {
		res.Digests = append(res.Digests, hex.EncodeToString(k[:8]))
	}
	sort.Strings(res.Digests)
	if e.capped {
		res.Exhaustive = false
	}
	res.CompletedDepth = opt.Depth
	res.WallS = time.Since(start).Seconds()
	return res
}

// firstLevel fingerprints the root and every successor of the root.
func (e *explorer) firstLevel(root *State, reverse bool) []string {
	k := stateKey(root)
	ops := e.spec.Ops(root)
	out := make([]string, len(ops)+1)
	out[0] = hex.EncodeToString(k[:])
	for j := range ops {
		i := j
		if reverse {
			i = len(ops) - 1 - j
		}
		op := ops[i]
		c := Child(root, op.Name)
		stamp(root.Path, op.Name)
		op.Run(c)
		ck := stateKey(c)
		out[i+1] = fmt.Sprintf("%s|%x|%v|%s", op.Name, ck[:], c.Accepted, c.Outcome)
	}
	return out
}

func (e *explorer) record(v Violation, s *State) {
	v.Scenario = e.spec.Name()
	if v.Path == nil {
		v.Path = append([]string(nil), s.Path...)
	}
	e.res.ViolationCounts[v.Signature]++
	// keep the shortest path per signature
	for i, old := range e.res.Violations {
		if old.Signature == v.Signature {
			if len(v.Path) < len(old.Path) {
				e.res.Violations[i] = v
			}
			return
		}
	}
	if len(e.res.Violations) < e.opt.MaxViol {
		e.res.Violations = append(e.res.Violations, v)
	}
}

func (e *explorer) mine(level int, idx int, acc int) (bool, int) {
	// deal the subtrees at depth ShardDepth round-robin over the shards
	if e.opt.Shards == 1 {
		return true, acc
	}
	if level < e.opt.ShardDepth-1 {
		return true, acc*1000 + idx
	}
	if level == e.opt.ShardDepth-1 {
		n := acc*1000 + idx
		return n%e.opt.Shards == e.opt.Shard, n
	}
	return true, acc
}

func (e *explorer) dfs(s *State, remaining int, shardAcc int) {
	key := stateKey(s)
	level := len(s.Path)
	if prev, ok := e.visited[key]; ok && prev >= remaining {
		return
	}
	_, seen := e.visited[key]
	e.visited[key] = remaining
	if !seen {
		if level > e.res.MaxDepth {
			e.res.MaxDepth = level
		}
		e.spec.Check(s)
		for _, v := range s.viols {
			e.record(v, s)
		}
		s.viols = nil
		for _, c := range e.spec.Counters(s) {
			e.res.Counters[c]++
		}
	}
	if remaining == 0 {
		e.leaf++
		if len(e.res.Samples) < 4 && e.leaf%97 == 1 {
			e.res.Samples = append(e.res.Samples, append([]string(nil), s.Path...))
		}
		return
	}
	if !e.opt.Deadline.IsZero() && time.Now().After(e.opt.Deadline) {
		e.capped = true
		return
	}
	ops := e.spec.Ops(s)
	for i, op := range ops {
		ok, acc := e.mine(level, i, shardAcc)
		if !ok {
			continue
		}
		c := Child(s, op.Name)
		stamp(s.Path, op.Name)
		op.Run(c)
		e.res.Transitions++
		if c.Accepted {
			e.res.Accepted++
		} else {
			e.res.Rejected++
		}
		kind := op.Name
		if j := strings.IndexAny(kind, "(:"); j > 0 {
			kind = kind[:j]
		}
		e.res.Outcomes[kind+"="+c.Outcome]++
		for _, v := range c.viols {
			e.record(v, c)
		}
		c.viols = nil
		e.dfs(c, remaining-1, acc)
	}
}

// Replay re-executes a path of op names from the root and returns the violations met on the way
// (step oracles and state invariants), for replay files.
func Replay(spec Spec, path []string) ([]Violation, error) {
	s := spec.Init()
	s.spec = spec
	var out []Violation
	collect := func(st *State) {
		spec.Check(st)
		for _, v := range st.viols {
			v.Scenario = spec.Name()
			out = append(out, v)
		}
		st.viols = nil
	}
	collect(s)
	for _, name := range path {
		var found *Op
		ops := spec.Ops(s)
		for i := range ops {
			if ops[i].Name == name {
				found = &ops[i]
				break
			}
		}
		if found == nil {
			var en []string
			for _, o := range ops {
				en = append(en, o.Name)
			}
			return out, fmt.Errorf("replay diverged: op %q not enabled after %v (enabled: %v)", name, s.Path, en)
		}
		c := Child(s, name)
		found.Run(c)
		if Verbose {
			fmt.Printf("  %-40s accepted=%v outcome=%s\n", name, c.Accepted, c.Outcome)
		}
		for _, v := range c.viols {
			v.Scenario = spec.Name()
			out = append(out, v)
		}
		c.viols = nil
		collect(c)
		s = c
	}
	return out, nil
}
