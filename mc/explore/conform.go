package explore

import (
	"crypto/sha256"
	"fmt"
	"sort"
	"strings"

	"fxmc/world"
)

// Conformance binds the two harness shortcuts of the explorer - handlers stepped on store branches and the emulated
// block boundary (world.NextBlock) - to the real ABCI path. It enumerates the op sequences of spec to the given depth
// (emulated, as the explorer does), takes the maximal ones (leaves), and replays each of them twice on fresh
// applications: once emulated, once with the world living inside real blocks (world.RealMode: every op runs in the
// context FinalizeBlock hands to the begin-blocker hook, every Block op is a real EndBlocker + Commit + FinalizeBlock
// of the next height). After every op the complete KV state of both runs must agree, except for the keys listed in
// Excluded (with the reason each of them legitimately differs).

// Excluded lists "store/hex-key-prefix" patterns that differ between an emulated and a real block for reasons that
// have nothing to do with the module logic under test.
var Excluded = []struct{ Prefix, Why string }{
	{"staking/50", "historical info: embeds the block header (app hash, last block id, validators hash), which only a real block has"},
}

// NoExclusions switches the exclusion list off (development aid: shows that the comparison is not vacuous).
var NoExclusions bool

// Verbose prints every validated sequence (development aid).
var Verbose bool

func excluded(k string) bool {
	if NoExclusions {
		return false
	}
	for _, e := range Excluded {
		if strings.HasPrefix(k, e.Prefix) {
			return true
		}
	}
	return false
}

func filtered(d map[string][]byte) map[string][]byte {
	out := map[string][]byte{}
	for k, v := range d {
		if !excluded(k) {
			out[k] = v
		}
	}
	return out
}

func sigOf(d map[string][]byte) string {
	var ks []string
	for k := range d {
		ks = append(ks, k)
	}
	sort.Strings(ks)
	h := sha256.New()
	for _, k := range ks {
		fmt.Fprintf(h, "%d:%s=%d:", len(k), k, len(d[k]))
		h.Write(d[k])
	}
	return fmt.Sprintf("%x", h.Sum(nil)[:12])
}

// linear replays path in place on a fresh scenario and returns the filtered dump after every op.
func linear(spec Spec, path []string, real bool) (dumps []map[string][]byte, outcomes []string, err error) {
	world.RealMode = real
	s := spec.Init()
	world.RealMode = false
	s.spec = spec
	defer func() {
		if real {
			if e := s.W.Finish(); e != nil && err == nil {
				err = e
			}
		}
	}()
	for _, name := range path {
		var found *Op
		ops := spec.Ops(s)
		for i := range ops {
			if ops[i].Name == name {
				found = &ops[i]
				break
			}
		}
		if found == nil {
			return dumps, outcomes, fmt.Errorf("op %q not enabled after %v (real=%v)", name, s.Path, real)
		}
		s.Accepted, s.Outcome = false, ""
		found.Run(s)
		s.viols = nil
		s.Path = append(s.Path, name)
		dumps = append(dumps, filtered(s.W.Dump(s.Ctx)))
		outcomes = append(outcomes, fmt.Sprintf("%v/%s", s.Accepted, s.Outcome))
	}
	return dumps, outcomes, nil
}

// leaves enumerates the maximal op sequences of spec up to depth (emulated mode, branch per op like the explorer).
func leaves(spec Spec, depth, max int) [][]string {
	root := spec.Init()
	root.spec = spec
	var out [][]string
	var rec func(s *State, d int)
	rec = func(s *State, d int) {
		if len(out) >= max {
			return
		}
		ops := spec.Ops(s)
		if d == 0 || len(ops) == 0 {
			out = append(out, append([]string(nil), s.Path...))
			return
		}
		for _, op := range ops {
			c := Child(s, op.Name)
			op.Run(c)
			c.viols = nil
			rec(c, d-1)
			if len(out) >= max {
				return
			}
		}
	}
	rec(root, depth)
	return out
}

// Conformance returns the number of op sequences validated and a description of every divergence.
func Conformance(spec Spec, depth, maxLeaves, shard, shards int) (validated, steps int, divergences []string) {
	all := leaves(spec, depth, 4000)
	stride := len(all) / (maxLeaves * shards)
	if stride < 1 {
		stride = 1
	}
	tried := 0
	for i, path := range all {
		// sequences spread evenly over the whole enumeration, dealt round-robin to the shards
		if i%stride != 0 || (i/stride)%shards != shard {
			continue
		}
		if tried >= maxLeaves {
			break
		}
		tried++
		em, eo, err1 := linear(spec, path, false)
		re, ro, err2 := linear(spec, path, true)
		if err1 != nil || err2 != nil {
			divergences = append(divergences, fmt.Sprintf("%s: replay failed: emulated=%v real=%v", strings.Join(path, " ; "), err1, err2))
			continue
		}
		ok := true
		for j := range path {
			if eo[j] != ro[j] {
				divergences = append(divergences, fmt.Sprintf("%s: step %d (%s): outcome emulated %s, real %s", strings.Join(path, " ; "), j+1, path[j], eo[j], ro[j]))
				ok = false
				break
			}
			if sigOf(em[j]) != sigOf(re[j]) {
				d := world.DiffDumps(em[j], re[j])
				if len(d) > 6 {
					d = d[:6]
				}
				divergences = append(divergences, fmt.Sprintf("%s: step %d (%s): stores differ (emulated -> real): %s", strings.Join(path, " ; "), j+1, path[j], strings.Join(d, " | ")))
				ok = false
				break
			}
		}
		if ok {
			validated++
			steps += len(path)
			if Verbose {
				fmt.Printf("  ok: %s -> %s\n", strings.Join(path, " ; "), strings.Join(ro, ","))
			}
		}
	}
	return validated, steps, divergences
}
