// seamgen finds every `range` over a map and every time.Now() in the non-test, non-generated Go files of the
// fx-core state-machine packages of the tree it is pointed at, and writes a `go build -overlay` file set in which
// map ranges iterate in an order chosen by the explorer (package verifseam, added to the fx-core module by the same
// overlay) and time.Now() is answered by the explorer. Nothing in the tree is modified.
//
//	seamgen -repo /repo -out /verif/.cache/seam
//
// Output: <out>/overlay.json, <out>/sites.json (every site with file:line, whether it was rewritten, and why not).
package main

import (
	"encoding/json"
	"flag"
	"fmt"
	"go/ast"
	"go/token"
	"go/types"
	"os"
	"path/filepath"
	"sort"
	"strings"

	"golang.org/x/tools/go/packages"
)

type site struct {
	ID        string `json:"id"`
	File      string `json:"file"`
	Line      int    `json:"line"`
	Kind      string `json:"kind"` // map-range | time-now
	Rewritten bool   `json:"rewritten"`
	Note      string `json:"note,omitempty"`
}

type edit struct {
	pos, end int // byte offsets; replace [pos,end) by text
	text     string
}

const seamImport = "github.com/functionx/fx-core/v8/verifseam"

func main() {
	repo := flag.String("repo", "/repo", "")
	out := flag.String("out", "", "")
	flag.Parse()
	if *out == "" {
		fmt.Println("usage: seamgen -repo DIR -out DIR")
		os.Exit(2)
	}
	cfg := &packages.Config{Mode: packages.NeedName | packages.NeedFiles | packages.NeedSyntax | packages.NeedTypes | packages.NeedTypesInfo | packages.NeedCompiledGoFiles,
		Dir: *repo, Env: append(os.Environ(), "GOFLAGS=-mod=mod", "GOPROXY=off", "GOSUMDB=off", "GOTOOLCHAIN=local")}
	pkgs, err := packages.Load(cfg, "./x/...", "./app/...", "./ante/...", "./types/...", "./contract/...")
	if err != nil {
		fmt.Println("load:", err)
		os.Exit(2)
	}
	bad := false
	for _, p := range pkgs {
		for _, e := range p.Errors {
			fmt.Println("package error:", p.PkgPath, e)
			bad = true
		}
	}
	if bad {
		os.Exit(2)
	}
	_ = os.RemoveAll(*out)
	if err := os.MkdirAll(filepath.Join(*out, "files"), 0o755); err != nil {
		panic(err)
	}
	overlay := map[string]string{}
	var sites []site
	for _, p := range pkgs {
		for i, f := range p.Syntax {
			name := p.CompiledGoFiles[i]
			if strings.HasSuffix(name, "_test.go") || strings.HasSuffix(name, ".pb.go") || strings.HasSuffix(name, ".pb.gw.go") || strings.Contains(name, "/mock/") || !strings.HasPrefix(name, *repo) {
				continue
			}
			src, err := os.ReadFile(name)
			if err != nil {
				panic(err)
			}
			if strings.Contains(string(src[:min(len(src), 400)]), "Code generated") {
				continue
			}
			rel, _ := filepath.Rel(*repo, name)
			fset := p.Fset
			off := func(pos token.Pos) int { return fset.Position(pos).Offset }
			var edits []edit
			labeled := map[ast.Stmt]bool{}
			ast.Inspect(f, func(n ast.Node) bool {
				if l, ok := n.(*ast.LabeledStmt); ok {
					labeled[l.Stmt] = true
				}
				return true
			})
			ast.Inspect(f, func(n ast.Node) bool {
				switch x := n.(type) {
				case *ast.RangeStmt:
					tv, ok := p.TypesInfo.Types[x.X]
					if !ok {
						return true
					}
					if _, isMap := tv.Type.Underlying().(*types.Map); !isMap {
						return true
					}
					line := fset.Position(x.Pos()).Line
					s := site{ID: fmt.Sprintf("%s:%d", rel, line), File: rel, Line: line, Kind: "map-range"}
					if x.Key == nil && x.Value == nil {
						s.Note = "iterates without looking at keys or values: order cannot be observed"
						sites = append(sites, s)
						return true
					}
					if x.Tok != token.DEFINE {
						s.Note = "assigns to existing variables (not :=): not rewritten"
						sites = append(sites, s)
						return true
					}
					mexpr := string(src[off(x.X.Pos()):off(x.X.End())])
					simple := true
					ast.Inspect(x.X, func(m ast.Node) bool {
						if _, isCall := m.(*ast.CallExpr); isCall {
							simple = false
						}
						return true
					})
					pre, post := "", ""
					mname := mexpr
					if !simple {
						if labeled[x] {
							s.Note = "labeled range over a call expression: not rewritten"
							sites = append(sites, s)
							return true
						}
						pre = "{ verifseamM := " + mexpr + "; "
						post = " }"
						mname = "verifseamM"
					}
					keyName := "verifseamK"
					if id, ok := x.Key.(*ast.Ident); ok && x.Key != nil && id.Name != "_" {
						keyName = id.Name
					}
					body := ""
					if x.Value != nil {
						if id, ok := x.Value.(*ast.Ident); !ok || id.Name != "_" {
							vname := string(src[off(x.Value.Pos()):off(x.Value.End())])
							body = fmt.Sprintf(" %s, verifseamOK := %s[%s]; if !verifseamOK { continue };", vname, mname, keyName)
						}
					}
					hdr := fmt.Sprintf("%sfor _, %s := range verifseam.Keys(%q, %s) {%s", pre, keyName, s.ID, mname, body)
					edits = append(edits, edit{off(x.Pos()), off(x.Body.Lbrace) + 1, hdr})
					if post != "" {
						edits = append(edits, edit{off(x.End()), off(x.End()), post})
					}
					s.Rewritten = true
					sites = append(sites, s)
				case *ast.CallExpr:
					sel, ok := x.Fun.(*ast.SelectorExpr)
					if !ok || sel.Sel.Name != "Now" {
						return true
					}
					id, ok := sel.X.(*ast.Ident)
					if !ok {
						return true
					}
					pn, ok := p.TypesInfo.Uses[id].(*types.PkgName)
					if !ok || pn.Imported().Path() != "time" {
						return true
					}
					line := fset.Position(x.Pos()).Line
					sites = append(sites, site{ID: fmt.Sprintf("%s:%d", rel, line), File: rel, Line: line, Kind: "time-now", Rewritten: true})
					edits = append(edits, edit{off(x.Pos()), off(x.End()), fmt.Sprintf("verifseam.Now(%q)", fmt.Sprintf("%s:%d", rel, line))})
					edits = append(edits, edit{len(src), len(src), "\nvar _ = " + id.Name + ".Now\n"})
				}
				return true
			})
			if len(edits) == 0 {
				continue
			}
			// import right after the package clause
			pkgEnd := off(f.Name.End())
			edits = append(edits, edit{pkgEnd, pkgEnd, "; import verifseam \"" + seamImport + "\""})
			sort.SliceStable(edits, func(i, j int) bool { return edits[i].pos < edits[j].pos })
			var b strings.Builder
			cur := 0
			for _, e := range edits {
				if e.pos < cur {
					fmt.Println("overlapping edits in", name)
					os.Exit(2)
				}
				b.Write(src[cur:e.pos])
				b.WriteString(e.text)
				cur = e.end
			}
			b.Write(src[cur:])
			dst := filepath.Join(*out, "files", strings.ReplaceAll(rel, "/", "__"))
			if err := os.WriteFile(dst, []byte(b.String()), 0o644); err != nil {
				panic(err)
			}
			overlay[name] = dst
		}
	}
	// the seam package itself, added to the fx-core module by the overlay
	seamSrc, err := os.ReadFile(filepath.Join(filepath.Dir(os.Args[0]), "verifseam.go.txt"))
	if err != nil {
		seamSrc, err = os.ReadFile("/verif/seamgen/verifseam.go.txt")
		if err != nil {
			panic(err)
		}
	}
	dst := filepath.Join(*out, "files", "verifseam.go")
	if err := os.WriteFile(dst, seamSrc, 0o644); err != nil {
		panic(err)
	}
	overlay[filepath.Join(*repo, "verifseam", "seam.go")] = dst
	bz, _ := json.MarshalIndent(map[string]interface{}{"Replace": overlay}, "", " ")
	if err := os.WriteFile(filepath.Join(*out, "overlay.json"), bz, 0o644); err != nil {
		panic(err)
	}
	sort.Slice(sites, func(i, j int) bool { return sites[i].ID < sites[j].ID })
	bz, _ = json.MarshalIndent(sites, "", " ")
	if err := os.WriteFile(filepath.Join(*out, "sites.json"), bz, 0o644); err != nil {
		panic(err)
	}
	n := 0
	for _, s := range sites {
		if s.Rewritten {
			n++
		}
	}
	fmt.Printf("seamgen: %d sites (%d rewritten), %d files in overlay\n", len(sites), n, len(overlay))
}
